//! Implementation-side evaluator for the `filterset` correspondence checks (props/C05.py,
//! props/C20.py). Public API of nextest-filtering only.
//!
//! ops:
//!   parse   {s}                       -> ParsedExpr::parse + Filterset::parse observations
//!   oracle  {globs, regexes, inputs}  -> validity / match tables of the real glob and regex engines,
//!                                        obtained through the crate's own NameMatcher values
//!   (deep takes an optional "stack": bytes -> run on a thread with that stack size)
//!   graph   {}                        -> workspace packages of the fixture graph + depends_on matrix
//!   eval    {s, default, queries}     -> matches_test / matches_binary on each query
//!   deep    {unit, close, depth, leaf} -> parse a deeply nested expression (run in a child process)
use crate::common::*;
use guppy::graph::DependencyDirection;
use nextest_filtering::{
    errors::ParseSingleError, BinaryQuery, CompiledExpr, EvalContext, Filterset, FiltersetKind,
    FiltersetLeaf, NameMatcher, ParseContext, ParsedExpr, TestQuery,
};
use nextest_metadata::RustBinaryId;
use serde_json::{json, Value};
use std::sync::OnceLock;

fn gplatform(s: &str) -> guppy::graph::cargo::BuildPlatform {
    match s {
        "host" => guppy::graph::cargo::BuildPlatform::Host,
        _ => guppy::graph::cargo::BuildPlatform::Target,
    }
}

fn pcx() -> &'static ParseContext<'static> {
    static C: OnceLock<ParseContext<'static>> = OnceLock::new();
    C.get_or_init(|| ParseContext::new(graph()))
}

fn err_obs(e: &ParseSingleError) -> Value {
    use ParseSingleError::*;
    let (name, span) = match e {
        InvalidRegex { span, .. } => ("InvalidRegex", Some(*span)),
        InvalidGlob { span, .. } => ("InvalidGlob", Some(*span)),
        BannedPredicate { span, .. } => ("BannedPredicate", Some(*span)),
        InvalidRegexWithoutMessage(s) => ("InvalidRegexWithoutMessage", Some(*s)),
        ExpectedCloseRegex(s) => ("ExpectedCloseRegex", Some(*s)),
        InvalidOrOperator(s) => ("InvalidOrOperator", Some(*s)),
        InvalidAndOperator(s) => ("InvalidAndOperator", Some(*s)),
        UnexpectedArgument(s) => ("UnexpectedArgument", Some(*s)),
        UnexpectedComma(s) => ("UnexpectedComma", Some(*s)),
        InvalidString(s) => ("InvalidString", Some(*s)),
        ExpectedOpenParenthesis(s) => ("ExpectedOpenParenthesis", Some(*s)),
        ExpectedCloseParenthesis(s) => ("ExpectedCloseParenthesis", Some(*s)),
        InvalidEscapeCharacter(s) => ("InvalidEscapeCharacter", Some(*s)),
        ExpectedExpr(s) => ("ExpectedExpr", Some(*s)),
        ExpectedEndOfExpression(s) => ("ExpectedEndOfExpression", Some(*s)),
        NoPackageMatch(s) => ("NoPackageMatch", Some(*s)),
        NoBinaryIdMatch(s) => ("NoBinaryIdMatch", Some(*s)),
        NoBinaryNameMatch(s) => ("NoBinaryNameMatch", Some(*s)),
        InvalidPlatformArgument(s) => ("InvalidPlatformArgument", Some(*s)),
        Unknown => ("Unknown", None),
        _ => ("Other", None),
    };
    match span {
        Some(s) => json!([name, s.offset(), s.len()]),
        None => json!([name]),
    }
}

fn parse_obs(s: &str, kind: FiltersetKind) -> Value {
    let pe = match ParsedExpr::parse(s) {
        Ok(e) => json!({ "ok": true, "dbg": format!("{e:?}"), "disp": e.to_string() }),
        Err(errs) => json!({ "ok": false, "errors": errs.iter().map(err_obs).collect::<Vec<_>>() }),
    };
    let fs = match Filterset::parse(s.to_owned(), pcx(), kind) {
        Ok(f) => json!({ "ok": true, "disp": f.parsed.to_string() }),
        Err(e) => json!({ "ok": false, "errors": e.errors.iter().map(err_obs).collect::<Vec<_>>() }),
    };
    json!({ "pe": pe, "fs": fs, "len": s.len() })
}

/// `\u{..}` for everything except ASCII alphanumerics: a spelling every version of the string
/// parser maps back to the same text.
fn esc_string(s: &str) -> String {
    let mut out = String::new();
    for c in s.chars() {
        if c.is_ascii_alphanumeric() {
            out.push(c);
        } else {
            out.push_str(&format!("\\u{{{:x}}}", c as u32));
        }
    }
    out
}

fn esc_regex(s: &str) -> String {
    s.replace('/', "\\/")
}

fn leaf_matcher(text: &str) -> Result<NameMatcher, Vec<ParseSingleError>> {
    match Filterset::parse(text.to_owned(), pcx(), FiltersetKind::Test) {
        Ok(f) => match f.compiled {
            CompiledExpr::Set(FiltersetLeaf::Test(m, _)) => Ok(m),
            _ => Err(vec![]),
        },
        Err(e) => Err(e.errors),
    }
}

fn matches(m: &NameMatcher, inputs: &[String]) -> Vec<bool> {
    // NameMatcher::is_match is crate-private: evaluate through a test() leaf
    let leaf = CompiledExpr::Set(FiltersetLeaf::Test(m.clone(), (0, 0).into()));
    let all = CompiledExpr::ALL;
    let ecx = EvalContext {
        default_filter: &all,
    };
    let pid = package_id("a");
    let bid = RustBinaryId::new("x");
    let kind = kind_of("lib");
    inputs
        .iter()
        .map(|i| {
            leaf.matches_test(
                &TestQuery {
                    binary_query: BinaryQuery {
                        package_id: &pid,
                        binary_id: &bid,
                        binary_name: "x",
                        kind: &kind,
                        platform: gplatform("target"),
                    },
                    test_name: i,
                },
                &ecx,
            )
        })
        .collect()
}

fn oracle(case: &Value) -> Value {
    let inputs = strs(&case["inputs"]);
    let mut globs = Vec::new();
    for g in strs(&case["globs"]) {
        if g.is_empty() {
            // the empty text is reported by the string parser (InvalidString), so Filterset::parse
            // fails either way; ParsedExpr::parse still yields the expression iff the glob engine
            // accepted the empty glob
            let ok = ParsedExpr::parse("test(#)").is_ok();
            globs.push(json!({ "g": g, "valid": ok, "m": inputs.iter().map(|i| i.is_empty()).collect::<Vec<_>>() }));
            continue;
        }
        match leaf_matcher(&format!("test(#{})", esc_string(&g))) {
            Ok(NameMatcher::Glob { glob, .. }) if glob.as_str() == g => {
                globs.push(json!({ "g": g, "valid": true, "m": matches(&NameMatcher::Glob { glob, implicit: false }, &inputs) }))
            }
            Ok(_) => globs.push(json!({ "g": g, "valid": null, "why": "oracle spelling did not reproduce the text" })),
            Err(errs) => {
                let only_glob = errs.len() == 1 && matches!(errs[0], ParseSingleError::InvalidGlob { .. });
                globs.push(json!({ "g": g, "valid": if only_glob { json!(false) } else { Value::Null },
                                   "errors": errs.iter().map(err_obs).collect::<Vec<_>>() }))
            }
        }
    }
    let mut regexes = Vec::new();
    for r in strs(&case["regexes"]) {
        let text = format!("test(/{}/)", esc_regex(&r));
        match leaf_matcher(&text) {
            Ok(NameMatcher::Regex(re)) if re.as_str() == r => {
                regexes.push(json!({ "r": r, "valid": true, "m": matches(&NameMatcher::Regex(re), &inputs) }))
            }
            Ok(_) => regexes.push(json!({ "r": r, "valid": null, "why": "oracle spelling did not reproduce the text" })),
            Err(errs) => {
                // span relative to the start of the regex body (offset 6 in "test(/")
                let v = match errs.as_slice() {
                    [ParseSingleError::InvalidRegex { span, .. }] => {
                        json!({ "r": r, "valid": false, "off": span.offset() as i64 - 6, "len": span.len() })
                    }
                    [ParseSingleError::InvalidRegexWithoutMessage(_)] => {
                        json!({ "r": r, "valid": false })
                    }
                    _ => json!({ "r": r, "valid": null, "errors": errs.iter().map(err_obs).collect::<Vec<_>>() }),
                };
                regexes.push(v)
            }
        }
    }
    json!({ "globs": globs, "regexes": regexes })
}

fn graph_obs() -> Value {
    let g = graph();
    let pkgs: Vec<_> = g
        .resolve_workspace()
        .packages(DependencyDirection::Forward)
        .collect();
    let names: Vec<_> = pkgs.iter().map(|p| p.name().to_owned()).collect();
    let ids: Vec<_> = pkgs.iter().map(|p| p.id().repr().to_owned()).collect();
    let mut cache = g.new_depends_cache();
    let dep: Vec<Vec<bool>> = pkgs
        .iter()
        .map(|a| {
            pkgs.iter()
                .map(|b| cache.depends_on(a.id(), b.id()).unwrap_or(false))
                .collect()
        })
        .collect();
    json!({ "names": names, "ids": ids, "depends_on": dep })
}

fn eval(case: &Value) -> Value {
    let s = case["s"].as_str().unwrap();
    let fs = match Filterset::parse(s.to_owned(), pcx(), FiltersetKind::Test) {
        Ok(f) => f,
        Err(e) => {
            return json!({ "ok": false, "errors": e.errors.iter().map(err_obs).collect::<Vec<_>>() })
        }
    };
    let default = match case["default"].as_str() {
        Some(d) => match Filterset::parse(d.to_owned(), pcx(), FiltersetKind::DefaultFilter) {
            Ok(f) => f.compiled,
            Err(e) => {
                return json!({ "ok": false, "default_errors": e.errors.iter().map(err_obs).collect::<Vec<_>>() })
            }
        },
        None => CompiledExpr::ALL,
    };
    let ecx = EvalContext {
        default_filter: &default,
    };
    let mut out = Vec::new();
    for q in case["queries"].as_array().unwrap() {
        // [pkg index (into graph op's list), binary_id, binary_name, kind, platform, test_name]
        let pid = guppy::PackageId::new(q[0].as_str().unwrap());
        let bid = RustBinaryId::new(q[1].as_str().unwrap());
        let kind = kind_of(q[3].as_str().unwrap());
        let bq = BinaryQuery {
            package_id: &pid,
            binary_id: &bid,
            binary_name: q[2].as_str().unwrap(),
            kind: &kind,
            platform: gplatform(q[4].as_str().unwrap()),
        };
        let t = fs.matches_test(
            &TestQuery {
                binary_query: bq,
                test_name: q[5].as_str().unwrap(),
            },
            &ecx,
        );
        let b = match fs.matches_binary(&bq, &ecx) {
            Some(true) => 1,
            Some(false) => 0,
            None => 2,
        };
        out.push(json!([t as u64, b]));
    }
    json!({ "ok": true, "disp": fs.parsed.to_string(), "dbg": format!("{:?}", fs.parsed), "res": out })
}

fn deep(case: &Value) -> Value {
    // "stack": N (bytes) runs the work on a thread with that stack size; absent / 0: this (the
    // main) thread, which is where nextest itself parses -E and the configuration's filters
    let stack = case.get("stack").and_then(|v| v.as_u64()).unwrap_or(0) as usize;
    if stack == 0 {
        deep_work(case)
    } else {
        let case = case.clone();
        std::thread::Builder::new()
            .stack_size(stack)
            .spawn(move || deep_work(&case))
            .expect("spawn")
            .join()
            .expect("join")
    }
}

fn deep_work(case: &Value) -> Value {
    let unit = case["unit"].as_str().unwrap();
    let close = case["close"].as_str().unwrap();
    let depth = case["depth"].as_u64().unwrap() as usize;
    let leaf = case["leaf"].as_str().unwrap();
    let s = format!("{}{}{}", unit.repeat(depth), leaf, close.repeat(depth));
    let ok = match ParsedExpr::parse(&s) {
        Ok(e) => {
            // also exercise the printer and the re-parse on the deep tree
            let printed = e.to_string();
            match ParsedExpr::parse(&printed) {
                Ok(e2) => json!({ "ok": true, "reparse_ok": true, "same_print": e2.to_string() == printed }),
                Err(_) => json!({ "ok": true, "reparse_ok": false }),
            }
        }
        Err(errs) => json!({ "ok": false, "nerrors": errs.len() }),
    };
    ok
}

pub fn run(case: &Value) -> Value {
    match case["op"].as_str().unwrap_or("") {
        "parse" => parse_obs(
            case["s"].as_str().unwrap(),
            if case["kind"].as_str() == Some("default") {
                FiltersetKind::DefaultFilter
            } else {
                FiltersetKind::Test
            },
        ),
        "oracle" => oracle(case),
        "graph" => graph_obs(),
        "eval" => eval(case),
        "deep" => deep(case),
        other => json!({ "error": format!("unknown op {other}") }),
    }
}
