//! Implementation-side evaluator for the `dispatcher` correspondence checks (props/C10.py,
//! C01.py, C02.py): steps the real `DispatcherContext::handle_event` through hook H2
//! (`nextest_runner::runner::verif_dispatcher`) and calls the statistics functions through hook H3
//! (`nextest_runner::reporter::events::verif_events`).
use crate::common::*;
use nextest_metadata::{FilterMatch, NextestExitCode, RustBinaryId, RustTestCaseSummary};
use nextest_runner::{
    config::MaxFail,
    list::{RustTestSuite, RustTestSuiteStatus, TestInstance},
    reporter::events::{
        verif_run_stats::{self as verif_events, VerifAttempt},
        AbortStatus, CancelReason, ExecutionResult, FinalRunStats, RunStats, RunStatsFailureKind,
    },
    runner::verif_dispatcher::{
        VerifEmitted, VerifHandshake, VerifInput, VerifRequest, VerifResponse, VerifShutdown,
        VerifState, VerifStepper,
    },
    runner::verif_dispatcher_loop,
};
use serde_json::{json, Value};
use std::{
    collections::{BTreeMap, BTreeSet},
    panic::{catch_unwind, AssertUnwindSafe},
    sync::OnceLock,
};

const MAX_TESTS: usize = 8;

/// eight synthetic test instances: two binaries with four tests each
fn instances() -> &'static Vec<TestInstance<'static>> {
    static T: OnceLock<Vec<TestInstance<'static>>> = OnceLock::new();
    T.get_or_init(|| {
        let package = graph()
            .metadata(&package_id("a"))
            .expect("package in fixture graph");
        let info: &'static RustTestCaseSummary = Box::leak(Box::new(RustTestCaseSummary {
            ignored: false,
            filter_match: FilterMatch::Matches,
        }));
        let mut out = Vec::new();
        for b in 0..2 {
            let suite: &'static RustTestSuite<'static> = Box::leak(Box::new(RustTestSuite {
                binary_id: RustBinaryId::new(&format!("crate_a::bin{b}")),
                binary_path: "/fake/binary".into(),
                package,
                binary_name: format!("bin{b}"),
                kind: kind_of("lib"),
                cwd: "/fake/cwd".into(),
                build_platform: platform_of("target"),
                non_test_binaries: BTreeSet::new(),
                status: RustTestSuiteStatus::Listed {
                    test_cases: BTreeMap::new().into(),
                },
            }));
            for n in 0..MAX_TESTS / 2 {
                let name: &'static str = Box::leak(format!("mod::test_{n}").into_boxed_str());
                out.push(TestInstance {
                    name,
                    suite_info: suite,
                    test_info: info,
                });
            }
        }
        out
    })
}

fn u(v: &Value) -> usize {
    v.as_u64().expect("number") as usize
}

fn b(v: &Value) -> bool {
    match v {
        Value::Bool(x) => *x,
        other => other.as_u64().expect("bool or number") != 0,
    }
}

/// [code, signal + 1 (0 = none), leaked]
fn result_of(v: &Value) -> ExecutionResult {
    match u(&v[0]) {
        0 => ExecutionResult::Pass,
        1 => ExecutionResult::Leak,
        2 => ExecutionResult::Fail {
            abort_status: match u(&v[1]) {
                0 => None,
                s => Some(AbortStatus::UnixSignal(s as i32 - 1)),
            },
            leaked: b(&v[2]),
        },
        3 => ExecutionResult::ExecFail,
        4 => ExecutionResult::Timeout,
        other => panic!("bad result code {other}"),
    }
}

fn result_json(r: ExecutionResult) -> Value {
    match r {
        ExecutionResult::Pass => json!([0, 0, 0]),
        ExecutionResult::Leak => json!([1, 0, 0]),
        ExecutionResult::Fail {
            abort_status,
            leaked,
        } => {
            let s = match abort_status {
                None => 0,
                Some(AbortStatus::UnixSignal(s)) => s as i64 + 1,
            };
            json!([2, s, leaked as u8])
        }
        ExecutionResult::ExecFail => json!([3, 0, 0]),
        ExecutionResult::Timeout => json!([4, 0, 0]),
    }
}

/// [code, signal + 1, leaked, is_slow, attempt, total_attempts]
fn attempt_of(v: &Value) -> VerifAttempt {
    VerifAttempt {
        result: result_of(v),
        is_slow: b(&v[3]),
        attempt: u(&v[4]),
        total_attempts: u(&v[5]),
    }
}

fn attempt_json(a: &VerifAttempt) -> Value {
    let mut r = result_json(a.result).as_array().unwrap().clone();
    r.push(json!(a.is_slow as u8));
    r.push(json!(a.attempt));
    r.push(json!(a.total_attempts));
    Value::Array(r)
}

fn stats_of(v: &Value) -> RunStats {
    let g = |i: usize| u(&v[i]);
    RunStats {
        initial_run_count: g(0),
        finished_count: g(1),
        setup_scripts_initial_count: g(2),
        setup_scripts_finished_count: g(3),
        setup_scripts_passed: g(4),
        setup_scripts_failed: g(5),
        setup_scripts_exec_failed: g(6),
        setup_scripts_timed_out: g(7),
        passed: g(8),
        passed_slow: g(9),
        flaky: g(10),
        failed: g(11),
        failed_slow: g(12),
        timed_out: g(13),
        leaky: g(14),
        exec_failed: g(15),
        skipped: g(16),
    }
}

fn stats_json(s: &RunStats) -> Value {
    json!([
        s.initial_run_count,
        s.finished_count,
        s.setup_scripts_initial_count,
        s.setup_scripts_finished_count,
        s.setup_scripts_passed,
        s.setup_scripts_failed,
        s.setup_scripts_exec_failed,
        s.setup_scripts_timed_out,
        s.passed,
        s.passed_slow,
        s.flaky,
        s.failed,
        s.failed_slow,
        s.timed_out,
        s.leaky,
        s.exec_failed,
        s.skipped
    ])
}

fn reason_of_rank(n: usize) -> CancelReason {
    match n {
        0 => CancelReason::SetupScriptFailure,
        1 => CancelReason::TestFailure,
        2 => CancelReason::ReportError,
        3 => CancelReason::Signal,
        4 => CancelReason::Interrupt,
        5 => CancelReason::SecondSignal,
        other => panic!("bad reason {other}"),
    }
}

fn reason_name(r: CancelReason) -> &'static str {
    match r {
        CancelReason::SetupScriptFailure => "SetupScriptFailure",
        CancelReason::TestFailure => "TestFailure",
        CancelReason::ReportError => "ReportError",
        CancelReason::Signal => "Signal",
        CancelReason::Interrupt => "Interrupt",
        CancelReason::SecondSignal => "SecondSignal",
    }
}

fn opt_reason_json(r: Option<CancelReason>) -> Value {
    match r {
        None => Value::Null,
        Some(r) => json!(reason_name(r)),
    }
}

fn shutdown_of(s: &str) -> VerifShutdown {
    match s {
        "hup" => VerifShutdown::Hangup,
        "term" => VerifShutdown::Term,
        "quit" => VerifShutdown::Quit,
        "int" => VerifShutdown::Interrupt,
        other => panic!("bad shutdown signal {other}"),
    }
}

fn shutdown_name(s: VerifShutdown) -> &'static str {
    match s {
        VerifShutdown::Hangup => "hup",
        VerifShutdown::Term => "term",
        VerifShutdown::Quit => "quit",
        VerifShutdown::Interrupt => "int",
    }
}

fn input_of(v: &Value) -> VerifInput {
    match v[0].as_str().expect("event tag") {
        "ss" => VerifInput::SetupScriptStarted { script: u(&v[1]) },
        "sl" => VerifInput::SetupScriptSlow {
            script: u(&v[1]),
            will_terminate: b(&v[2]),
        },
        "sf" => VerifInput::SetupScriptFinished {
            script: u(&v[1]),
            result: result_of(&v[2]),
        },
        "st" => VerifInput::Started { test: u(&v[1]) },
        "slow" => VerifInput::Slow {
            test: u(&v[1]),
            attempt: u(&v[2]),
            total_attempts: u(&v[3]),
            will_terminate: b(&v[4]),
        },
        "afwr" => VerifInput::AttemptFailedWillRetry {
            test: u(&v[1]),
            status: attempt_of(&v[2]),
        },
        "rs" => VerifInput::RetryStarted {
            test: u(&v[1]),
            attempt: u(&v[2]),
            total_attempts: u(&v[3]),
        },
        "fin" => VerifInput::Finished {
            test: u(&v[1]),
            status: attempt_of(&v[2]),
        },
        "skip" => VerifInput::Skipped { test: u(&v[1]) },
        "sig" => VerifInput::Shutdown(shutdown_of(v[1].as_str().unwrap())),
        "stop" => VerifInput::Stop,
        "cont" => VerifInput::Continue,
        "infosig" => VerifInput::InfoSignal { usr1: b(&v[1]) },
        "info" => VerifInput::InputInfo,
        "enter" => VerifInput::InputEnter,
        "rc" => VerifInput::ReportCancel,
        other => panic!("bad event tag {other}"),
    }
}

fn emitted_json(e: &VerifEmitted) -> Value {
    match e {
        VerifEmitted::SetupScriptStarted { script } => json!({"k": "SetupScriptStarted", "script": script}),
        VerifEmitted::SetupScriptSlow {
            script,
            will_terminate,
        } => json!({"k": "SetupScriptSlow", "script": script, "will_terminate": will_terminate}),
        VerifEmitted::SetupScriptFinished { script, result } => {
            json!({"k": "SetupScriptFinished", "script": script, "result": result_json(*result)})
        }
        VerifEmitted::TestStarted {
            test,
            stats,
            running,
            cancel_state,
        } => json!({"k": "TestStarted", "test": test, "stats": stats_json(stats), "running": running,
                    "cancel": opt_reason_json(*cancel_state)}),
        VerifEmitted::TestSlow {
            test,
            attempt,
            total_attempts,
            will_terminate,
        } => json!({"k": "TestSlow", "test": test, "attempt": attempt, "total": total_attempts,
                    "will_terminate": will_terminate}),
        VerifEmitted::TestAttemptFailedWillRetry { test, status } => {
            json!({"k": "TestAttemptFailedWillRetry", "test": test, "status": attempt_json(status)})
        }
        VerifEmitted::TestRetryStarted {
            test,
            attempt,
            total_attempts,
        } => json!({"k": "TestRetryStarted", "test": test, "attempt": attempt, "total": total_attempts}),
        VerifEmitted::TestFinished {
            test,
            statuses,
            describe,
            stats,
            running,
            cancel_state,
        } => json!({"k": "TestFinished", "test": test,
                    "statuses": statuses.iter().map(attempt_json).collect::<Vec<_>>(),
                    "describe": describe, "stats": stats_json(stats), "running": running,
                    "cancel": opt_reason_json(*cancel_state)}),
        VerifEmitted::TestSkipped { test } => json!({"k": "TestSkipped", "test": test}),
        VerifEmitted::RunBeginCancel {
            setup_scripts_running,
            running,
            reason,
        } => json!({"k": "RunBeginCancel", "scripts_running": setup_scripts_running, "running": running,
                    "reason": reason_name(*reason)}),
        VerifEmitted::RunBeginKill {
            setup_scripts_running,
            running,
            reason,
        } => json!({"k": "RunBeginKill", "scripts_running": setup_scripts_running, "running": running,
                    "reason": reason_name(*reason)}),
        VerifEmitted::RunPaused {
            setup_scripts_running,
            running,
        } => json!({"k": "RunPaused", "scripts_running": setup_scripts_running, "running": running}),
        VerifEmitted::RunContinued {
            setup_scripts_running,
            running,
        } => json!({"k": "RunContinued", "scripts_running": setup_scripts_running, "running": running}),
        VerifEmitted::InputEnter {
            stats,
            running,
            cancel_state,
        } => json!({"k": "InputEnter", "stats": stats_json(stats), "running": running,
                    "cancel": opt_reason_json(*cancel_state)}),
        VerifEmitted::Other(name) => json!({"k": "Other", "name": name}),
    }
}

fn handshake_name(h: VerifHandshake) -> &'static str {
    match h {
        VerifHandshake::NoChannel => "none",
        VerifHandshake::Accepted => "accepted",
        VerifHandshake::Refused => "refused",
    }
}

fn response_json(r: VerifResponse) -> Value {
    match r {
        VerifResponse::None => json!("none"),
        VerifResponse::JobStop => json!("job_stop"),
        VerifResponse::JobContinue => json!("job_continue"),
        VerifResponse::InfoSignalUsr1 => json!("info_usr1"),
        VerifResponse::InfoSignalInfo => json!("info_siginfo"),
        VerifResponse::InfoInput => json!("info_input"),
        VerifResponse::CancelReport => json!("cancel_report"),
        VerifResponse::CancelTestFailure => json!("cancel_test_failure"),
        VerifResponse::CancelSignalOnce(s) => json!(format!("cancel_signal_once:{}", shutdown_name(s))),
        VerifResponse::CancelSignalTwice => json!("cancel_signal_twice"),
    }
}

fn request_name(r: &VerifRequest) -> String {
    match r {
        VerifRequest::OtherCancel => "other_cancel".to_owned(),
        VerifRequest::ShutdownOnce(s) => format!("shutdown_once:{}", shutdown_name(*s)),
        VerifRequest::ShutdownTwice => "shutdown_twice".to_owned(),
        VerifRequest::Stop => "stop".to_owned(),
        VerifRequest::Continue => "continue".to_owned(),
        VerifRequest::GetInfo => "get_info".to_owned(),
    }
}

/// [[test index or null (setup script), [request names]], ...]
fn received_json(r: &[(Option<usize>, Vec<VerifRequest>)]) -> Value {
    Value::Array(
        r.iter()
            .map(|(key, reqs)| json!([key, reqs.iter().map(request_name).collect::<Vec<_>>()]))
            .collect(),
    )
}

fn state_json(s: &VerifState) -> Value {
    json!({"stats": stats_json(&s.run_stats), "cancel": opt_reason_json(s.cancel_state),
           "running": s.running, "scripts_running": s.setup_scripts_running,
           "signal_count": s.signal_count, "paused": s.paused})
}

fn final_json(f: FinalRunStats) -> Value {
    match f {
        FinalRunStats::Success => json!([0]),
        FinalRunStats::NoTestsRun => json!([1]),
        FinalRunStats::Cancelled(RunStatsFailureKind::SetupScript) => json!([2]),
        FinalRunStats::Cancelled(RunStatsFailureKind::Test {
            initial_run_count,
            not_run,
        }) => json!([3, initial_run_count, not_run]),
        FinalRunStats::Failed(RunStatsFailureKind::SetupScript) => json!([4]),
        FinalRunStats::Failed(RunStatsFailureKind::Test {
            initial_run_count,
            not_run,
        }) => json!([5, initial_run_count, not_run]),
    }
}

fn ord_code(o: std::cmp::Ordering) -> u8 {
    match o {
        std::cmp::Ordering::Less => 0,
        std::cmp::Ordering::Equal => 1,
        std::cmp::Ordering::Greater => 2,
    }
}

pub fn run(case: &Value) -> Value {
    match case["op"].as_str().unwrap_or("") {
        // step the real handle_event over a sequence of events
        "seq" => {
            let ntests = u(&case["ntests"]).min(MAX_TESTS);
            let tests: Vec<TestInstance<'static>> = instances()[..ntests].to_vec();
            let max_fail = match &case["max_fail"] {
                Value::Null => None,
                v => Some(u(v)),
            };
            let mut stepper =
                VerifStepper::new(tests, u(&case["nscripts"]), u(&case["initial"]), max_fail);
            let mut steps = Vec::new();
            for ev in case["events"].as_array().expect("events") {
                let input = input_of(ev);
                match catch_unwind(AssertUnwindSafe(|| stepper.step(input))) {
                    Ok(step) => steps.push(json!({
                        "panic": false,
                        "hs": handshake_name(step.handshake),
                        "resp": response_json(step.response),
                        "state": state_json(&step.state),
                        "emitted": step.emitted.iter().map(emitted_json).collect::<Vec<_>>(),
                        "received": received_json(&step.received),
                    })),
                    Err(e) => {
                        let msg = e
                            .downcast_ref::<String>()
                            .cloned()
                            .or_else(|| e.downcast_ref::<&str>().map(|s| s.to_string()))
                            .unwrap_or_else(|| "panic".to_string());
                        let hs = stepper.take_handshake();
                        let msg: String = msg.chars().take(160).collect();
                        steps.push(json!({"panic": true, "hs": handshake_name(hs), "msg": msg}));
                        // the process would be gone: nothing is fed after a panic
                        break;
                    }
                }
            }
            json!({ "steps": steps })
        }
        // the real DispatcherContext::run loop: executor events through its channel, the
        // report-cancel oneshot, real shutdown signals raised at this process; what every live
        // unit received on its request channel is read back after every input
        "loop" => {
            let ntests = u(&case["ntests"]).min(MAX_TESTS);
            let tests: Vec<TestInstance<'static>> = instances()[..ntests].to_vec();
            let max_fail = match &case["max_fail"] {
                Value::Null => None,
                v => Some(u(v)),
            };
            let inputs: Vec<VerifInput> = case["events"]
                .as_array()
                .expect("events")
                .iter()
                .map(input_of)
                .collect();
            match verif_dispatcher_loop::run_loop(
                tests,
                u(&case["nscripts"]),
                u(&case["initial"]),
                max_fail,
                &inputs,
            ) {
                Err(e) => json!({ "error": e }),
                Ok(steps) => json!({ "steps": steps.iter().map(|st| json!({
                    "hs": handshake_name(st.handshake),
                    "emitted": st.emitted.iter().map(emitted_json).collect::<Vec<_>>(),
                    "received": received_json(&st.received),
                    "loop_finished": st.loop_finished,
                })).collect::<Vec<_>>() }),
            }
        }
        // RunStats::on_test_finished + ExecutionStatuses::describe
        "otf" => {
            let mut stats = stats_of(&case["stats"]);
            let attempts: Vec<VerifAttempt> = case["attempts"]
                .as_array()
                .unwrap()
                .iter()
                .map(attempt_of)
                .collect();
            verif_events::on_test_finished(&mut stats, &attempts);
            json!({"stats": stats_json(&stats), "describe": verif_events::describe_code(&attempts),
                   "failed_count": stats.failed_count()})
        }
        // RunStats::on_setup_script_finished
        "osf" => {
            let mut stats = stats_of(&case["stats"]);
            verif_events::on_setup_script_finished(&mut stats, result_of(&case["result"]));
            json!({"stats": stats_json(&stats),
                   "failed_scripts": stats.failed_setup_script_count()})
        }
        // RunStats::summarize_final
        "final" => final_json(stats_of(&case["stats"]).summarize_final()),
        // derived Ord of CancelReason and of Option<CancelReason> (0 = None, k+1 = Some(rank k))
        "cmp" => {
            let (a, bb) = (u(&case["a"]), u(&case["b"]));
            json!(ord_code(reason_of_rank(a).cmp(&reason_of_rank(bb))))
        }
        "cmpopt" => {
            let f = |n: usize| if n == 0 { None } else { Some(reason_of_rank(n - 1)) };
            json!(ord_code(f(u(&case["a"])).cmp(&f(u(&case["b"])))))
        }
        // MaxFail::is_exceeded
        "maxfail" => {
            let mf = match &case["mf"] {
                Value::Null => MaxFail::All,
                v => MaxFail::Count(u(v)),
            };
            json!(mf.is_exceeded(u(&case["failed"])))
        }
        // MaxFail::from_fail_fast / FromStr
        "maxfail_parse" => {
            use std::str::FromStr;
            match MaxFail::from_str(case["s"].as_str().unwrap()) {
                Ok(MaxFail::All) => json!("all"),
                Ok(MaxFail::Count(n)) => json!(n),
                Err(_) => json!("error"),
            }
        }
        "fail_fast" => match MaxFail::from_fail_fast(b(&case["v"])) {
            MaxFail::All => json!("all"),
            MaxFail::Count(n) => json!(n),
        },
        // the exit-code constants the verdict is mapped to
        "exitcodes" => json!({
            "NO_TESTS_RUN": NextestExitCode::NO_TESTS_RUN,
            "TEST_RUN_FAILED": NextestExitCode::TEST_RUN_FAILED,
            "SETUP_SCRIPT_FAILED": NextestExitCode::SETUP_SCRIPT_FAILED,
        }),
        other => json!({ "error": format!("unknown op {other}") }),
    }
}
