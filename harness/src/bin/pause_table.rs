//! Translator for C12: regenerates the Gallina pause table from the Rust source. For each wait
//! loop it finds the `SignalRequest::Stop` / `SignalRequest::Continue` match arms (also inside
//! `tokio::select!` bodies, whose token stream is scanned for `match` expressions) and emits the
//! timer operations and their `if` guards as constructors of `pstmt`. An arm it cannot translate
//! is an error (exit status 3): the obligation is then broken rather than silently weakened.
use proc_macro2::{TokenStream, TokenTree};
use quote::ToTokens;
use std::collections::BTreeMap;
use syn::{visit::Visit, Expr, ExprMatch, ItemFn, Stmt};

struct FnFinder<'a> {
    want: &'a str,
    found: Option<ItemFn>,
}
impl<'ast> Visit<'ast> for FnFinder<'_> {
    fn visit_item_fn(&mut self, f: &'ast ItemFn) {
        if f.sig.ident == self.want {
            self.found = Some(f.clone());
        }
        syn::visit::visit_item_fn(self, f);
    }
}

/// all `match` expressions in a token stream, including nested groups and macro bodies
fn matches_in_tokens(ts: TokenStream, out: &mut Vec<ExprMatch>) {
    let toks: Vec<TokenTree> = ts.into_iter().collect();
    let mut i = 0;
    while i < toks.len() {
        if let TokenTree::Ident(id) = &toks[i] {
            if id == "match" {
                // take tokens up to and including the first brace group
                let mut j = i + 1;
                let mut piece = TokenStream::new();
                piece.extend([toks[i].clone()]);
                while j < toks.len() {
                    piece.extend([toks[j].clone()]);
                    if let TokenTree::Group(g) = &toks[j] {
                        if g.delimiter() == proc_macro2::Delimiter::Brace {
                            break;
                        }
                    }
                    j += 1;
                }
                if let Ok(m) = syn::parse2::<ExprMatch>(piece) {
                    out.push(m);
                }
            }
        }
        if let TokenTree::Group(g) = &toks[i] {
            matches_in_tokens(g.stream(), out);
        }
        i += 1;
    }
}

fn norm(ts: impl ToTokens) -> String {
    ts.to_token_stream().to_string().replace(' ', "")
}

struct Ctx<'a> {
    clocks: &'a BTreeMap<&'a str, &'a str>,
}

impl Ctx<'_> {
    /// receiver identifier of `x.pause()`, `x.as_mut().pause()`, `x.is_paused()`
    fn recv_clock(&self, e: &Expr) -> Option<&str> {
        match e {
            Expr::Path(p) => {
                let id = p.path.get_ident()?.to_string();
                self.clocks.get(id.as_str()).copied()
            }
            Expr::MethodCall(m) if m.method == "as_mut" => self.recv_clock(&m.receiver),
            Expr::Paren(p) => self.recv_clock(&p.expr),
            Expr::Reference(r) => self.recv_clock(&r.expr),
            _ => None,
        }
    }

    fn op(&self, e: &Expr) -> Result<Option<String>, String> {
        match e {
            Expr::MethodCall(m) if m.method == "pause" || m.method == "resume" => {
                let k = self
                    .recv_clock(&m.receiver)
                    .ok_or_else(|| format!("unknown clock in `{}`", norm(e)))?;
                Ok(Some(format!(
                    "{} {}",
                    if m.method == "pause" { "Pause" } else { "Resume" },
                    k
                )))
            }
            Expr::MethodCall(m) if m.method == "send" => Ok(Some("Ack".to_owned())),
            Expr::Call(c) => {
                let f = norm(&c.func);
                if f.ends_with("job_control_child") {
                    let a = norm(&c.args);
                    if a.ends_with("JobControlEvent::Stop") {
                        Ok(Some("GroupStop".to_owned()))
                    } else if a.ends_with("JobControlEvent::Continue") {
                        Ok(Some("GroupCont".to_owned()))
                    } else {
                        Err(format!("unknown job control call `{}`", norm(e)))
                    }
                } else {
                    Err(format!("unknown call `{}`", norm(e)))
                }
            }
            Expr::Assign(a) => self.op(&a.right), // `_ = tx.send(())`
            Expr::Path(p) if norm(p).ends_with("HandleSignalResult::JobControl") => Ok(None),
            Expr::Let(l) => self.op(&l.expr),
            _ => Err(format!("untranslatable expression `{}`", norm(e))),
        }
    }

    fn ops_of_block(&self, stmts: &[Stmt]) -> Result<Vec<String>, String> {
        let mut out = Vec::new();
        for s in stmts {
            match s {
                Stmt::Expr(e, _) => {
                    if let Some(o) = self.op(e)? {
                        out.push(o);
                    }
                }
                Stmt::Local(l) => {
                    // `let _ = sender.send(());`
                    let init = l.init.as_ref().ok_or("let without init")?;
                    if let Some(o) = self.op(&init.expr)? {
                        out.push(o);
                    }
                }
                _ => return Err(format!("untranslatable statement `{}`", norm(s))),
            }
        }
        Ok(out)
    }

    fn stmts(&self, stmts: &[Stmt]) -> Result<Vec<String>, String> {
        let mut out = Vec::new();
        for s in stmts {
            match s {
                Stmt::Expr(Expr::If(i), _) => {
                    if i.else_branch.is_some() {
                        return Err("if with else in a pause arm".into());
                    }
                    let (neg, cond) = match &*i.cond {
                        Expr::Unary(u) if matches!(u.op, syn::UnOp::Not(_)) => (true, &*u.expr),
                        c => (false, c),
                    };
                    let k = match cond {
                        Expr::MethodCall(m) if m.method == "is_paused" => self
                            .recv_clock(&m.receiver)
                            .ok_or_else(|| format!("unknown clock in `{}`", norm(cond)))?,
                        _ => return Err(format!("untranslatable condition `{}`", norm(cond))),
                    };
                    let body = self.ops_of_block(&i.then_branch.stmts)?;
                    out.push(format!(
                        "{} {} [{}]",
                        if neg { "IfNotPaused" } else { "IfPaused" },
                        k,
                        body.join("; ")
                    ));
                }
                other => {
                    for o in self.ops_of_block(std::slice::from_ref(other))? {
                        out.push(format!("Do ({o})"));
                    }
                }
            }
        }
        Ok(out)
    }
}

fn arm_body(e: &Expr) -> Vec<Stmt> {
    match e {
        Expr::Block(b) => b.block.stmts.clone(),
        other => vec![Stmt::Expr(other.clone(), None)],
    }
}

/// (stop arm, continue arm) of the given function; `wild_ok`: an arm `Signal(_)` covers both
fn extract(
    src: &syn::File,
    func: &str,
    clocks: &BTreeMap<&str, &str>,
) -> Result<(Vec<String>, Vec<String>), String> {
    let mut ff = FnFinder {
        want: func,
        found: None,
    };
    ff.visit_file(src);
    let f = ff.found.ok_or_else(|| format!("function {func} not found"))?;
    let mut ms = Vec::new();
    matches_in_tokens(f.block.to_token_stream(), &mut ms);
    let cx = Ctx { clocks };
    let (mut stop, mut cont) = (None, None);
    for m in &ms {
        for arm in &m.arms {
            let pat = norm(&arm.pat);
            let is_stop = pat.contains("SignalRequest::Stop");
            let is_cont = pat.contains("SignalRequest::Continue");
            let is_wild = pat == "RunUnitRequest::Signal(_)";
            if !(is_stop || is_cont || is_wild) {
                continue;
            }
            let body = cx
                .stmts(&arm_body(&arm.body))
                .map_err(|e| format!("{func}: arm `{pat}`: {e}"))?;
            if is_stop || is_wild {
                if stop.is_some() {
                    return Err(format!("{func}: two Stop arms"));
                }
                stop = Some(body.clone());
            }
            if is_cont || is_wild {
                if cont.is_some() {
                    return Err(format!("{func}: two Continue arms"));
                }
                cont = Some(body);
            }
        }
    }
    Ok((
        stop.ok_or_else(|| format!("{func}: no Stop arm found"))?,
        cont.ok_or_else(|| format!("{func}: no Continue arm found"))?,
    ))
}

fn main() {
    let repo = std::env::var("VERIF_REPO").unwrap_or_else(|_| "/repo".to_owned());
    let read = |p: &str| -> syn::File {
        let text = std::fs::read_to_string(format!("{repo}/{p}")).unwrap_or_else(|e| {
            eprintln!("cannot read {p}: {e}");
            std::process::exit(3)
        });
        syn::parse_file(&text).unwrap_or_else(|e| {
            eprintln!("cannot parse {p}: {e}");
            std::process::exit(3)
        })
    };
    let executor = read("nextest-runner/src/runner/executor.rs");
    let unix = read("nextest-runner/src/runner/unix.rs");
    let run_clocks: BTreeMap<&str, &str> =
        [("stopwatch", "KSw"), ("interval_sleep", "KInterval")].into();
    let term_clocks: BTreeMap<&str, &str> = [
        ("stopwatch", "KSw"),
        ("sleep", "KGrace"),
        ("waiting_stopwatch", "KWait"),
    ]
    .into();
    let delay_clocks: BTreeMap<&str, &str> =
        [("sleep", "KDelay"), ("waiting_stopwatch", "KDelayWait")].into();
    let leak_clocks: BTreeMap<&str, &str> = [("stopwatch", "KSw"), ("sleep", "KLeak")].into();
    let jobs = [
        ("run", &executor, "handle_signal_request", &run_clocks),
        ("term", &unix, "terminate_child", &term_clocks),
        ("delay", &executor, "handle_delay_between_attempts", &delay_clocks),
        ("leak", &executor, "detect_fd_leaks", &leak_clocks),
    ];
    let mut fields = Vec::new();
    for (name, file, func, clocks) in jobs {
        match extract(file, func, clocks) {
            Ok((stop, cont)) => {
                fields.push(format!("  t_{name}_stop := [{}]", stop.join("; ")));
                fields.push(format!("  t_{name}_cont := [{}]", cont.join("; ")));
            }
            Err(e) => {
                eprintln!("pause_table: {e}");
                std::process::exit(3);
            }
        }
    }
    println!("(* GENERATED by harness/src/bin/pause_table.rs from executor.rs and unix.rs -- do not edit *)");
    println!("From NextestModel Require Import Base.Str Model.Clocks Model.UnitTimers.");
    println!("Definition pause_table : ptable := {{|\n{}\n|}}.", fields.join(";\n"));
}
