//! Translator for DESIGN 11.7: regenerates `coq/gen/GenDecisions.v` from the Rust source.
//!
//! usage: `decisions <spec.json> [<manifest-out.json>]` (repository root from `VERIF_REPO`,
//! default `/repo`). The generated Gallina goes to stdout. Every request of the spec is translated
//! independently; a request that uses anything outside the supported subset is reported on stderr
//! as `decisions: ERROR <request>: <file>:<line>: <why>` and left out of the output, and the exit
//! status is then 3. Nothing is ever skipped silently or approximated: the only omissions are the
//! ones the spec asks for by name (`views`, `shape_only`, `ignore_macros`, `opaque_calls`) and `let`
//! bindings whose value is never used in a translated position; all of them are listed in the
//! header of the generated file.
//!
//! Supported subset: see `docs/notes/Gen.md`.
use proc_macro2::Span;
use quote::ToTokens;
use serde::Deserialize;
use std::collections::{BTreeMap, BTreeSet, HashMap};
use syn::spanned::Spanned;
use syn::{
    Arm, Attribute, BinOp, Block, Expr, Fields, FnArg, ImplItem, ImplItemConst, ImplItemFn, Item,
    ItemEnum, ItemFn, ItemStruct, Lit, Member, Meta, Pat, ReturnType, Signature, Stmt, Type, UnOp,
};

// ------------------------------------------------------------------------------------------ spec

#[derive(Deserialize)]
struct Spec {
    files: Vec<String>,
    /// struct name -> observers (`field`, `method()`, `field.method()`, `a.b`) that make up its view
    #[serde(default)]
    views: BTreeMap<String, Vec<String>>,
    /// enums whose untranslatable fields are dropped (shape only)
    #[serde(default)]
    shape_only: Vec<String>,
    /// statement macros without influence on a decision (logging)
    #[serde(default)]
    ignore_macros: Vec<String>,
    /// `Type::method` -> calls that become extra parameters of the requesting function
    #[serde(default)]
    opaque_calls: Vec<String>,
    /// enum -> the variants that are kept (the generated functions are the restrictions of the Rust
    /// functions to values built from these variants)
    #[serde(default)]
    enum_subset: BTreeMap<String, Vec<String>>,
    /// opaque calls without arguments whose value is one constant of the run (`get_num_cpus`): they may
    /// occur any number of times and are handed on by callers as the same input
    #[serde(default)]
    opaque_consts: Vec<String>,
    /// cargo features that are on (`cfg(feature = "x")` is false for every other x)
    #[serde(default)]
    cfg_features: Vec<String>,
    /// the error type of the crate's `Result<T>` alias
    #[serde(default)]
    result_error: Option<String>,
    /// `str` / `String` are Coq strings (only ASCII literals and `==` are in the subset)
    #[serde(default)]
    strings: bool,
    /// name of the generated Coq module (default `Gen`)
    #[serde(default)]
    module: Option<String>,
    /// types whose values are opaque tokens (rendered as N; no operation on them is in the subset: they can only
    /// be passed around, so a generated function is parametric in them)
    #[serde(default)]
    tokens: Vec<String>,
    /// types whose values are left out altogether (rendered as unit; an expression of such a type is not looked at)
    #[serde(default)]
    omit_types: Vec<String>,
    /// generic wrappers `f(v, ..)` that are translated as their first argument (`Source::track_override(v, o)` is `v`
    /// for the source-less instance; the source tracking is dropped)
    #[serde(default)]
    transparent_calls: Vec<String>,
    /// methods without influence on a decision (setters of display data): a statement made of calls of these on a
    /// local is dropped
    #[serde(default)]
    ignore_methods: Vec<String>,
    /// methods whose arguments are ignored when a call is read as an observer of a view (`req_tx.send(_)`)
    #[serde(default)]
    observer_calls: Vec<String>,
    /// Rust items (enums, impls) that stand in for types of external crates; parsed like a source file
    #[serde(default)]
    extern_items: Vec<String>,
    /// method calls whose value is an input of the function that contains them, identified by the text of the
    /// receiver (`recv`) or by the receiver's type (`recv_type`: the input is then a function of the receiver), the
    /// method name and the text of the arguments; see `Probe`
    #[serde(default)]
    probes: Vec<Probe>,
    requests: Vec<Request>,
}

/// `recv.method(args)` read as an input `p_<name>` (fourth round). Sites with the same receiver text, method and
/// argument text share the input (the same pure question asked again, or asked on exclusive paths); a site with the
/// same receiver and method but other arguments is an error. With `recv_type` the receiver is translated and the input
/// is a function of it (`p_<name> : RecvTy -> ty`), so that the call may stand inside a closure over a list.
#[derive(Deserialize, Clone)]
struct Probe {
    #[serde(default)]
    recv: Option<String>,
    #[serde(default)]
    recv_type: Option<String>,
    method: String,
    name: String,
    /// Rust type of the value
    ty: String,
    /// the functions (`Type::method` / `function`) inside which the probe applies
    #[serde(rename = "in")]
    in_fn: Vec<String>,
}

#[derive(Deserialize, Clone)]
struct Request {
    /// `Type::method`, `function`, or `Type`
    item: String,
    /// "fn" (default) | "rank" | "type" | "tail_match"
    #[serde(default)]
    kind: Option<String>,
    /// tail_match: name of the generated definition
    #[serde(default)]
    name: Option<String>,
    /// tail_match: free variables of the translated expression: rust expression text -> rust type
    #[serde(default)]
    params: Vec<(String, String)>,
    /// tail_match: the text the scrutinee of the wanted `match` starts with
    #[serde(default)]
    scrutinee: Option<String>,
    /// local_value: which expression: {"call": name, "arg": i [, "recv_contains": text]} |
    /// {"let": name} | {"field": [StructName, field]}
    #[serde(default)]
    of: Option<serde_json::Value>,
    /// local_value: the Rust type of the value (optional hint)
    #[serde(default)]
    ty: Option<String>,
    /// after_call / call_trace: the name of the call
    #[serde(default)]
    call: Option<String>,
    /// after_call: the arm of the function's final `match` to look in (text its pattern starts with)
    #[serde(default)]
    arm: Option<String>,
    /// loop_tail: the enum whose variants are the events a branch sends
    #[serde(default)]
    events: Option<String>,
    /// guard_prefix: the statement a guard ends the block with ("continue" | "return false")
    #[serde(default)]
    exit: Option<String>,
    /// guard_prefix: the guards are at the head of the body of the `for` loop over this pattern
    #[serde(default)]
    in_loop: Option<String>,
    /// call_trace: local names of the object whose method calls are recorded
    #[serde(default)]
    receivers: Vec<String>,
    /// call_trace: functions / methods whose body is followed when a receiver is handed to them
    #[serde(default)]
    inline: Vec<String>,
    /// local_value / effect_list / closure_value: where to look: a path of {"arm": pattern-prefix} | {"for": pattern} |
    /// {"closure_of": call-name} steps, each narrowing the search to the body of that arm / loop / closure
    #[serde(default)]
    scope: Vec<serde_json::Value>,
    /// local_value: only a hit that is (part of) a direct statement of the scoped block counts
    #[serde(default)]
    top: bool,
    /// `a - b` on unsigned integers is N.sub in this request (an underflow would panic: out of scope, like overflow)
    #[serde(default)]
    allow_sub: bool,
    /// captured counters whose updates (`x += 1` inside a closure) are dropped: they do not influence the value
    #[serde(default)]
    ignore_assign: Vec<String>,
    /// local_value: methods that modify a `let mut` the value depends on in place and are NOT translated (the value is
    /// the one before them: `sort_by_key` makes the queue a permutation of it); any other in-place modification or
    /// assignment of such a local is an error
    #[serde(default)]
    inplace: Vec<String>,
    /// loop_body: the mutable locals declared before the loop that the body updates: name -> Rust type
    #[serde(default)]
    state: Vec<(String, String)>,
    /// loop_step: the fragment starts after the last `let` of the loop body that binds this name
    #[serde(default)]
    after_let: Option<String>,
    /// call_trace: an `if` whose condition does not translate and whose branches make different calls becomes
    /// `if c<k> then .. else ..` for a boolean input `c<k>` of the generated definition (the lemma is then for both
    /// values); calls made inside a `for` loop are recorded once with the method name prefixed by `*`
    #[serde(default)]
    opaque_conditions: bool,
}

// ---------------------------------------------------------------------------------------- errors

#[derive(Debug, Clone)]
struct TErr {
    file: String,
    line: usize,
    msg: String,
    /// the pattern names a variant left out by `enum_subset` (the alternative / arm is dropped)
    excluded: bool,
}
type R<T> = Result<T, TErr>;

// ------------------------------------------------------------------------------------ cfg handling

/// Some(b): the predicate is decided for the configuration nextest is verified in (unix, not
/// test, hooks off); None: unknown predicate
fn cfg_eval(m: &Meta) -> Option<bool> {
    match m {
        Meta::Path(p) => match p.get_ident()?.to_string().as_str() {
            "unix" => Some(true),
            "windows" | "test" | "nextest_verif" => Some(false),
            _ => None,
        },
        Meta::List(l) => {
            let name = l.path.get_ident()?.to_string();
            let inner: Vec<Meta> = l
                .parse_args_with(syn::punctuated::Punctuated::<Meta, syn::Token![,]>::parse_terminated)
                .ok()?
                .into_iter()
                .collect();
            match name.as_str() {
                "not" => cfg_eval(inner.first()?).map(|b| !b),
                "all" => {
                    let mut r = Some(true);
                    for i in &inner {
                        match cfg_eval(i) {
                            Some(false) => return Some(false),
                            None => r = None,
                            _ => {}
                        }
                    }
                    r
                }
                "any" => {
                    let mut r = Some(false);
                    for i in &inner {
                        match cfg_eval(i) {
                            Some(true) => return Some(true),
                            None => r = None,
                            _ => {}
                        }
                    }
                    r
                }
                _ => None,
            }
        }
        Meta::NameValue(nv) => {
            let name = nv.path.get_ident()?.to_string();
            let val = nv.value.to_token_stream().to_string();
            if name == "feature" {
                let on = FEATURES.get().map(|f| f.iter().any(|x| format!("\"{x}\"") == val)).unwrap_or(false);
                return Some(on);
            }
            match (name.as_str(), val.as_str()) {
                ("target_family", "\"unix\"") => Some(true),
                ("target_family", "\"windows\"") => Some(false),
                ("target_os", "\"windows\"") => Some(false),
                _ => None,
            }
        }
    }
}

static FEATURES: std::sync::OnceLock<Vec<String>> = std::sync::OnceLock::new();

/// Some(true): configured in; Some(false): configured out; None: a predicate is not decided
fn cfg_state(attrs: &[Attribute]) -> Option<bool> {
    let mut r = Some(true);
    for a in attrs {
        if a.path().is_ident("cfg") {
            let v = match &a.meta {
                Meta::List(l) => l.parse_args::<Meta>().ok().and_then(|m| cfg_eval(&m)),
                _ => None,
            };
            match v {
                Some(false) => return Some(false),
                None => r = None,
                Some(true) => {}
            }
        }
    }
    r
}

/// true: keep; false: configured out (an unknown predicate configures the item out of the index and
/// is reported when the item is asked for)
fn cfg_keep(attrs: &[Attribute]) -> bool {
    for a in attrs {
        if a.path().is_ident("cfg") {
            if let Meta::List(l) = &a.meta {
                if let Ok(m) = l.parse_args::<Meta>() {
                    if cfg_eval(&m) != Some(true) {
                        return false;
                    }
                } else {
                    return false;
                }
            }
        }
    }
    true
}

fn derives(attrs: &[Attribute]) -> BTreeSet<String> {
    let mut out = BTreeSet::new();
    for a in attrs {
        if a.path().is_ident("derive") {
            if let Meta::List(l) = &a.meta {
                for t in l.tokens.clone() {
                    if let proc_macro2::TokenTree::Ident(i) = t {
                        out.insert(i.to_string());
                    }
                }
            }
        }
    }
    out
}

// -------------------------------------------------------------------------------------- universe

struct At<T> {
    file: usize,
    item: T,
}

#[derive(Default)]
struct Universe {
    files: Vec<String>,
    enums: HashMap<String, Vec<At<ItemEnum>>>,
    structs: HashMap<String, Vec<At<ItemStruct>>>,
    methods: HashMap<(String, String), Vec<At<ImplItemFn>>>,
    consts: HashMap<(String, String), Vec<At<ImplItemConst>>>,
    fns: HashMap<String, Vec<At<ItemFn>>>,
}

fn type_last_ident(t: &Type) -> Option<String> {
    match t {
        Type::Path(p) => p.path.segments.last().map(|s| s.ident.to_string()),
        Type::Reference(r) => type_last_ident(&r.elem),
        Type::Paren(p) => type_last_ident(&p.elem),
        Type::Group(g) => type_last_ident(&g.elem),
        _ => None,
    }
}

impl Universe {
    fn add_items(&mut self, file: usize, items: &[Item]) {
        for it in items {
            match it {
                Item::Enum(e) if cfg_keep(&e.attrs) => {
                    self.enums.entry(e.ident.to_string()).or_default().push(At { file, item: e.clone() })
                }
                Item::Struct(s) if cfg_keep(&s.attrs) => {
                    self.structs.entry(s.ident.to_string()).or_default().push(At { file, item: s.clone() })
                }
                Item::Fn(f) if cfg_keep(&f.attrs) => {
                    self.fns.entry(f.sig.ident.to_string()).or_default().push(At { file, item: f.clone() })
                }
                Item::Mod(m) if cfg_keep(&m.attrs) => {
                    if let Some((_, items)) = &m.content {
                        self.add_items(file, items);
                    }
                }
                Item::Impl(i) if cfg_keep(&i.attrs) && i.trait_.is_none() => {
                    if let Some(ty) = type_last_ident(&i.self_ty) {
                        for ii in &i.items {
                            match ii {
                                ImplItem::Fn(f) if cfg_keep(&f.attrs) => self
                                    .methods
                                    .entry((ty.clone(), f.sig.ident.to_string()))
                                    .or_default()
                                    .push(At { file, item: f.clone() }),
                                ImplItem::Const(c) if cfg_keep(&c.attrs) => self
                                    .consts
                                    .entry((ty.clone(), c.ident.to_string()))
                                    .or_default()
                                    .push(At { file, item: c.clone() }),
                                _ => {}
                            }
                        }
                    }
                }
                _ => {}
            }
        }
    }
}

fn one<'a, T>(v: Option<&'a Vec<At<T>>>, what: &str) -> Result<&'a At<T>, String> {
    match v {
        None => Err(format!("{what} not found in the listed source files (or configured out)")),
        Some(v) if v.len() == 1 => Ok(&v[0]),
        Some(v) => Err(format!("{what} is declared {} times in the listed source files", v.len())),
    }
}

// ------------------------------------------------------------------------------- Gallina terms

#[derive(Clone, Debug)]
enum G {
    Raw(String),
    App(Vec<G>),
    If(Box<G>, Box<G>, Box<G>),
    Match(Box<G>, Vec<(String, G)>),
    Let(String, Box<G>, Box<G>),
}

fn raw(s: impl Into<String>) -> G {
    G::Raw(s.into())
}
fn app(f: &str, args: Vec<G>) -> G {
    let mut v = vec![raw(f)];
    v.extend(args);
    G::App(v)
}

impl G {
    fn is_atom(&self) -> bool {
        match self {
            G::Raw(s) => {
                !s.contains(' ') || (s.starts_with('(') && s.ends_with(')') && balanced_outer(s))
            }
            G::App(v) => v.len() == 1 && v[0].is_atom(),
            _ => false,
        }
    }
    fn atom(&self, ind: usize) -> String {
        if self.is_atom() {
            self.render(ind)
        } else {
            format!("({})", self.render(ind + 1))
        }
    }
    fn render(&self, ind: usize) -> String {
        let pad = " ".repeat(ind);
        match self {
            G::Raw(s) => s.clone(),
            G::App(v) => v
                .iter()
                .enumerate()
                .map(|(i, g)| if i == 0 && v.len() == 1 { g.render(ind) } else { g.atom(ind) })
                .collect::<Vec<_>>()
                .join(" "),
            G::If(c, a, b) => {
                let one = format!("if {} then {} else {}", c.render(ind), a.render(ind), b.render(ind));
                if !one.contains('\n') && one.len() + ind <= 100 {
                    return one;
                }
                let else_part = match &**b {
                    G::If(..) => format!("{pad}else {}", b.render(ind)),
                    _ => format!("{pad}else\n{pad}  {}", b.render(ind + 2)),
                };
                format!("if {} then\n{pad}  {}\n{}", c.render(ind + 3), a.render(ind + 2), else_part)
            }
            G::Match(s, arms) => {
                let mut out = format!("match {} with", s.render(ind + 6));
                for (p, b) in arms {
                    let body = b.render(ind + 4);
                    if body.contains('\n') || body.len() + p.len() + ind > 96 {
                        out += &format!("\n{pad}| {p} =>\n{pad}    {body}");
                    } else {
                        out += &format!("\n{pad}| {p} => {body}");
                    }
                }
                out += &format!("\n{pad}end");
                out
            }
            G::Let(x, e, b) => {
                format!("let {x} := {} in\n{pad}{}", e.render(ind + 2), b.render(ind))
            }
        }
    }
}

fn balanced_outer(s: &str) -> bool {
    // the first '(' closes at the last character
    let mut d = 0i32;
    for (i, c) in s.char_indices() {
        if c == '(' {
            d += 1;
        } else if c == ')' {
            d -= 1;
            if d == 0 && i != s.len() - 1 {
                return false;
            }
        }
    }
    d == 0
}

// ----------------------------------------------------------------------------------------- types

#[derive(Clone, Debug, PartialEq)]
enum Ty {
    N,
    Z,
    Bool,
    Unit,
    Never,
    /// std::time::Duration, as N nanoseconds; only `is_zero` is supported on it
    Duration,
    Enum(String),
    Struct(String),
    Option(Box<Ty>),
    Tuple(Vec<Ty>),
    Result(Box<Ty>, Box<Ty>),
    /// slices, vectors, iterators, maps (as lists of pairs)
    List(Box<Ty>),
    /// an opaque token (spec `tokens`): N, no operations
    Token(String),
    /// a value that is left out (spec `omit_types`): unit
    Omitted,
    /// string literals
    Str,
    /// an input that is a function (probes by receiver type)
    Fun(Box<Ty>, Box<Ty>),
}

impl Ty {
    fn coq(&self) -> String {
        match self {
            Ty::N | Ty::Duration => "N".into(),
            Ty::Z => "Z".into(),
            Ty::Bool => "bool".into(),
            Ty::Unit | Ty::Never => "unit".into(),
            Ty::Enum(n) | Ty::Struct(n) => n.clone(),
            Ty::Option(t) => format!("(option {})", t.coq()),
            Ty::Tuple(ts) => format!("({})", ts.iter().map(|t| t.coq()).collect::<Vec<_>>().join(" * ")),
            Ty::Result(a, b) => format!("(sum {} {})", a.coq(), b.coq()),
            Ty::List(t) => format!("(list {})", t.coq()),
            Ty::Token(_) => "N".into(),
            Ty::Omitted => "unit".into(),
            Ty::Str => "string".into(),
            Ty::Fun(a, b) => format!("({} -> {})", a.coq(), b.coq()),
        }
    }
}

#[derive(Clone, Debug)]
struct FieldInfo {
    name: Option<String>,
    /// None: dropped (enum listed under shape_only, field type outside the subset)
    ty: Option<Ty>,
}
#[derive(Clone, Debug)]
struct VarInfo {
    name: String,
    fields: Vec<FieldInfo>,
}
#[derive(Clone, Debug)]
struct EnumInfo {
    variants: Vec<VarInfo>,
    derives: BTreeSet<String>,
    /// variants of the Rust enum left out by `enum_subset`
    excluded: Vec<String>,
}
#[derive(Clone, Debug)]
struct RecInfo {
    /// (observer path as written in Rust, Coq projection, type)
    fields: Vec<(String, String, Ty)>,
    view: bool,
}
#[derive(Clone, Debug)]
enum TypeInfo {
    Enum(EnumInfo),
    Rec(RecInfo),
}

#[derive(Clone, Debug)]
struct FnInfo {
    coq: String,
    has_self: bool,
    mutating: bool,
    params: Vec<Ty>,
    ret: Ty,
    /// the function has inputs that are not Rust parameters (opaque calls) or parameters that are
    /// not translated
    partial: bool,
    /// some Rust parameter is not translated: the function cannot be called from another
    /// translated function
    untranslated: bool,
    /// opaque inputs (callee key, parameter name, type) in the order of the extra parameters; a
    /// caller hands them on as inputs of its own
    opaque: Vec<(String, String, Ty)>,
}

#[derive(Clone, Debug)]
struct Bind {
    rust: String,
    coq: String,
    ty: Ty,
    /// Some(why): the binding could not be translated; using it is an error
    poisoned: Option<String>,
}

#[derive(Clone, Debug, Default)]
struct Env {
    binds: Vec<Bind>,
    /// enums whose variants were glob-imported (`use E::*;`)
    globs: Vec<String>,
    self_ty: Option<String>,
    mutating: bool,
    /// a `let mut x = <record>` that is threaded like `self` in a `&mut self` method: (rust name,
    /// struct name)
    local_state: Option<(String, String)>,
    ret: Option<Ty>,
    /// mutable locals that are threaded through the statements: (rust name, coq name, type)
    vars: Vec<(String, String, Ty)>,
    /// the block is the body of a loop translated on its own: `continue` ends it with the current state
    loop_body: bool,
    /// events sent on the path so far (closure_value requests): variant names of the request's `events` enum
    events: Vec<String>,
    /// Some(enum): `x.send(Enum::Variant ..)` statements are recorded as events
    events_enum: Option<String>,
    allow_sub: bool,
    ignore_assign: Vec<String>,
}

impl Env {
    fn with(&self, b: Bind) -> Env {
        let mut e = self.clone();
        e.binds.push(b);
        e
    }
    fn lookup(&self, name: &str) -> Option<&Bind> {
        self.binds.iter().rev().find(|b| b.rust == name)
    }
}

const COQ_KEYWORDS: &[&str] = &[];

fn local_name(rust: &str) -> String {
    let _ = COQ_KEYWORDS;
    if rust == "self" {
        "self".into()
    } else {
        format!("v_{}", rust.trim_start_matches("r#"))
    }
}

struct Emitted {
    coq: String,
    text: String,
    /// `file:line item hash` for the header; empty for derived helpers
    origin: String,
}

#[derive(Clone)]
enum K<'a> {
    /// the value of the block is the result (expected type if known)
    Value(Option<Ty>),
    /// unit block of a `&mut self` method: the result is the current `self`
    State,
    /// continue with these statements in this environment
    Then(&'a [Stmt], Env, &'a K<'a>),
    /// the result is the current value of these threaded locals (a tuple; one local: itself)
    Vars(Vec<String>),
    /// `let <pat> = <branching expression with a `return` inside>; <rest>`: every leaf of the expression that is a value
    /// is bound to the pattern (in the environment of the `let`) and the rest of the block follows; a leaf that
    /// returns leaves the function
    Bind(&'a Pat, Env, Option<Ty>, &'a [Stmt], &'a K<'a>),
}

include!("../decisions/types.rs");
include!("../decisions/expr.rs");
include!("../decisions/stmt.rs");
include!("../decisions/driver.rs");
include!("../decisions/scoped.rs");
