//! C15: stands in for the `cargo-nextest` binary in its hidden `__double-spawn` role, and for a
//! test binary that reports how it was started.
//!
//! * `c15_launcher __double-spawn -- <program> <joined args>`: exactly what cargo-nextest's
//!   `main` does -- the real clap parser (`CargoNextestApp`) and the real
//!   `DoubleSpawnOpts::exec` (unblock SIGTSTP, `shell_words::split`, `exec`).
//! * anything else: print one JSON line with argv, cwd, pid, pgid, the target of fd 0 and the
//!   environment, then exit 0.
use cargo_nextest::{CargoNextestApp, OutputWriter};
use clap::Parser;
use serde_json::json;

fn main() {
    let args: Vec<String> = std::env::args_os()
        .map(|a| a.to_string_lossy().into_owned())
        .collect();
    if args.get(1).map(String::as_str) == Some("__double-spawn") {
        // cargo-nextest/src/main.rs, minus color-eyre / ANSI setup
        let cli_args = args.clone();
        let opts = CargoNextestApp::parse();
        let output = opts.init_output();
        match opts.exec(cli_args, output, &mut OutputWriter::default()) {
            Ok(code) => std::process::exit(code),
            Err(error) => {
                error.display_to_stderr(&output.stderr_styles());
                std::process::exit(error.process_exit_code())
            }
        }
    }
    let stat = std::fs::read_to_string("/proc/self/stat").unwrap_or_default();
    // pid (comm) state ppid pgrp ...; comm may contain spaces, so cut after the last ')'
    let after = stat.rsplit_once(')').map(|x| x.1).unwrap_or("");
    let fields: Vec<&str> = after.split_whitespace().collect();
    let env: Vec<(String, String)> = std::env::vars_os()
        .map(|(k, v)| {
            (
                k.to_string_lossy().into_owned(),
                v.to_string_lossy().into_owned(),
            )
        })
        .collect();
    println!(
        "{}",
        json!({
            "argv": args,
            "cwd": std::env::current_dir().ok().map(|p| p.to_string_lossy().into_owned()),
            "pid": std::process::id(),
            "ppid": fields.get(1).and_then(|s| s.parse::<i64>().ok()),
            "pgid": fields.get(2).and_then(|s| s.parse::<i64>().ok()),
            "stdin": std::fs::read_link("/proc/self/fd/0").ok().map(|p| p.to_string_lossy().into_owned()),
            "env": env,
        })
    );
}
