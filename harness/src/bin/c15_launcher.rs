//! C15: one binary in three roles, so that a real nextest run can be observed from inside the
//! harness through nextest's public API only.
//!
//! * `c15_launcher run-tests <scenario.json>` -- the *runner*: builds a real `TestList` (which
//!   spawns this binary with `--list --format terse [--ignored]`) and runs it with the real
//!   `TestRunner` (real executor: spawn, process group, stdin, NEXTEST_RUN_ID, slots, retries,
//!   setup scripts).  With double-spawn enabled nextest spawns `/proc/self/exe`, i.e. this
//!   binary, with the hidden `__double-spawn` subcommand.
//! * `c15_launcher __double-spawn -- <program> <joined args>` -- the *launcher*: exactly what
//!   cargo-nextest's `main` does -- the real clap parser (`CargoNextestApp`) and the real
//!   `DoubleSpawnOpts::exec` (unblock SIGTSTP, `shell_words::split`, `exec`).
//! * anything else -- the *test binary / setup script*: `--list` prints the scenario's test
//!   names in libtest's terse format; otherwise one JSON line with argv, cwd, pid, ppid, pgid,
//!   the target of fd 0 and the environment is printed and, if `C15_LOG` is set, appended to
//!   that file; a setup script (`--script ...`) writes the scenario's `script_env` to
//!   `$NEXTEST_ENV`; the exit code is 1 for a test listed in the scenario's `fail_first_attempt`
//!   while `__NEXTEST_ATTEMPT` is 1, else 0.
use camino::Utf8PathBuf;
use cargo_nextest::{CargoNextestApp, OutputWriter};
use clap::Parser;
use guppy::{graph::PackageGraph, PackageId};
use nextest_filtering::ParseContext;
use nextest_metadata::{BuildPlatform, RustBinaryId, RustTestBinaryKind};
use nextest_runner::{
    cargo_config::{CargoConfigs, EnvironmentMap},
    config::NextestConfig,
    double_spawn::DoubleSpawnInfo,
    input::InputHandlerKind,
    list::{RustBuildMeta, RustTestArtifact, TestExecuteContext, TestList},
    platform::BuildPlatforms,
    reporter::events::TestEventKind,
    reuse_build::PathMapper,
    runner::TestRunnerBuilder,
    signal::SignalHandlerKind,
    target_runner::TargetRunner,
    test_output::CaptureStrategy,
    test_filter::{FilterBound, RunIgnored, TestFilterBuilder, TestFilterPatterns},
};
use serde_json::{json, Value};
use std::{collections::BTreeSet, io::Write};

fn main() {
    let args: Vec<String> = std::env::args_os()
        .map(|a| a.to_string_lossy().into_owned())
        .collect();
    match args.get(1).map(String::as_str) {
        Some("__double-spawn") => launcher(args),
        Some("run-tests") => run_tests(&args[2]),
        _ => test_binary(args),
    }
}

/// cargo-nextest/src/main.rs, minus color-eyre / ANSI setup
fn launcher(cli_args: Vec<String>) -> ! {
    let opts = CargoNextestApp::parse();
    let output = opts.init_output();
    match opts.exec(cli_args, output, &mut OutputWriter::default()) {
        Ok(code) => std::process::exit(code),
        Err(error) => {
            error.display_to_stderr(&output.stderr_styles());
            std::process::exit(error.process_exit_code())
        }
    }
}

fn scenario() -> Option<Value> {
    let path = std::env::var_os("C15_SCENARIO")?;
    serde_json::from_str(&std::fs::read_to_string(path).ok()?).ok()
}

fn test_binary(args: Vec<String>) -> ! {
    let sc = scenario();
    if args.iter().any(|a| a == "--list") {
        // libtest: without --ignored all tests are listed, with it only the ignored ones
        let only_ignored = args.iter().any(|a| a == "--ignored");
        let mut out = String::new();
        if let Some(tests) = sc.as_ref().and_then(|s| s["tests"].as_array()) {
            for t in tests {
                if !only_ignored || t["ignored"].as_bool().unwrap_or(false) {
                    out.push_str(t["name"].as_str().unwrap());
                    out.push_str(": test\n");
                }
            }
        }
        print!("{out}");
        std::process::exit(0);
    }
    let stat = std::fs::read_to_string("/proc/self/stat").unwrap_or_default();
    // pid (comm) state ppid pgrp session ...; comm may contain spaces: cut after the last ')'
    let after = stat.rsplit_once(')').map(|x| x.1).unwrap_or("");
    let fields: Vec<&str> = after.split_whitespace().collect();
    let env: Vec<(String, String)> = std::env::vars_os()
        .map(|(k, v)| {
            (
                k.to_string_lossy().into_owned(),
                v.to_string_lossy().into_owned(),
            )
        })
        .collect();
    let line = format!(
        "{}\n",
        json!({
            "argv": args,
            "cwd": std::env::current_dir().ok().map(|p| p.to_string_lossy().into_owned()),
            "pid": std::process::id(),
            "ppid": fields.get(1).and_then(|s| s.parse::<i64>().ok()),
            "pgid": fields.get(2).and_then(|s| s.parse::<i64>().ok()),
            "sid": fields.get(3).and_then(|s| s.parse::<i64>().ok()),
            "stdin": std::fs::read_link("/proc/self/fd/0").ok().map(|p| p.to_string_lossy().into_owned()),
            "env": env,
        })
    );
    print!("{line}");
    if let Some(log) = std::env::var_os("C15_LOG") {
        // one write of the whole line on an O_APPEND descriptor
        if let Ok(mut f) = std::fs::OpenOptions::new().append(true).create(true).open(log) {
            let _ = f.write_all(line.as_bytes());
        }
    }
    // a setup script (argv[1] == "--script") writes the scenario's `script_env` pairs to $NEXTEST_ENV
    if args.get(1).map(String::as_str) == Some("--script") {
        if let (Some(sc), Some(path)) = (&sc, std::env::var_os("NEXTEST_ENV")) {
            let mut out = String::new();
            for p in sc["script_env"].as_array().map(|a| a.as_slice()).unwrap_or(&[]) {
                out.push_str(&format!("{}={}\n", p[0].as_str().unwrap(), p[1].as_str().unwrap()));
            }
            let _ = std::fs::write(path, out);
        }
    }
    let attempt = std::env::var("__NEXTEST_ATTEMPT").unwrap_or_default();
    let name = args
        .iter()
        .position(|a| a == "--exact")
        .and_then(|i| args.get(i + 1));
    let fail = match (&sc, name) {
        (Some(sc), Some(name)) => {
            attempt == "1"
                && sc["fail_first_attempt"]
                    .as_array()
                    .is_some_and(|a| a.iter().any(|n| n.as_str() == Some(name.as_str())))
        }
        _ => false,
    };
    std::process::exit(if fail { 1 } else { 0 });
}

fn strs(v: &Value) -> Vec<String> {
    v.as_array()
        .map(|a| a.iter().map(|x| x.as_str().unwrap().to_owned()).collect())
        .unwrap_or_default()
}

/// Runs the scenario with the real nextest runner and prints a JSON summary.
fn run_tests(path: &str) {
    let sc: Value = serde_json::from_str(&std::fs::read_to_string(path).expect("scenario file"))
        .expect("scenario json");
    let root = Utf8PathBuf::from(sc["root"].as_str().unwrap());
    let me = Utf8PathBuf::try_from(std::env::current_exe().expect("current exe")).expect("utf-8");

    let graph = PackageGraph::from_json(sc["metadata"].as_str().unwrap()).expect("package graph");
    let package_id = PackageId::new(sc["package_id"].as_str().unwrap());
    let package = graph.metadata(&package_id).expect("package in graph");

    let build_platforms = BuildPlatforms::new_with_no_target().expect("host platform");
    let config_cwd = root.join(sc["config_cwd"].as_str().unwrap_or(""));
    let configs =
        CargoConfigs::new_with_isolation(strs(&sc["cli_configs"]), &config_cwd, &root, Vec::new())
            .expect("cargo configs");
    let env = EnvironmentMap::new(&configs);
    let target_runner = TargetRunner::new(&configs, &build_platforms).expect("target runner");

    let pcx = ParseContext::new(&graph);
    let experimental: BTreeSet<_> =
        [nextest_runner::config::ConfigExperimental::SetupScripts].into_iter().collect();
    let config = NextestConfig::from_sources(root.clone(), &pcx, None, [], &experimental)
        .expect("nextest config");
    let profile = config
        .profile(sc["profile"].as_str().unwrap_or(NextestConfig::DEFAULT_PROFILE))
        .expect("profile")
        .apply_build_platforms(&build_platforms);

    let double_spawn = if sc["double_spawn"].as_bool().unwrap_or(false) {
        DoubleSpawnInfo::try_enable()
    } else {
        DoubleSpawnInfo::disabled()
    };
    let ctx = TestExecuteContext {
        profile_name: profile.name(),
        double_spawn: &double_spawn,
        target_runner: &target_runner,
    };
    let artifact = RustTestArtifact {
        binary_id: RustBinaryId::new("verif::c15"),
        package,
        binary_path: me.clone(),
        binary_name: "c15".to_owned(),
        kind: RustTestBinaryKind::new("lib".to_owned()),
        non_test_binaries: BTreeSet::new(),
        cwd: Utf8PathBuf::from(sc["cwd"].as_str().unwrap()),
        build_platform: BuildPlatform::Target,
    };
    let rbm = RustBuildMeta::new(root.join("target"), build_platforms.clone())
        .map_paths(&PathMapper::noop());
    let filter = TestFilterBuilder::new(
        RunIgnored::All,
        None,
        TestFilterPatterns::default(),
        Vec::new(),
    )
    .expect("filter");
    let test_list = TestList::new(
        &ctx,
        vec![artifact],
        rbm,
        &filter,
        root.clone(),
        env,
        &profile.filterset_ecx(),
        FilterBound::All,
        2,
    )
    .expect("test list");
    let listed: Vec<Value> = test_list
        .iter_tests()
        .map(|t| json!([t.name, t.test_info.ignored]))
        .collect();

    let mut builder = TestRunnerBuilder::default();
    if sc["no_capture"].as_bool().unwrap_or(false) {
        // --no-capture: the tests inherit stdout/stderr (and must still get the null device as stdin)
        builder.set_capture_strategy(CaptureStrategy::None);
    }
    let runner = builder
        .build(
            &test_list,
            &profile,
            vec![],
            SignalHandlerKind::Noop,
            InputHandlerKind::Noop,
            double_spawn.clone(),
            target_runner.clone(),
        )
        .expect("runner");
    let mut run_id = String::new();
    let mut finished: Vec<Value> = Vec::new();
    let mut scripts: Vec<Value> = Vec::new();
    let stats = runner.execute(|event| match event.kind {
        TestEventKind::RunStarted { run_id: id, .. } => run_id = id.to_string(),
        TestEventKind::TestFinished {
            test_instance,
            run_statuses,
            ..
        } => finished.push(json!({
            "name": test_instance.name,
            "attempts": run_statuses.len(),
            "success": run_statuses.last_status().result.is_success(),
        })),
        TestEventKind::SetupScriptFinished { run_status, .. } => {
            scripts.push(json!({ "success": run_status.result.is_success() }))
        }
        _ => {}
    });
    println!(
        "{}",
        json!({
            "runner_pid": std::process::id(),
            "double_spawn_active": double_spawn.current_exe().is_some(),
            "run_id": run_id,
            "listed": listed,
            "finished": finished,
            "scripts": scripts,
            "stats": format!("{stats:?}"),
        })
    );
}
