//! Translator for the request arms of every wait loop of a unit (DESIGN 11.2e): regenerates
//! `coq/gen/GenArmTable.v` from `nextest-runner/src/runner/{executor,unix}.rs`.
//!
//! For each wait loop (running loop of `run_test_inner` and of `run_setup_script_inner`,
//! `terminate_child`'s grace loop, `detect_fd_leaks`' drain loop, `handle_delay_between_attempts`)
//! it finds the `match` over `RunUnitRequest` and, for each kind of request (Stop, Continue,
//! Shutdown(_), OtherCancel, GetInfo), evaluates the arm that a request of that kind selects
//! symbolically: the request is a constructor tree, patterns are matched against it (bindings,
//! or-patterns, wildcards, nested `match`es on the bound parts), calls of functions defined in the
//! two files are inlined (`handle_signal_request`, `job_control_child`, helpers), and every
//! statement with an effect becomes an abstract action: timer pause / resume with their guards,
//! the acknowledgement of a Stop, `libc::kill(-pid, sig)` (group) or `libc::kill(pid, sig)` /
//! `child.start_kill()` (leader only), a call of `terminate_child` with its reason, `break` with
//! its value, the response to an information request with the state it reports. Also translated:
//! the statements of `terminate_child` before its loop (once per termination reason: which
//! function computes the method, which target gets the signal, when it returns at once, which
//! clocks it creates) and the arm taken when the grace-period sleep completes.
//!
//! Anything the evaluator does not know -- a statement, a method, a function, a macro, a pattern
//! that looks inside a value it treats as opaque, an assignment -- is an error for that arm: the
//! arm is emitted as `[AUntranslated]` (which has no interpretation, so the bridge lemma for that
//! loop and request fails), the message goes to stderr, and the exit status is 3. Nothing is ever
//! skipped silently. Code under `cfg(windows)`, `cfg(not(unix))` and `cfg(test)` is not part of
//! the Unix build and is left out.
use proc_macro2::{Delimiter, TokenStream, TokenTree};
use quote::ToTokens;
use std::collections::{BTreeMap, HashMap};
use syn::{Attribute, Block, Expr, ExprMatch, FnArg, ImplItem, Item, Pat, Signature, Stmt};

// ---------------------------------------------------------------------------- symbolic values

#[derive(Clone, Copy, Debug, PartialEq, Eq)]
enum Mfn {
    Timeout,
    Shutdown,
}

#[derive(Clone, Debug, PartialEq, Eq)]
enum SigX {
    Fixed(String),
    Method(Mfn),
}

#[derive(Clone, Copy, Debug, PartialEq, Eq)]
enum Snd {
    Ack,
    Info,
}

#[derive(Clone, Debug, PartialEq, Eq)]
enum Val {
    /// pure data the translation does not depend on
    Opaque,
    Unit,
    Bool(bool),
    /// enum / tuple-struct value; the name is the last two path segments
    Ctor(String, Vec<Val>),
    Sender(Snd),
    /// the payload of the shutdown request being handled
    Payload,
    Clock(String),
    NewSleep,
    NewStopwatch,
    IsPaused(String),
    Child,
    /// `child.id()`
    PidOpt,
    /// the child's pid; `true` = negated
    Pid(bool),
    Sig(SigX),
    /// the grace period
    Grace,
    /// the UnitTerminateMethod computed by that function
    Method(Mfn),
    /// the UnitTerminateSignal inside it
    TermSignal(Mfn),
    /// `term_signal == UnitTerminateSignal::Kill`
    IsKill(Mfn),
    UnitState(String),
    Info(String),
    Tuple(Vec<Val>),
}

#[derive(Clone, Debug, PartialEq, Eq)]
enum Act {
    Pause(String),
    Resume(String),
    Ack,
    Kill(bool, SigX), // true = process group
    Info(String),
    Terminate(&'static str),
    Break(String),
    Return(&'static str),
    NewSleep(String),
    NewStopwatch(String),
    IfPaused(String, Vec<Act>),
    IfNotPaused(String, Vec<Act>),
    IfChild(Vec<Act>),
    IfNoChild(Vec<Act>),
    IfMethodKill(Mfn, Vec<Act>),
    Untranslated,
}

fn mfn_coq(m: Mfn) -> &'static str {
    match m {
        Mfn::Timeout => "MTimeoutFn",
        Mfn::Shutdown => "MShutdownFn",
    }
}

fn acts_coq(acts: &[Act]) -> String {
    let items: Vec<String> = acts.iter().map(act_coq).collect();
    format!("[{}]", items.join("; "))
}

fn act_coq(a: &Act) -> String {
    match a {
        Act::Pause(k) => format!("APause {k}"),
        Act::Resume(k) => format!("AResume {k}"),
        Act::Ack => "AAck".into(),
        Act::Kill(group, s) => format!(
            "AKill {} {}",
            if *group { "TGroup" } else { "TLeader" },
            match s {
                SigX::Fixed(s) => format!("(SX {s})"),
                SigX::Method(m) => format!("(SXMethod {})", mfn_coq(*m)),
            }
        ),
        Act::Info(t) => format!("AInfo {t}"),
        Act::Terminate(r) => format!("ATerminate {r}"),
        Act::Break(b) => format!("ABreak {b}"),
        Act::Return(r) => format!("AReturn {r}"),
        Act::NewSleep(k) => format!("ANewSleep {k}"),
        Act::NewStopwatch(k) => format!("ANewStopwatch {k}"),
        Act::IfPaused(k, b) => format!("AIfPaused {k} {}", acts_coq(b)),
        Act::IfNotPaused(k, b) => format!("AIfNotPaused {k} {}", acts_coq(b)),
        Act::IfChild(b) => format!("AIfChild {}", acts_coq(b)),
        Act::IfNoChild(b) => format!("AIfNoChild {}", acts_coq(b)),
        Act::IfMethodKill(m, b) => format!("AIfMethodKill {} {}", mfn_coq(*m), acts_coq(b)),
        Act::Untranslated => "AUntranslated".into(),
    }
}

// ---------------------------------------------------------------------------- helpers over syn

fn norm(ts: impl ToTokens) -> String {
    let s = ts.to_token_stream().to_string().replace(' ', "");
    if s.len() > 160 {
        format!("{}...", &s[..160])
    } else {
        s
    }
}

/// last two segments of a path, `A::B`
fn path_name(p: &syn::Path) -> String {
    let segs: Vec<String> = p.segments.iter().map(|s| s.ident.to_string()).collect();
    let n = segs.len();
    if n >= 2 {
        format!("{}::{}", segs[n - 2], segs[n - 1])
    } else {
        segs.join("::")
    }
}

fn last_seg(name: &str) -> &str {
    name.rsplit("::").next().unwrap_or(name)
}

/// constructor names agree: the variant, and the type when both sides name it
fn ctor_eq(a: &str, b: &str) -> bool {
    let (pa, pb): (Vec<&str>, Vec<&str>) = (a.split("::").collect(), b.split("::").collect());
    if pa.last() != pb.last() {
        return false;
    }
    if pa.len() >= 2 && pb.len() >= 2 {
        return pa[pa.len() - 2] == pb[pb.len() - 2];
    }
    true
}

/// Ok(true): part of the Unix build; Ok(false): compiled out
fn cfg_keep(attrs: &[Attribute]) -> Result<bool, String> {
    for a in attrs {
        let p = a.path();
        if p.is_ident("cfg") {
            let arg = norm(&a.meta);
            match arg.as_str() {
                "cfg(unix)" | "cfg(not(windows))" => {}
                "cfg(windows)" | "cfg(not(unix))" | "cfg(test)" => return Ok(false),
                other => return Err(format!("attribute `{other}` is not understood")),
            }
        } else if p.is_ident("cfg_attr")
            || p.is_ident("allow")
            || p.is_ident("expect")
            || p.is_ident("doc")
            || p.is_ident("warn")
            || p.is_ident("inline")
            || p.is_ident("instrument")
            || p.is_ident("must_use")
        {
        } else {
            return Err(format!("attribute `{}` is not understood", norm(a)));
        }
    }
    Ok(true)
}

fn expr_attrs(e: &Expr) -> &[Attribute] {
    match e {
        Expr::Block(x) => &x.attrs,
        Expr::Match(x) => &x.attrs,
        Expr::If(x) => &x.attrs,
        Expr::Call(x) => &x.attrs,
        Expr::MethodCall(x) => &x.attrs,
        Expr::Unsafe(x) => &x.attrs,
        Expr::Macro(x) => &x.attrs,
        Expr::Assign(x) => &x.attrs,
        Expr::Await(x) => &x.attrs,
        Expr::Let(x) => &x.attrs,
        Expr::Loop(x) => &x.attrs,
        Expr::Break(x) => &x.attrs,
        Expr::Return(x) => &x.attrs,
        Expr::Path(x) => &x.attrs,
        Expr::Paren(x) => &x.attrs,
        Expr::Reference(x) => &x.attrs,
        Expr::Struct(x) => &x.attrs,
        Expr::Tuple(x) => &x.attrs,
        Expr::Unary(x) => &x.attrs,
        Expr::Binary(x) => &x.attrs,
        Expr::Cast(x) => &x.attrs,
        Expr::Field(x) => &x.attrs,
        Expr::Lit(x) => &x.attrs,
        _ => &[],
    }
}

#[derive(Clone)]
struct FnDef {
    sig: Signature,
    block: Block,
    method: bool,
}

/// functions of a file: free functions and the methods of its impl blocks (modules, among them
/// the `verif_*` hook modules and test modules, are not searched)
fn collect_fns(file: &syn::File, out: &mut HashMap<String, Vec<FnDef>>) {
    for it in &file.items {
        match it {
            Item::Fn(f) => {
                if cfg_keep(&f.attrs).unwrap_or(true) {
                    out.entry(f.sig.ident.to_string()).or_default().push(FnDef {
                        sig: f.sig.clone(),
                        block: (*f.block).clone(),
                        method: false,
                    });
                }
            }
            Item::Impl(im) => {
                for ii in &im.items {
                    if let ImplItem::Fn(f) = ii {
                        if cfg_keep(&f.attrs).unwrap_or(true) {
                            let method = matches!(f.sig.inputs.first(), Some(FnArg::Receiver(_)));
                            out.entry(f.sig.ident.to_string()).or_default().push(FnDef {
                                sig: f.sig.clone(),
                                block: f.block.clone(),
                                method,
                            });
                        }
                    }
                }
            }
            _ => {}
        }
    }
}

/// the `match` over `RunUnitRequest` with what surrounds it in the block it stands in
struct Found {
    m: ExprMatch,
    /// tokens of the enclosing block before / after the match
    before: TokenStream,
    after: TokenStream,
    /// what precedes the enclosing block in its parent (the header of the `select!` branch)
    header: String,
}

/// outermost `match` expressions of a token stream (macro bodies included) whose arm patterns
/// mention `RunUnitRequest`
fn request_matches(ts: TokenStream, header: &str, out: &mut Vec<Found>) {
    let toks: Vec<TokenTree> = ts.into_iter().collect();
    let mut i = 0;
    // start of the tokens that lead up to the next brace group (a select! branch header)
    let mut lead = 0;
    while i < toks.len() {
        if let TokenTree::Ident(id) = &toks[i] {
            if id == "match" {
                let mut j = i + 1;
                let mut piece = TokenStream::new();
                piece.extend([toks[i].clone()]);
                let mut closed = false;
                while j < toks.len() {
                    piece.extend([toks[j].clone()]);
                    if let TokenTree::Group(g) = &toks[j] {
                        if g.delimiter() == Delimiter::Brace {
                            closed = true;
                            break;
                        }
                    }
                    j += 1;
                }
                if closed {
                    if let Ok(m) = syn::parse2::<ExprMatch>(piece) {
                        if m.arms.iter().any(|a| norm(&a.pat).contains("RunUnitRequest")) {
                            out.push(Found {
                                m,
                                before: toks[..i].iter().cloned().collect(),
                                after: toks[j + 1..].iter().cloned().collect(),
                                header: header.to_owned(),
                            });
                            i = j + 1;
                            lead = i;
                            continue;
                        }
                    }
                }
            }
        }
        if let TokenTree::Group(g) = &toks[i] {
            let mut h: TokenStream = toks[lead..i].iter().cloned().collect();
            if let Some(TokenTree::Punct(p)) = toks.get(lead) {
                if p.as_char() == ',' {
                    h = toks[lead + 1..i].iter().cloned().collect();
                }
            }
            request_matches(g.stream(), &h.to_string().replace(' ', ""), out);
            if g.delimiter() == Delimiter::Brace {
                lead = i + 1;
            }
        }
        i += 1;
    }
}

/// `loop { .. }` bodies that contain the request match: each must consist of the `select!` alone
fn request_loops(ts: TokenStream, out: &mut Vec<TokenStream>) {
    let toks: Vec<TokenTree> = ts.into_iter().collect();
    for i in 0..toks.len() {
        if let TokenTree::Group(g) = &toks[i] {
            let is_loop = i > 0 && matches!(&toks[i - 1], TokenTree::Ident(x) if x == "loop");
            if is_loop && g.delimiter() == Delimiter::Brace && g.stream().to_string().contains("RunUnitRequest") {
                out.push(g.stream());
            } else {
                request_loops(g.stream(), out);
            }
        }
    }
}

/// the loop body is `tokio::select! { .. }` (optionally followed by `;`) and nothing else
fn only_select(body: TokenStream) -> bool {
    let toks: Vec<TokenTree> = body.into_iter().collect();
    let mut k = 0;
    while k < toks.len() && !matches!(&toks[k], TokenTree::Punct(p) if p.as_char() == '!') {
        match &toks[k] {
            TokenTree::Ident(_) => {}
            TokenTree::Punct(p) if p.as_char() == ':' => {}
            _ => return false,
        }
        k += 1;
    }
    if k == 0 || k + 1 >= toks.len() || !matches!(&toks[k - 1], TokenTree::Ident(x) if x == "select") {
        return false;
    }
    if !matches!(&toks[k + 1], TokenTree::Group(g) if g.delimiter() == Delimiter::Brace) {
        return false;
    }
    toks[k + 2..].iter().all(|t| matches!(t, TokenTree::Punct(p) if p.as_char() == ';'))
}

/// the handler blocks of `select!` branches of the form `_ = &mut <ident> => { .. }`
fn sleep_branches(ts: TokenStream, out: &mut Vec<(String, Block)>) {
    let toks: Vec<TokenTree> = ts.into_iter().collect();
    for i in 0..toks.len() {
        if let TokenTree::Group(g) = &toks[i] {
            sleep_branches(g.stream(), out);
        }
        if i + 5 < toks.len() {
            let is_p = |t: &TokenTree, c: char| matches!(t, TokenTree::Punct(p) if p.as_char() == c);
            let is_i = |t: &TokenTree, s: &str| matches!(t, TokenTree::Ident(x) if x == s);
            if is_p(&toks[i], '&') && is_i(&toks[i + 1], "mut") && is_p(&toks[i + 3], '=') && is_p(&toks[i + 4], '>') {
                if let (TokenTree::Ident(name), TokenTree::Group(g)) = (&toks[i + 2], &toks[i + 5]) {
                    if g.delimiter() == Delimiter::Brace {
                        if let Ok(b) = syn::parse2::<Block>(g.to_token_stream()) {
                            out.push((name.to_string(), b));
                        }
                    }
                }
            }
        }
    }
}

// ---------------------------------------------------------------------------- the evaluator

struct Scope<'a> {
    frames: Vec<HashMap<String, Val>>,
    /// which clock a `pausable_sleep(..)` / `stopwatch()` bound to that name is
    clock_names: &'a BTreeMap<&'a str, &'a str>,
}

impl Scope<'_> {
    fn get(&self, name: &str) -> Option<&Val> {
        self.frames.iter().rev().find_map(|f| f.get(name))
    }
    fn set(&mut self, name: &str, v: Val) {
        self.frames.last_mut().unwrap().insert(name.to_owned(), v);
    }
}

enum Flow {
    Value(Val),
    Diverged,
    EnterLoop,
}

struct Tr<'a> {
    fns: &'a HashMap<String, Vec<FnDef>>,
    inline_depth: usize,
    stop_at_loop: bool,
}

const PURE_METHODS: &[&str] = &[
    "snapshot", "snapshot_in_progress", "checked_sub", "saturating_sub", "unwrap_or_default", "unwrap_or",
    "kind", "packet", "waiting_on_message", "as_ref", "as_mut", "clone", "is_zero", "is_some", "is_none",
    "then_some", "expect", "elapsed", "as_deref", "copied", "cloned", "is_done", "to_owned", "as_secs", "as_millis",
];
const LOG_MACROS: &[&str] = &["debug", "trace", "info", "warn", "error", "debug_assert", "debug_assert_eq"];

fn signal_const(name: &str) -> Option<&'static str> {
    Some(match name {
        "SIGKILL" => "SigKill",
        "SIGTERM" => "SigTerm",
        "SIGINT" => "SigInt",
        "SIGHUP" => "SigHup",
        "SIGQUIT" => "SigQuit",
        "SIGTSTP" => "SigTstp",
        "SIGCONT" => "SigCont",
        _ => return None,
    })
}

fn unit_state_tag(variant: &str) -> Result<String, String> {
    Ok(match variant {
        "Running" => "IRunning",
        "Terminating" => "ITerminating",
        "Exiting" => "IExiting",
        "DelayBeforeNextAttempt" => "IDelay",
        other => return Err(format!("unknown unit state `UnitState::{other}` in an information response")),
    }
    .to_owned())
}

fn pat_idents(p: &Pat, out: &mut Vec<String>) {
    match p {
        Pat::Ident(i) => out.push(i.ident.to_string()),
        Pat::Tuple(t) => t.elems.iter().for_each(|e| pat_idents(e, out)),
        Pat::TupleStruct(t) => t.elems.iter().for_each(|e| pat_idents(e, out)),
        Pat::Struct(s) => s.fields.iter().for_each(|f| pat_idents(&f.pat, out)),
        Pat::Reference(r) => pat_idents(&r.pat, out),
        Pat::Paren(r) => pat_idents(&r.pat, out),
        Pat::Type(t) => pat_idents(&t.pat, out),
        _ => {}
    }
}

impl Tr<'_> {
    fn pmatch(&self, pat: &Pat, v: &Val, binds: &mut Vec<(String, Val)>) -> Result<bool, String> {
        match pat {
            Pat::Wild(_) => Ok(true),
            Pat::Ident(pi) if pi.subpat.is_none() => {
                binds.push((pi.ident.to_string(), v.clone()));
                Ok(true)
            }
            Pat::Paren(p) => self.pmatch(&p.pat, v, binds),
            Pat::Reference(p) => self.pmatch(&p.pat, v, binds),
            Pat::Type(p) => self.pmatch(&p.pat, v, binds),
            Pat::Or(o) => {
                for c in &o.cases {
                    let mut b = Vec::new();
                    if self.pmatch(c, v, &mut b)? {
                        binds.extend(b);
                        return Ok(true);
                    }
                }
                Ok(false)
            }
            Pat::TupleStruct(ts) => {
                let name = path_name(&ts.path);
                match v {
                    Val::Ctor(n, args) => {
                        if !ctor_eq(&name, n) {
                            return Ok(false);
                        }
                        if ts.elems.len() == 1 && matches!(ts.elems[0], Pat::Rest(_)) {
                            return Ok(true);
                        }
                        if ts.elems.len() != args.len() {
                            return Err(format!("pattern `{}` has the wrong number of fields", norm(pat)));
                        }
                        for (p, a) in ts.elems.iter().zip(args) {
                            if !self.pmatch(p, a, binds)? {
                                return Ok(false);
                            }
                        }
                        Ok(true)
                    }
                    Val::Method(m) if last_seg(&name) == "Signal" && ts.elems.len() == 1 => {
                        self.pmatch(&ts.elems[0], &Val::TermSignal(*m), binds)
                    }
                    _ => Err(format!(
                        "pattern `{}` looks inside a value the translator treats as opaque ({v:?})",
                        norm(pat)
                    )),
                }
            }
            Pat::Path(pp) => match v {
                Val::Ctor(n, args) => Ok(ctor_eq(&path_name(&pp.path), n) && args.is_empty()),
                _ => Err(format!(
                    "pattern `{}` looks inside a value the translator treats as opaque ({v:?})",
                    norm(pat)
                )),
            },
            Pat::Tuple(t) => match v {
                Val::Tuple(vs) if vs.len() == t.elems.len() => {
                    for (p, a) in t.elems.iter().zip(vs) {
                        if !self.pmatch(p, a, binds)? {
                            return Ok(false);
                        }
                    }
                    Ok(true)
                }
                Val::Opaque => {
                    let mut ids = Vec::new();
                    pat_idents(pat, &mut ids);
                    binds.extend(ids.into_iter().map(|i| (i, Val::Opaque)));
                    Ok(true)
                }
                _ => Err(format!("tuple pattern `{}` against {v:?}", norm(pat))),
            },
            other => Err(format!("untranslatable pattern `{}`", norm(other))),
        }
    }

    fn val(&mut self, e: &Expr, sc: &mut Scope, out: &mut Vec<Act>) -> Result<Val, String> {
        match self.eval(e, sc, out)? {
            Flow::Value(v) => Ok(v),
            _ => Err(format!("`{}` does not produce a value", norm(e))),
        }
    }

    fn block(&mut self, b: &Block, sc: &mut Scope, out: &mut Vec<Act>) -> Result<Flow, String> {
        sc.frames.push(HashMap::new());
        let r = self.stmts(&b.stmts, sc, out);
        sc.frames.pop();
        r
    }

    /// a branch of a conditional: its own action list
    fn branch(&mut self, b: &Block, binds: Vec<(String, Val)>, sc: &mut Scope) -> Result<Vec<Act>, String> {
        let mut acts = Vec::new();
        sc.frames.push(binds.into_iter().collect());
        let r = self.stmts(&b.stmts, sc, &mut acts);
        sc.frames.pop();
        match r? {
            Flow::EnterLoop => Err("a loop inside a conditional".into()),
            _ => Ok(acts),
        }
    }

    fn stmts(&mut self, stmts: &[Stmt], sc: &mut Scope, out: &mut Vec<Act>) -> Result<Flow, String> {
        let mut last = Val::Unit;
        for s in stmts {
            last = Val::Unit;
            match s {
                Stmt::Local(l) => {
                    if !cfg_keep(&l.attrs)? {
                        continue;
                    }
                    let init = l.init.as_ref().ok_or_else(|| format!("`{}`: let without a value", norm(s)))?;
                    let v = match self.eval(&init.expr, sc, out)? {
                        Flow::Value(v) => v,
                        f => return Ok(f),
                    };
                    if let Some((_, div)) = &init.diverge {
                        // let Some(pid) = child.id() else { return .. };
                        let inner = match (&l.pat, &v) {
                            (Pat::TupleStruct(ts), Val::PidOpt)
                                if last_seg(&path_name(&ts.path)) == "Some" && ts.elems.len() == 1 =>
                            {
                                &ts.elems[0]
                            }
                            _ => return Err(format!("untranslatable let-else `{}`", norm(s))),
                        };
                        let else_block = match &**div {
                            Expr::Block(b) => &b.block,
                            other => return Err(format!("untranslatable else `{}`", norm(other))),
                        };
                        let acts = self.branch(else_block, Vec::new(), sc)?;
                        out.push(Act::IfNoChild(acts));
                        let mut b = Vec::new();
                        self.pmatch(inner, &Val::Pid(false), &mut b)?;
                        for (n, v) in b {
                            sc.set(&n, v);
                        }
                        continue;
                    }
                    let mut pat = &l.pat;
                    while let Pat::Type(t) = pat {
                        pat = &t.pat;
                    }
                    match (&v, pat) {
                        (Val::NewSleep | Val::NewStopwatch, Pat::Ident(pi)) => {
                            let name = pi.ident.to_string();
                            let k = sc.clock_names.get(name.as_str()).ok_or_else(|| {
                                format!("`{}`: a clock is created under a name the translator does not know", norm(s))
                            })?;
                            out.push(if v == Val::NewSleep {
                                Act::NewSleep((*k).to_owned())
                            } else {
                                Act::NewStopwatch((*k).to_owned())
                            });
                            sc.set(&name, Val::Clock((*k).to_owned()));
                        }
                        (Val::NewSleep | Val::NewStopwatch, _) => {
                            return Err(format!("`{}`: a clock is created but not bound to a name", norm(s)))
                        }
                        _ => {
                            let mut b = Vec::new();
                            if !self.pmatch(pat, &v, &mut b)? {
                                return Err(format!("`{}`: the pattern does not match {v:?}", norm(s)));
                            }
                            for (n, v) in b {
                                sc.set(&n, v);
                            }
                        }
                    }
                }
                Stmt::Expr(e, _) => match self.eval(e, sc, out)? {
                    Flow::Value(v) => last = v,
                    f => return Ok(f),
                },
                Stmt::Macro(m) => {
                    if !cfg_keep(&m.attrs)? {
                        continue;
                    }
                    match self.mac(&m.mac, sc, out)? {
                        Flow::Value(v) => last = v,
                        f => return Ok(f),
                    }
                }
                Stmt::Item(_) => return Err(format!("untranslatable item `{}`", norm(s))),
            }
        }
        Ok(Flow::Value(last))
    }

    fn mac(&mut self, m: &syn::Macro, sc: &mut Scope, out: &mut Vec<Act>) -> Result<Flow, String> {
        let name = m.path.segments.last().map(|s| s.ident.to_string()).unwrap_or_default();
        if name == "pin" {
            let e: Expr = syn::parse2(m.tokens.clone()).map_err(|e| format!("pin!: {e}"))?;
            return self.eval(&e, sc, out);
        }
        if LOG_MACROS.contains(&name.as_str()) {
            return Ok(Flow::Value(Val::Unit));
        }
        if name == "matches" {
            return Ok(Flow::Value(Val::Opaque));
        }
        Err(format!("untranslatable macro `{}`", norm(m)))
    }

    fn inline(&mut self, name: &str, method: bool, recv: Option<Val>, args: Vec<Val>, out: &mut Vec<Act>) -> Result<Val, String> {
        let cands: Vec<&FnDef> = self
            .fns
            .get(name)
            .map(|v| v.iter().filter(|f| f.method == method).collect())
            .unwrap_or_default();
        if cands.is_empty() {
            return Err(format!(
                "unknown {} `{name}` (not defined in executor.rs / unix.rs, not a known primitive)",
                if method { "method" } else { "function" }
            ));
        }
        if cands.len() > 1 {
            return Err(format!("`{name}` has {} definitions: cannot tell which one is called", cands.len()));
        }
        if self.inline_depth >= 8 {
            return Err(format!("calls nested too deeply at `{name}`"));
        }
        let f = cands[0].clone();
        let empty: BTreeMap<&str, &str> = BTreeMap::new();
        let mut sc = Scope {
            frames: vec![HashMap::new()],
            clock_names: &empty,
        };
        let mut args = args.into_iter();
        for inp in &f.sig.inputs {
            match inp {
                FnArg::Receiver(_) => sc.set("self", recv.clone().unwrap_or(Val::Opaque)),
                FnArg::Typed(pt) => {
                    let v = args.next().ok_or_else(|| format!("`{name}` called with too few arguments"))?;
                    let mut b = Vec::new();
                    if !self.pmatch(&pt.pat, &v, &mut b)? {
                        return Err(format!("`{name}`: parameter pattern does not match"));
                    }
                    for (n, v) in b {
                        sc.set(&n, v);
                    }
                }
            }
        }
        if args.next().is_some() {
            return Err(format!("`{name}` called with too many arguments"));
        }
        self.inline_depth += 1;
        let saved = std::mem::replace(&mut self.stop_at_loop, false);
        let r = self.stmts(&f.block.stmts, &mut sc, out);
        self.stop_at_loop = saved;
        self.inline_depth -= 1;
        match r.map_err(|e| format!("in `{name}`: {e}"))? {
            Flow::Value(v) => Ok(v),
            _ => Err(format!("`{name}` does not return normally")),
        }
    }

    fn cond(&mut self, c: &Expr, sc: &mut Scope, out: &mut Vec<Act>) -> Result<(bool, Val), String> {
        match c {
            Expr::Paren(p) => self.cond(&p.expr, sc, out),
            Expr::Unary(u) if matches!(u.op, syn::UnOp::Not(_)) => {
                let (n, v) = self.cond(&u.expr, sc, out)?;
                Ok((!n, v))
            }
            other => Ok((false, self.val(other, sc, out)?)),
        }
    }

    fn eval(&mut self, e: &Expr, sc: &mut Scope, out: &mut Vec<Act>) -> Result<Flow, String> {
        if !cfg_keep(expr_attrs(e))? {
            return Ok(Flow::Value(Val::Unit));
        }
        let v = |x: Val| Ok(Flow::Value(x));
        match e {
            Expr::Block(b) => self.block(&b.block, sc, out),
            Expr::Unsafe(b) => self.block(&b.block, sc, out),
            Expr::Paren(p) => self.eval(&p.expr, sc, out),
            Expr::Group(p) => self.eval(&p.expr, sc, out),
            Expr::Reference(p) => self.eval(&p.expr, sc, out),
            Expr::Await(p) => self.eval(&p.base, sc, out),
            Expr::Cast(p) => self.eval(&p.expr, sc, out),
            Expr::Unary(u) => {
                let x = self.val(&u.expr, sc, out)?;
                match (&u.op, x) {
                    (syn::UnOp::Neg(_), Val::Pid(n)) => v(Val::Pid(!n)),
                    (syn::UnOp::Deref(_), x) => v(x),
                    (_, Val::Pid(_)) => Err(format!("`{}`: arithmetic on the pid", norm(e))),
                    _ => v(Val::Opaque),
                }
            }
            Expr::Path(p) => {
                if let Some(id) = p.path.get_ident() {
                    let name = id.to_string();
                    if let Some(x) = sc.get(&name) {
                        return v(x.clone());
                    }
                    if let Some(s) = signal_const(&name) {
                        return v(Val::Sig(SigX::Fixed(s.to_owned())));
                    }
                    return v(Val::Opaque);
                }
                let name = path_name(&p.path);
                let last = last_seg(&name);
                if let Some(s) = signal_const(last) {
                    return v(Val::Sig(SigX::Fixed(s.to_owned())));
                }
                if last.chars().next().is_some_and(|c| c.is_uppercase()) {
                    return v(Val::Ctor(name, Vec::new()));
                }
                v(Val::Opaque)
            }
            Expr::Field(f) => {
                let base = self.val(&f.base, sc, out)?;
                if matches!(base, Val::Pid(_) | Val::Child | Val::Clock(_) | Val::Sender(_)) {
                    return Err(format!("`{}`: field of a value the translator tracks", norm(e)));
                }
                match &f.member {
                    syn::Member::Named(n) if n == "grace_period" => v(Val::Grace),
                    _ => v(Val::Opaque),
                }
            }
            Expr::Lit(l) => match &l.lit {
                syn::Lit::Bool(b) => v(Val::Bool(b.value)),
                _ => v(Val::Opaque),
            },
            Expr::Tuple(t) => {
                if t.elems.is_empty() {
                    return v(Val::Unit);
                }
                let mut vs = Vec::new();
                for x in &t.elems {
                    vs.push(self.val(x, sc, out)?);
                }
                v(Val::Tuple(vs))
            }
            Expr::Struct(s) => {
                for f in &s.fields {
                    self.val(&f.expr, sc, out)?;
                }
                if let Some(r) = &s.rest {
                    self.val(r, sc, out)?;
                }
                let name = path_name(&s.path);
                if name.starts_with("UnitState::") {
                    return v(Val::UnitState(unit_state_tag(last_seg(&name))?));
                }
                v(Val::Opaque)
            }
            Expr::Binary(b) => {
                let l = self.val(&b.left, sc, out)?;
                let r = self.val(&b.right, sc, out)?;
                let is_kill = |x: &Val| matches!(x, Val::Ctor(n, a) if ctor_eq(n, "UnitTerminateSignal::Kill") && a.is_empty());
                match (&b.op, &l, &r) {
                    (syn::BinOp::Eq(_), Val::TermSignal(m), k) | (syn::BinOp::Eq(_), k, Val::TermSignal(m)) if is_kill(k) => {
                        v(Val::IsKill(*m))
                    }
                    (_, Val::TermSignal(_), _) | (_, _, Val::TermSignal(_)) => {
                        Err(format!("untranslatable test of the termination signal `{}`", norm(e)))
                    }
                    (_, Val::Pid(_), _) | (_, _, Val::Pid(_)) => Err(format!("`{}`: arithmetic on the pid", norm(e))),
                    _ => v(Val::Opaque),
                }
            }
            Expr::Call(c) => self.call(c, sc, out),
            Expr::MethodCall(m) => self.method_call(m, sc, out),
            Expr::Macro(m) => self.mac(&m.mac, sc, out),
            Expr::Assign(a) => {
                if !matches!(&*a.left, Expr::Infer(_)) {
                    return Err(format!("assignment `{}`", norm(e)));
                }
                self.val(&a.right, sc, out)?;
                v(Val::Unit)
            }
            Expr::If(i) => {
                if let Expr::Let(l) = &*i.cond {
                    let x = self.val(&l.expr, sc, out)?;
                    let else_block = match &i.else_branch {
                        None => None,
                        Some((_, eb)) => match &**eb {
                            Expr::Block(b) => Some(&b.block),
                            other => return Err(format!("untranslatable else `{}`", norm(other))),
                        },
                    };
                    return match (&*l.pat, &x) {
                        (Pat::TupleStruct(ts), Val::PidOpt)
                            if last_seg(&path_name(&ts.path)) == "Some" && ts.elems.len() == 1 =>
                        {
                            let mut b = Vec::new();
                            self.pmatch(&ts.elems[0], &Val::Pid(false), &mut b)?;
                            let then_acts = self.branch(&i.then_branch, b, sc)?;
                            if !then_acts.is_empty() {
                                out.push(Act::IfChild(then_acts));
                            }
                            if let Some(eb) = else_block {
                                let else_acts = self.branch(eb, Vec::new(), sc)?;
                                if !else_acts.is_empty() {
                                    // evaluated once: child.id() does not change inside an arm
                                    out.push(Act::IfNoChild(else_acts));
                                }
                            }
                            v(Val::Opaque)
                        }
                        (_, Val::Ctor(..)) => {
                            let mut b = Vec::new();
                            if self.pmatch(&l.pat, &x, &mut b)? {
                                sc.frames.push(b.into_iter().collect());
                                let r = self.stmts(&i.then_branch.stmts, sc, out);
                                sc.frames.pop();
                                r
                            } else if let Some(eb) = else_block {
                                self.block(eb, sc, out)
                            } else {
                                v(Val::Unit)
                            }
                        }
                        _ => Err(format!("untranslatable condition `{}`", norm(&i.cond))),
                    };
                }
                let (neg, c) = self.cond(&i.cond, sc, out)?;
                let has_else = match &i.else_branch {
                    None => false,
                    Some((_, eb)) => !matches!(&**eb, Expr::Block(b) if b.block.stmts.is_empty()),
                };
                match c {
                    Val::IsPaused(k) => {
                        if has_else {
                            return Err(format!("`if {}` with an else branch", norm(&i.cond)));
                        }
                        let body = self.branch(&i.then_branch, Vec::new(), sc)?;
                        out.push(if neg { Act::IfNotPaused(k, body) } else { Act::IfPaused(k, body) });
                        v(Val::Opaque)
                    }
                    Val::IsKill(m) => {
                        if has_else || neg {
                            return Err(format!("untranslatable test `{}`", norm(&i.cond)));
                        }
                        let body = self.branch(&i.then_branch, Vec::new(), sc)?;
                        out.push(Act::IfMethodKill(m, body));
                        v(Val::Opaque)
                    }
                    Val::Bool(b) => {
                        if b != neg {
                            self.block(&i.then_branch, sc, out)
                        } else if let Some((_, eb)) = &i.else_branch {
                            self.eval(eb, sc, out)
                        } else {
                            v(Val::Unit)
                        }
                    }
                    _ => Err(format!("untranslatable condition `{}`", norm(&i.cond))),
                }
            }
            Expr::Match(m) => {
                let x = self.val(&m.expr, sc, out)?;
                self.match_on(m, &x, sc, out)
            }
            Expr::Break(b) => {
                let val = match &b.expr {
                    None => "BPlain".to_owned(),
                    Some(x) => match self.val(x, sc, out)? {
                        Val::Ctor(n, a) if a.is_empty() && ctor_eq(&n, "TerminateChildResult::Killed") => {
                            "(BResult TcKilled)".to_owned()
                        }
                        Val::Ctor(n, a) if a.is_empty() && ctor_eq(&n, "TerminateChildResult::Exited") => {
                            "(BResult TcExited)".to_owned()
                        }
                        Val::Bool(b) => format!("(BBool {b})"),
                        other => return Err(format!("`{}`: break with {other:?}", norm(e))),
                    },
                };
                out.push(Act::Break(val));
                Ok(Flow::Diverged)
            }
            Expr::Return(r) => {
                if self.inline_depth > 0 {
                    return Err(format!("`{}` inside an inlined function", norm(e)));
                }
                let x = match &r.expr {
                    Some(x) => self.val(x, sc, out)?,
                    None => Val::Unit,
                };
                match x {
                    Val::Ctor(n, a) if a.is_empty() && ctor_eq(&n, "TerminateChildResult::Killed") => {
                        out.push(Act::Return("TcKilled"))
                    }
                    Val::Ctor(n, a) if a.is_empty() && ctor_eq(&n, "TerminateChildResult::Exited") => {
                        out.push(Act::Return("TcExited"))
                    }
                    other => return Err(format!("`{}`: return of {other:?}", norm(e))),
                }
                Ok(Flow::Diverged)
            }
            Expr::Loop(_) if self.stop_at_loop && self.inline_depth == 0 => Ok(Flow::EnterLoop),
            other => Err(format!("untranslatable expression `{}`", norm(other))),
        }
    }

    fn match_on(&mut self, m: &ExprMatch, x: &Val, sc: &mut Scope, out: &mut Vec<Act>) -> Result<Flow, String> {
        if !matches!(x, Val::Ctor(..) | Val::Method(_) | Val::Tuple(_)) {
            return Err(format!("`match {}` on a value the translator cannot follow ({x:?})", norm(&m.expr)));
        }
        for arm in &m.arms {
            if !cfg_keep(&arm.attrs)? {
                continue;
            }
            let mut b = Vec::new();
            if self.pmatch(&arm.pat, x, &mut b)? {
                if arm.guard.is_some() {
                    return Err(format!("arm `{}` has a guard", norm(&arm.pat)));
                }
                sc.frames.push(b.into_iter().collect());
                let r = self.eval(&arm.body, sc, out);
                sc.frames.pop();
                return r;
            }
        }
        Err(format!("no arm of `match {}` matches {x:?}", norm(&m.expr)))
    }

    fn call(&mut self, c: &syn::ExprCall, sc: &mut Scope, out: &mut Vec<Act>) -> Result<Flow, String> {
        let v = |x: Val| Ok(Flow::Value(x));
        let path = match &*c.func {
            Expr::Path(p) => &p.path,
            other => return Err(format!("call of `{}`", norm(other))),
        };
        let full = norm(path);
        let name = path_name(path);
        let last = last_seg(&name).to_owned();
        let mut args = Vec::new();
        for a in &c.args {
            args.push(self.val(a, sc, out)?);
        }
        let text = norm(c);
        if full == "libc::kill" || (last == "kill" && path.segments.len() == 1) {
            return match args.as_slice() {
                [Val::Pid(neg), Val::Sig(s)] => {
                    out.push(Act::Kill(*neg, s.clone()));
                    v(Val::Opaque)
                }
                [Val::Pid(neg), Val::TermSignal(_)] | [Val::Pid(neg), Val::Opaque] => Err(format!(
                    "`{text}`: cannot tell which signal is sent to {}",
                    if *neg { "the group" } else { "the child" }
                )),
                _ => Err(format!("`{text}`: cannot tell the target / signal of kill ({args:?})")),
            };
        }
        match last.as_str() {
            "terminate_child" => {
                if args.len() != 8 {
                    return Err(format!("`{text}`: terminate_child with {} arguments", args.len()));
                }
                if args[1] != Val::Child {
                    return Err(format!("`{text}`: terminate_child on something other than the child"));
                }
                if args[4] != Val::Clock("KSw".into()) {
                    return Err(format!("`{text}`: terminate_child is not given the unit's stopwatch"));
                }
                if args[7] != Val::Grace {
                    return Err(format!("`{text}`: terminate_child is not given the grace period"));
                }
                let r = match &args[3] {
                    Val::Ctor(n, a) if ctor_eq(n, "InternalTerminateReason::Signal") && a.as_slice() == [Val::Payload] => "RsSignal",
                    Val::Ctor(n, a) if ctor_eq(n, "InternalTerminateReason::Timeout") && a.is_empty() => "RsTimeout",
                    other => return Err(format!("`{text}`: termination reason {other:?}")),
                };
                out.push(Act::Terminate(r));
                v(Val::Opaque)
            }
            "timeout_terminate_method" => match args.as_slice() {
                [Val::Grace] => v(Val::Method(Mfn::Timeout)),
                _ => Err(format!("`{text}`: unexpected arguments {args:?}")),
            },
            "shutdown_terminate_method" => match args.as_slice() {
                [Val::Payload, Val::Grace] => v(Val::Method(Mfn::Shutdown)),
                _ => Err(format!("`{text}`: unexpected arguments {args:?}")),
            },
            "pausable_sleep" => match args.as_slice() {
                [Val::Grace] => v(Val::NewSleep),
                _ => Err(format!("`{text}`: a sleep whose duration is not the grace period")),
            },
            "stopwatch" if args.is_empty() => v(Val::NewStopwatch),
            "drop" => v(Val::Unit),
            _ => {
                if last.chars().next().is_some_and(|c| c.is_uppercase()) {
                    if name.starts_with("UnitState::") {
                        return v(Val::UnitState(unit_state_tag(&last)?));
                    }
                    return v(Val::Ctor(name, args));
                }
                let r = self.inline(&last, false, None, args, out)?;
                v(r)
            }
        }
    }

    fn method_call(&mut self, m: &syn::ExprMethodCall, sc: &mut Scope, out: &mut Vec<Act>) -> Result<Flow, String> {
        let v = |x: Val| Ok(Flow::Value(x));
        let recv = self.val(&m.receiver, sc, out)?;
        let name = m.method.to_string();
        let mut args = Vec::new();
        for a in &m.args {
            args.push(self.val(a, sc, out)?);
        }
        let text = norm(m);
        match (&recv, name.as_str()) {
            (Val::Clock(k), "pause") => {
                out.push(Act::Pause(k.clone()));
                v(Val::Unit)
            }
            (Val::Clock(k), "resume") => {
                out.push(Act::Resume(k.clone()));
                v(Val::Unit)
            }
            (Val::Clock(k), "is_paused") => v(Val::IsPaused(k.clone())),
            (Val::Clock(k), "as_mut" | "as_ref") => v(Val::Clock(k.clone())),
            (Val::Clock(_), "snapshot" | "elapsed") => v(Val::Opaque),
            (Val::Clock(_), _) => Err(format!("`{text}`: unknown operation on a clock")),
            (Val::Sender(Snd::Ack), "send") => match args.as_slice() {
                [Val::Unit] => {
                    out.push(Act::Ack);
                    v(Val::Opaque)
                }
                _ => Err(format!("`{text}`: unexpected acknowledgement")),
            },
            (Val::Sender(Snd::Info), "send") => match args.as_slice() {
                [Val::Info(tag)] => {
                    out.push(Act::Info(tag.clone()));
                    v(Val::Opaque)
                }
                _ => Err(format!("`{text}`: the response is not built by info_response ({args:?})")),
            },
            (Val::Sender(s), "clone") => v(Val::Sender(*s)),
            (Val::Sender(_), _) => Err(format!("`{text}`: unknown operation on a response channel")),
            (Val::Child, "id") => v(Val::PidOpt),
            (Val::Child, "start_kill" | "kill") => {
                // tokio::process::Child::start_kill: SIGKILL to the child process only
                out.push(Act::Kill(false, SigX::Fixed("SigKill".into())));
                v(Val::Opaque)
            }
            (Val::Child, _) => Err(format!("`{text}`: unknown operation on the child")),
            (Val::TermSignal(f), "signal") => v(Val::Sig(SigX::Method(*f))),
            (Val::Pid(_) | Val::PidOpt | Val::TermSignal(_) | Val::Method(_) | Val::IsPaused(_) | Val::IsKill(_), _) => {
                Err(format!("`{text}`: unknown operation on {recv:?}"))
            }
            (_, "info_response") => match args.first() {
                Some(Val::UnitState(tag)) => v(Val::Info(tag.clone())),
                _ => Err(format!("`{text}`: cannot tell which state the response reports")),
            },
            (_, n) if PURE_METHODS.contains(&n) => v(Val::Opaque),
            (_, n) => {
                let r = self.inline(n, true, Some(recv.clone()), args, out)?;
                v(r)
            }
        }
    }
}

// ---------------------------------------------------------------------------- the loops

#[derive(Clone, Copy)]
struct Kind {
    field: &'static str,
    label: &'static str,
}
const KINDS: [Kind; 5] = [
    Kind { field: "on_stop", label: "Stop" },
    Kind { field: "on_cont", label: "Continue" },
    Kind { field: "on_shutdown", label: "Shutdown" },
    Kind { field: "on_cancel", label: "OtherCancel" },
    Kind { field: "on_info", label: "GetInfo" },
];

fn request(kind: &str) -> Val {
    let c = |n: &str, a: Vec<Val>| Val::Ctor(n.to_owned(), a);
    match kind {
        "Stop" => c("RunUnitRequest::Signal", vec![c("SignalRequest::Stop", vec![Val::Sender(Snd::Ack)])]),
        "Continue" => c("RunUnitRequest::Signal", vec![c("SignalRequest::Continue", vec![])]),
        "Shutdown" => c("RunUnitRequest::Signal", vec![c("SignalRequest::Shutdown", vec![Val::Payload])]),
        "OtherCancel" => c("RunUnitRequest::OtherCancel", vec![]),
        "GetInfo" => c("RunUnitRequest::Query", vec![c("RunUnitQuery::GetInfo", vec![Val::Sender(Snd::Info)])]),
        _ => unreachable!(),
    }
}

struct Loop<'a> {
    field: &'static str,
    func: &'static str,
    clocks: &'a BTreeMap<&'a str, &'a str>,
}

fn find_fn<'a>(fns: &'a HashMap<String, Vec<FnDef>>, name: &str) -> Result<&'a FnDef, String> {
    match fns.get(name).map(|v| v.as_slice()) {
        Some([f]) => Ok(f),
        Some(v) if v.len() > 1 => Err(format!("function {name} is defined {} times", v.len())),
        _ => Err(format!("function {name} not found")),
    }
}

fn base_scope<'a>(clocks: &'a BTreeMap<&'a str, &'a str>) -> Scope<'a> {
    let mut frame: HashMap<String, Val> = clocks.iter().map(|(n, k)| ((*n).to_owned(), Val::Clock((*k).to_owned()))).collect();
    frame.insert("child".to_owned(), Val::Child);
    Scope { frames: vec![frame], clock_names: clocks }
}

/// terminate_child up to its loop, for one reason; returns the actions and the scope the loop runs in
fn term_entry<'a>(
    fns: &HashMap<String, Vec<FnDef>>,
    f: &FnDef,
    clocks: &'a BTreeMap<&'a str, &'a str>,
    reason: Val,
) -> Result<(Vec<Act>, Scope<'a>), String> {
    let params: Vec<String> = f
        .sig
        .inputs
        .iter()
        .map(|a| match a {
            FnArg::Typed(pt) => match &*pt.pat {
                Pat::Ident(i) => i.ident.to_string(),
                other => norm(other),
            },
            FnArg::Receiver(_) => "self".to_owned(),
        })
        .collect();
    if params.len() != 8 {
        return Err(format!("terminate_child has {} parameters, 8 expected", params.len()));
    }
    let mut sc = Scope { frames: vec![HashMap::new()], clock_names: clocks };
    for (i, p) in params.iter().enumerate() {
        let v = match i {
            1 => Val::Child,
            3 => reason.clone(),
            4 => Val::Clock("KSw".into()),
            7 => Val::Grace,
            _ => Val::Opaque,
        };
        sc.set(p, v);
    }
    let mut tr = Tr { fns, inline_depth: 0, stop_at_loop: true };
    let mut acts = Vec::new();
    match tr.stmts(&f.block.stmts, &mut sc, &mut acts)? {
        Flow::EnterLoop => Ok((acts, sc)),
        _ => Err("terminate_child: the statements before the loop do not lead to the loop".into()),
    }
}

fn main() {
    let repo = std::env::var("VERIF_REPO").unwrap_or_else(|_| "/repo".to_owned());
    let read = |p: &str| -> syn::File {
        let text = std::fs::read_to_string(format!("{repo}/{p}")).unwrap_or_else(|e| {
            eprintln!("arm_table: cannot read {p}: {e}");
            std::process::exit(3)
        });
        syn::parse_file(&text).unwrap_or_else(|e| {
            eprintln!("arm_table: cannot parse {p}: {e}");
            std::process::exit(3)
        })
    };
    let executor = read("nextest-runner/src/runner/executor.rs");
    let unix = read("nextest-runner/src/runner/unix.rs");
    let mut fns = HashMap::new();
    collect_fns(&executor, &mut fns);
    collect_fns(&unix, &mut fns);

    let run_clocks: BTreeMap<&str, &str> = [("stopwatch", "KSw"), ("interval_sleep", "KInterval")].into();
    let term_clocks: BTreeMap<&str, &str> = [("stopwatch", "KSw"), ("sleep", "KGrace"), ("waiting_stopwatch", "KWait")].into();
    let delay_clocks: BTreeMap<&str, &str> = [("sleep", "KDelay"), ("waiting_stopwatch", "KDelayWait")].into();
    let leak_clocks: BTreeMap<&str, &str> = [("stopwatch", "KSw")].into();
    let loops = [
        Loop { field: "a_test", func: "run_test_inner", clocks: &run_clocks },
        Loop { field: "a_script", func: "run_setup_script_inner", clocks: &run_clocks },
        Loop { field: "a_term", func: "terminate_child", clocks: &term_clocks },
        Loop { field: "a_leak", func: "detect_fd_leaks", clocks: &leak_clocks },
        Loop { field: "a_delay", func: "handle_delay_between_attempts", clocks: &delay_clocks },
    ];

    let mut errors: Vec<String> = Vec::new();
    let mut fields: Vec<String> = Vec::new();
    let mut entries: Vec<(&str, Vec<Act>)> = Vec::new();
    let mut expiry: Vec<Act> = vec![Act::Untranslated];

    for lp in &loops {
        let mut arms: Vec<(Kind, Vec<Act>)> = Vec::new();
        let whole = |e: String, errors: &mut Vec<String>, arms: &mut Vec<(Kind, Vec<Act>)>| {
            for k in KINDS {
                errors.push(format!("{}: {}: {e}", lp.func, k.label));
                arms.push((k, vec![Act::Untranslated]));
            }
        };
        let f = match find_fn(&fns, lp.func) {
            Ok(f) => f,
            Err(e) => {
                whole(e, &mut errors, &mut arms);
                emit_loop(lp.field, &arms, &mut fields);
                if lp.func == "terminate_child" {
                    errors.push("terminate_child: entry: function not found".into());
                    errors.push("terminate_child: grace-expiry: function not found".into());
                    entries.push(("a_entry_timeout", vec![Act::Untranslated]));
                    entries.push(("a_entry_signal", vec![Act::Untranslated]));
                }
                continue;
            }
        };
        let mut ms: Vec<Found> = Vec::new();
        request_matches(f.block.to_token_stream(), "", &mut ms);
        // the scopes the arms run in
        let mut scopes: Vec<Scope> = Vec::new();
        if lp.func == "terminate_child" {
            let reasons = [
                ("a_entry_timeout", Val::Ctor("InternalTerminateReason::Timeout".into(), vec![])),
                ("a_entry_signal", Val::Ctor("InternalTerminateReason::Signal".into(), vec![Val::Payload])),
            ];
            for (field, reason) in reasons {
                match term_entry(&fns, f, lp.clocks, reason) {
                    Ok((acts, sc)) => {
                        entries.push((field, acts));
                        scopes.push(sc);
                    }
                    Err(e) => {
                        errors.push(format!("terminate_child: entry: {e}"));
                        entries.push((field, vec![Act::Untranslated]));
                    }
                }
            }
            if scopes.is_empty() {
                scopes.push(base_scope(lp.clocks));
            }
            // the end of the grace period
            let mut brs = Vec::new();
            sleep_branches(f.block.to_token_stream(), &mut brs);
            let grace: Vec<&(String, Block)> = brs
                .iter()
                .filter(|(n, _)| scopes[0].get(n) == Some(&Val::Clock("KGrace".into())))
                .collect();
            match grace.as_slice() {
                [(_, b)] => {
                    let mut tr = Tr { fns: &fns, inline_depth: 0, stop_at_loop: false };
                    let mut acts = Vec::new();
                    match tr.block(b, &mut scopes[0], &mut acts) {
                        Ok(_) => expiry = acts,
                        Err(e) => errors.push(format!("terminate_child: grace-expiry: {e}")),
                    }
                }
                other => errors.push(format!(
                    "terminate_child: grace-expiry: {} select branches wait on the grace-period sleep, 1 expected",
                    other.len()
                )),
            }
        } else {
            scopes.push(base_scope(lp.clocks));
        }
        if ms.len() != 1 {
            whole(format!("{} `match` expressions over RunUnitRequest found, 1 expected", ms.len()), &mut errors, &mut arms);
            emit_loop(lp.field, &arms, &mut fields);
            continue;
        }
        // nothing but the match handles a request: the select! branch that reads the channel has the
        // expected header, its block is `let`s without effects followed by the match, and the loop
        // body is the select! alone
        let context = (|| -> Result<(), String> {
            let want = if lp.func == "detect_fd_leaks" { ",if!child_acc.fds.is_done()" } else { "" };
            let h = &ms[0].header;
            let ok_header = h
                .strip_suffix("=>")
                .and_then(|x| x.strip_suffix(want))
                .and_then(|x| x.strip_suffix("=req_rx.recv()"))
                .is_some_and(|x| !x.is_empty() && x.chars().all(|c| c.is_alphanumeric() || c == '_'));
            if !ok_header {
                return Err(format!("the select! branch that holds the request match is `{h}`; expected `<name>=req_rx.recv(){want}=>`"));
            }
            if !ms[0].after.clone().into_iter().all(|t| matches!(&t, TokenTree::Punct(p) if p.as_char() == ';')) {
                return Err(format!("statements follow the request match: `{}`", norm(&ms[0].after)));
            }
            let before = ms[0].before.clone();
            let blk: Block = syn::parse2(quote::quote!({ #before }))
                .map_err(|e| format!("cannot read what precedes the request match (`{}`): {e}", norm(&ms[0].before)))?;
            let mut tr = Tr { fns: &fns, inline_depth: 0, stop_at_loop: false };
            let mut acts = Vec::new();
            let mut sc = base_scope(lp.clocks);
            tr.stmts(&blk.stmts, &mut sc, &mut acts).map_err(|e| format!("before the request match: {e}"))?;
            if !acts.is_empty() || blk.stmts.iter().any(|s| !matches!(s, Stmt::Local(_))) {
                return Err(format!("statements with an effect precede the request match: `{}`", norm(&ms[0].before)));
            }
            let mut bodies = Vec::new();
            request_loops(f.block.to_token_stream(), &mut bodies);
            if bodies.len() != 1 || !only_select(bodies[0].clone()) {
                return Err("the wait loop's body is not a single select!".to_owned());
            }
            Ok(())
        })();
        if let Err(e) = context {
            whole(e, &mut errors, &mut arms);
            emit_loop(lp.field, &arms, &mut fields);
            continue;
        }
        for k in KINDS {
            let mut results: Vec<Result<Vec<Act>, String>> = Vec::new();
            for sc in scopes.iter_mut() {
                let mut tr = Tr { fns: &fns, inline_depth: 0, stop_at_loop: false };
                let mut acts = Vec::new();
                let depth = sc.frames.len();
                let r = tr.match_on(&ms[0].m, &request(k.label), sc, &mut acts);
                sc.frames.truncate(depth);
                results.push(r.map(|_| acts));
            }
            let first = results[0].clone();
            let res = if results.iter().any(|r| *r != first) {
                Err("the arm depends on the termination reason".to_owned())
            } else {
                first
            };
            match res {
                Ok(acts) => arms.push((k, acts)),
                Err(e) => {
                    errors.push(format!("{}: {}: {e}", lp.func, k.label));
                    arms.push((k, vec![Act::Untranslated]));
                }
            }
        }
        emit_loop(lp.field, &arms, &mut fields);
    }
    for (field, acts) in &entries {
        fields.push(format!("  {field} := {}", acts_coq(acts)));
    }
    fields.push(format!("  a_term_expiry := {}", acts_coq(&expiry)));

    println!("(* GENERATED by harness/src/bin/arm_table.rs from executor.rs and unix.rs -- do not edit *)");
    println!("From NextestModel Require Import Base.Str Model.Clocks Model.UnitTimers Model.ArmTable.");
    println!("Definition arm_table : atable := {{|\n{}\n|}}.", fields.join(";\n"));
    if !errors.is_empty() {
        for e in &errors {
            eprintln!("arm_table: {e}");
        }
        std::process::exit(3);
    }
}

fn emit_loop(field: &str, arms: &[(Kind, Vec<Act>)], fields: &mut Vec<String>) {
    let inner: Vec<String> = arms.iter().map(|(k, a)| format!("    {} := {}", k.field, acts_coq(a))).collect();
    fields.push(format!("  {field} := {{|\n{} |}}", inner.join(";\n")));
}
