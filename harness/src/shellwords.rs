//! Implementation-side evaluator for the `shellwords` correspondence checks (props/C15.py): the
//! real `shell_words::{quote, join, split}` at the version nextest links.
use crate::common::strs;
use serde_json::{json, Value};

fn split_json(s: &str) -> Value {
    match shell_words::split(s) {
        Ok(ws) => json!({ "ok": ws }),
        Err(_) => json!({ "err": "parse" }),
    }
}

pub fn run(case: &Value) -> Value {
    match case["op"].as_str().unwrap_or("") {
        "quote" => json!(shell_words::quote(case["s"].as_str().unwrap()).into_owned()),
        "join" => json!(shell_words::join(strs(&case["words"]))),
        "split" => split_json(case["s"].as_str().unwrap()),
        // join, then split what join produced (what create_command + DoubleSpawnOpts::exec do)
        "roundtrip" => {
            let joined = shell_words::join(strs(&case["words"]));
            let back = split_json(&joined);
            json!({ "joined": joined, "split": back })
        }
        other => json!({ "error": format!("unknown op {other}") }),
    }
}
