// Part of src/bin/decisions.rs (include!): statements, blocks, early returns, `&mut self` state
// threading, function definitions.

fn mk_let(x: String, e: Box<G>, body: Box<G>) -> G {
    match &*body {
        G::Raw(b) if *b == x => *e,
        _ => G::Let(x, e, body),
    }
}

/// the type of two branches: a component one branch leaves open (`None`, `&[]`, a diverging branch) is taken from
/// the other
fn pick_ty(a: Ty, b: Ty) -> Ty {
    match (a, b) {
        (Ty::Never, b) => b,
        (a, Ty::Never) => a,
        (Ty::Option(x), Ty::Option(y)) => Ty::Option(Box::new(pick_ty(*x, *y))),
        (Ty::List(x), Ty::List(y)) => Ty::List(Box::new(pick_ty(*x, *y))),
        (Ty::Tuple(xs), Ty::Tuple(ys)) if xs.len() == ys.len() => {
            Ty::Tuple(xs.into_iter().zip(ys).map(|(x, y)| pick_ty(x, y)).collect())
        }
        (Ty::Result(a1, b1), Ty::Result(a2, b2)) => Ty::Result(Box::new(pick_ty(*a1, *a2)), Box::new(pick_ty(*b1, *b2))),
        (a, _) => a,
    }
}

fn is_self_path(e: &Expr) -> bool {
    match e {
        Expr::Path(p) => p.path.is_ident("self"),
        Expr::Paren(p) => is_self_path(&p.expr),
        Expr::Reference(r) => is_self_path(&r.expr),
        Expr::Unary(u) if matches!(u.op, UnOp::Deref(_)) => is_self_path(&u.expr),
        _ => false,
    }
}

fn is_ident_path(e: &Expr, name: &str) -> bool {
    match e {
        Expr::Path(p) => p.path.is_ident(name),
        Expr::Paren(p) => is_ident_path(&p.expr, name),
        Expr::Reference(r) => is_ident_path(&r.expr, name),
        Expr::Unary(u) if matches!(u.op, UnOp::Deref(_)) => is_ident_path(&u.expr, name),
        _ => false,
    }
}

impl Env {
    /// the record that is threaded through the statements: (coq name, struct name)
    fn cur_state(&self) -> Option<(String, String)> {
        if self.mutating {
            Some(("self".to_owned(), self.self_ty.clone().unwrap_or_default()))
        } else {
            self.local_state.as_ref().map(|(r, s)| (local_name(r), s.clone()))
        }
    }
    fn is_state_expr(&self, e: &Expr) -> bool {
        if self.mutating {
            is_self_path(e)
        } else {
            match &self.local_state {
                Some((r, _)) => is_ident_path(e, r),
                None => false,
            }
        }
    }
}

type BlockFn<'f, 'u> = dyn FnMut(&mut Tr<'u>, &[Stmt], &Env) -> R<(G, Ty)> + 'f;

/// the plain identifiers assigned (`x = ..`, `x += ..`) anywhere in an expression (closures and items excluded)
fn assigned_idents(e: &Expr) -> BTreeSet<String> {
    struct V(BTreeSet<String>);
    impl<'ast> syn::visit::Visit<'ast> for V {
        fn visit_expr(&mut self, e: &'ast Expr) {
            let target = match e {
                Expr::Assign(a) => Some(&*a.left),
                Expr::Binary(b) if matches!(b.op, BinOp::AddAssign(_) | BinOp::SubAssign(_) | BinOp::MulAssign(_)) => Some(&*b.left),
                _ => None,
            };
            if let Some(Expr::Path(p)) = target {
                if let Some(i) = p.path.get_ident() {
                    self.0.insert(i.to_string());
                }
            }
            syn::visit::visit_expr(self, e);
        }
        fn visit_expr_closure(&mut self, _: &'ast syn::ExprClosure) {}
        fn visit_item(&mut self, _: &'ast Item) {}
    }
    let mut v = V(BTreeSet::new());
    syn::visit::Visit::visit_expr(&mut v, e);
    v.0
}

fn contains_continue_expr(e: &Expr) -> bool {
    struct V(bool);
    impl<'ast> syn::visit::Visit<'ast> for V {
        fn visit_expr_continue(&mut self, _: &'ast syn::ExprContinue) {
            self.0 = true;
        }
        fn visit_expr_closure(&mut self, _: &'ast syn::ExprClosure) {}
        fn visit_expr_for_loop(&mut self, _: &'ast syn::ExprForLoop) {}
        fn visit_expr_while(&mut self, _: &'ast syn::ExprWhile) {}
        fn visit_expr_loop(&mut self, _: &'ast syn::ExprLoop) {}
        fn visit_item(&mut self, _: &'ast Item) {}
    }
    let mut v = V(false);
    syn::visit::Visit::visit_expr(&mut v, e);
    v.0
}

fn type_has_infer(t: &Type) -> bool {
    struct V(bool);
    impl<'ast> syn::visit::Visit<'ast> for V {
        fn visit_type_infer(&mut self, _: &'ast syn::TypeInfer) {
            self.0 = true;
        }
    }
    let mut v = V(false);
    syn::visit::Visit::visit_type(&mut v, t);
    v.0
}

/// a type with a component that was never determined (the `T` of a bare `None`, the element type of `&[]`)
fn ty_undetermined(t: &Ty) -> bool {
    match t {
        Ty::Never => true,
        Ty::Option(a) | Ty::List(a) => ty_undetermined(a),
        Ty::Tuple(ts) => ts.iter().any(ty_undetermined),
        Ty::Result(a, b) | Ty::Fun(a, b) => ty_undetermined(a) || ty_undetermined(b),
        _ => false,
    }
}

fn base_k<'a, 'b>(k: &'b K<'a>) -> &'b K<'a> {
    match k {
        K::Then(_, _, k2) => base_k(k2),
        K::Bind(_, _, _, _, k2) => base_k(k2),
        other => other,
    }
}

fn vars_tuple(names: &[String]) -> String {
    if names.len() == 1 {
        names[0].clone()
    } else {
        format!("({})", names.join(", "))
    }
}
fn vars_binder(names: &[String]) -> String {
    if names.len() == 1 {
        names[0].clone()
    } else {
        format!("'({})", names.join(", "))
    }
}

/// `x.send(Enum::Variant ..)` somewhere in a statement: the variant
fn sent_event(s: &Stmt, events_enum: &str) -> Option<String> {
    struct V<'e>(&'e str, Option<String>);
    impl<'e, 'ast> syn::visit::Visit<'ast> for V<'e> {
        fn visit_expr_method_call(&mut self, m: &'ast syn::ExprMethodCall) {
            if m.method == "send" || m.method == "send_blocking" || m.method == "try_send" {
                if let Some(a) = m.args.first() {
                    let path = match a {
                        Expr::Struct(st) => Some(&st.path),
                        Expr::Call(c) => match &*c.func {
                            Expr::Path(p) => Some(&p.path),
                            _ => None,
                        },
                        Expr::Path(p) => Some(&p.path),
                        _ => None,
                    };
                    if let Some(p) = path {
                        let segs: Vec<String> = p.segments.iter().map(|s| s.ident.to_string()).collect();
                        if segs.len() >= 2 && segs[segs.len() - 2] == self.0 {
                            self.1 = Some(segs[segs.len() - 1].clone());
                        }
                    }
                }
            }
            syn::visit::visit_expr_method_call(self, m);
        }
        fn visit_expr_closure(&mut self, _: &'ast syn::ExprClosure) {}
        fn visit_item(&mut self, _: &'ast Item) {}
    }
    let mut v = V(events_enum, None);
    syn::visit::Visit::visit_stmt(&mut v, s);
    v.1
}

impl<'u> Tr<'u> {
    fn macro_ignorable(&self, mac: &syn::Macro) -> bool {
        let name = mac.path.segments.last().map(|s| s.ident.to_string()).unwrap_or_default();
        self.spec.ignore_macros.iter().any(|m| *m == name)
    }

    /// a statement whose only effect is logging: an ignorable macro, or an `if` / `match` / block
    /// whose branches consist of such statements
    fn log_only_stmt(&self, s: &Stmt) -> bool {
        match s {
            Stmt::Macro(sm) => self.macro_ignorable(&sm.mac),
            Stmt::Expr(e, _) => self.log_only_expr(e),
            _ => false,
        }
    }
    fn log_only_expr(&self, e: &Expr) -> bool {
        match e {
            Expr::Macro(m) => self.macro_ignorable(&m.mac),
            // the update of a captured counter the request declares as dropped
            Expr::Assign(_) | Expr::Binary(_) => {
                let target = match e {
                    Expr::Assign(a) => Some(&*a.left),
                    Expr::Binary(b) if matches!(b.op, BinOp::AddAssign(_)) => Some(&*b.left),
                    _ => None,
                };
                match target {
                    Some(Expr::Path(p)) => p.path.get_ident().map(|i| self.req_ignore_assign.iter().any(|n| i == n)).unwrap_or(false),
                    _ => false,
                }
            }
            Expr::Block(b) if b.label.is_none() => b.block.stmts.iter().all(|s| self.log_only_stmt(s)),
            Expr::If(i) => {
                i.then_branch.stmts.iter().all(|s| self.log_only_stmt(s))
                    && match &i.else_branch {
                        None => true,
                        Some((_, e)) => self.log_only_expr(e),
                    }
            }
            Expr::Match(m) => m.arms.iter().all(|a| self.log_only_expr(&a.body)),
            Expr::Tuple(t) => t.elems.is_empty(),
            _ => false,
        }
    }

    fn finish(&mut self, env: &Env, k: &K, sp: Span) -> R<(G, Ty)> {
        match k {
            K::Value(Some(Ty::Unit)) => Ok((raw("tt"), Ty::Unit)),
            K::Value(_) => self.err(sp, "a block that should produce a value ends without one"),
            K::State => match env.cur_state() {
                Some((c, sn)) => Ok((raw(c), Ty::Struct(sn))),
                None => self.err(sp, "internal: state continuation without a threaded record"),
            },
            K::Then(rest, env2, k2) => self.block(rest, env2, k2),
            K::Bind(..) => self.err(sp, "a block that should produce the value of a `let` ends without one"),
            K::Vars(names) => {
                let tys: Vec<Ty> = names
                    .iter()
                    .map(|n| env.vars.iter().find(|(_, c, _)| c == n).map(|(_, _, t)| t.clone()).unwrap_or(Ty::Never))
                    .collect();
                let t = if tys.len() == 1 { tys[0].clone() } else { Ty::Tuple(tys) };
                Ok((raw(vars_tuple(names)), t))
            }
        }
    }

    /// the value of a leaf of a closure_value request: (events sent on the way, value)
    fn leaf_wrap(&self, env: &Env, g: G, t: Ty) -> (G, Ty) {
        if env.events_enum.is_none() {
            return (g, t);
        }
        (raw(format!("({}, {})", coq_string_list(&env.events), g.render(4))), Ty::Tuple(vec![Ty::List(Box::new(Ty::Str)), t]))
    }

    /// a statement made only of calls of `ignore_methods` on a local (`testcase.set_classname(..).set_time(..);`)
    fn ignorable_method_stmt(&self, e: &Expr) -> bool {
        match e {
            Expr::MethodCall(m) => {
                self.spec.ignore_methods.iter().any(|i| m.method == i)
                    && (matches!(&*m.receiver, Expr::Path(p) if p.path.get_ident().is_some()) || self.ignorable_method_stmt(&m.receiver))
            }
            Expr::Paren(p) => self.ignorable_method_stmt(&p.expr),
            Expr::Try(t) => self.ignorable_method_stmt(&t.expr),
            _ => false,
        }
    }

    fn block(&mut self, stmts: &[Stmt], env: &Env, k: &K) -> R<(G, Ty)> {
        let (s, rest) = match stmts.split_first() {
            None => return self.finish(env, k, Span::call_site()),
            Some(x) => x,
        };
        if let Some(en) = &env.events_enum {
            if matches!(s, Stmt::Local(_) | Stmt::Expr(_, Some(_))) {
                if let Some(v) = sent_event(s, en) {
                    let mut env2 = env.clone();
                    env2.events.push(v);
                    return self.block(rest, &env2, k);
                }
            }
        }
        match s {
            Stmt::Local(l) => {
                let sp = l.span();
                let (pat, annot) = match &l.pat {
                    Pat::Type(pt) => (&*pt.pat, Some(&*pt.ty)),
                    p => (p, None),
                };
                let init = match &l.init {
                    Some(i) if i.diverge.is_none() => &*i.expr,
                    Some(i) => {
                        // `let PAT = e else { <diverges> };`: a match whose other arm is the else block (which leaves
                        // the function / the loop turn: it never falls through)
                        let (_, els) = i.diverge.as_ref().unwrap();
                        let els_stmts: &[Stmt] = match &**els {
                            Expr::Block(b) if b.label.is_none() => &b.block.stmts,
                            _ => return self.err(sp, "let-else whose else part is not a block"),
                        };
                        let has_exit = contains_return_block(&Block { brace_token: Default::default(), stmts: els_stmts.to_vec() })
                            || (env.loop_body && els_stmts.iter().any(|s| matches!(s, Stmt::Expr(e, _) if contains_continue_expr(e))));
                        if !has_exit {
                            return self.err(sp, "let-else whose else block does not end in `return` (or `continue` of a translated loop body)");
                        }
                        let (g, t) = self.expr(&i.expr, env, None)?;
                        let mut env2 = env.clone();
                        let pb = self.pattern(pat, &t, &mut env2)?;
                        let (body, bt) = self.block(rest, &env2, k)?;
                        let (eb, et) = self.block(els_stmts, env, k)?;
                        return Ok((G::Match(Box::new(g), vec![(pb, body), ("_".into(), eb)]), pick_ty(bt, et)));
                    }
                    None => return self.err(sp, "`let` without a value"),
                };
                let hint = match annot {
                    // (`Vec<_>`: nothing to learn from the annotation)
                    Some(t) if type_has_infer(t) => None,
                    Some(t) => Some(self.ty(t, env.self_ty.as_deref())?),
                    None => None,
                };
                // `let (a, b) = { stmts; (ea, eb) };`: the statements of the block, then the components one by one (fifth
                // round): a component that does not translate (the result of a wait loop) only poisons its own name
                if let (Pat::Tuple(pt), Expr::Block(eb)) = (pat, strip_refs(init)) {
                    if let Some(synth) = self.flatten_tuple_let(pt, eb, rest, env)? {
                        return self.block(&synth, env, k);
                    }
                }
                let mut env2 = env.clone();
                if matches!(strip_refs(init), Expr::If(_) | Expr::Match(_) | Expr::Block(_)) && (contains_return_expr(init) || contains_try_expr(init)) {
                    // `let p = match .. { .. => v, .. => return r };`: the rest of the block follows every value leaf
                    if !matches!(pat, Pat::Ident(_) | Pat::Wild(_) | Pat::Tuple(_)) {
                        return self.err(sp, "unsupported pattern in `let`");
                    }
                    let kb = K::Bind(pat, env.clone(), hint.clone(), rest, k);
                    return self.tail_bind(strip_refs(init), env, &kb);
                }
                if let (Expr::Try(_), None, true) = (init, &env.ret, self.spec.module.is_some()) {
                    // `let p = e?;` among the `let`s a fragment depends on (no function result to return the error
                    // through): the error exit is outside the fragment; the binding is usable only if nothing needs it
                    let why = "bound by `?` outside a translated function (the error exit is not part of the fragment)".to_owned();
                    let mut env3 = env.clone();
                    self.poison_pattern(pat, &mut env3, &why, sp)?;
                    self.notes.push(format!("{}:{}: `let {} = ..?` is not translated ({why}); any use of it in a translated position is an error", self.cur_file, sp.start().line, norm(pat)));
                    return self.block(rest, &env3, k);
                }
                if let Expr::Try(tr) = init {
                    // `let p = e?;`: the Err case leaves the function with the same error
                    let eh = match &env.ret {
                        Some(Ty::Result(_, b)) => Some(Ty::Result(Box::new(hint.clone().unwrap_or(Ty::Never)), b.clone())),
                        _ => None,
                    };
                    let (g, t) = self.expr(&tr.expr, env, eh.as_ref())?;
                    let (a, b) = match &t {
                        Ty::Result(a, b) => ((**a).clone(), (**b).clone()),
                        _ => return self.err(sp, format!("`?` on a value of type {}", t.coq())),
                    };
                    match &env.ret {
                        Some(Ty::Result(_, b2)) if **b2 == b => {}
                        _ => return self.err(sp, "`?` whose error type is not the error type of the function"),
                    }
                    let binder = self.pattern(pat, &a, &mut env2)?;
                    let (body, bt) = self.block(rest, &env2, k)?;
                    return Ok((
                        G::Match(Box::new(g), vec![(format!("inl {binder}"), body), ("inr e".into(), raw("inr e"))]),
                        bt,
                    ));
                }
                match self.expr(init, env, hint.as_ref()) {
                    Ok((g, t)) => {
                        let t = hint.unwrap_or(t);
                        // `let mut x = <record>`: x is threaded through the following statements
                        if let (Pat::Ident(pi), Ty::Struct(sn)) = (pat, &t) {
                            let is_view = matches!(self.types.get(sn), Some(TypeInfo::Rec(ri)) if ri.view);
                            if pi.mutability.is_some() && !is_view && env.cur_state().is_none() {
                                env2.local_state = Some((pi.ident.to_string(), sn.clone()));
                            }
                        }
                        let binder = match pat {
                            Pat::Ident(_) | Pat::Wild(_) => self.pattern(pat, &t, &mut env2)?,
                            Pat::Tuple(_) => format!("'{}", self.pattern(pat, &t, &mut env2)?),
                            _ => return self.err(sp, "unsupported pattern in `let`"),
                        };
                        // `let mut x = <value that is not a record>`: x is threaded through assignments, `if`s and loops
                        if let Pat::Ident(pi) = pat {
                            if pi.mutability.is_some() && !matches!(t, Ty::Struct(_)) {
                                let n = pi.ident.to_string();
                                env2.vars.retain(|(r, _, _)| *r != n);
                                env2.vars.push((n.clone(), local_name(&n), t.clone()));
                            }
                        }
                        let (body, bt) = self.block(rest, &env2, k)?;
                        // a value whose type is not determined (`None`) and that nothing uses: Coq could not type the `let`
                        if (ty_undetermined(&t) || matches!(&g, G::Raw(r) if r == "None" || r == "nil")) && self.spec.module.is_some() {
                            let text = body.render(0);
                            let used = text
                                .split(|c: char| !(c.is_alphanumeric() || c == '_' || c == '\''))
                                .any(|w| w == binder.trim_start_matches('\''));
                            if !used && !binder.contains('(') {
                                return Ok((body, bt));
                            }
                        }
                        Ok((mk_let(binder, Box::new(g), Box::new(body)), bt))
                    }
                    Err(e) => {
                        let why = format!("{} (line {})", e.msg, e.line);
                        self.poison_pattern(pat, &mut env2, &why, sp)?;
                        self.notes.push(format!(
                            "{}:{}: `let {}` is not translated ({}); any use of it in a translated position is an error",
                            self.cur_file,
                            sp.start().line,
                            norm(pat),
                            e.msg
                        ));
                        self.block(rest, &env2, k)
                    }
                }
            }
            Stmt::Item(Item::Use(u)) => {
                // `use Enum::*;`
                let mut segs = Vec::new();
                let mut t = &u.tree;
                loop {
                    match t {
                        syn::UseTree::Path(p) => {
                            segs.push(p.ident.to_string());
                            t = &p.tree;
                        }
                        syn::UseTree::Glob(_) => break,
                        _ => return self.err(u.span(), "`use` other than `use Enum::*`"),
                    }
                }
                let en = segs.last().cloned().unwrap_or_default();
                if !self.u.enums.contains_key(&en) {
                    return self.err(u.span(), format!("`use {en}::*`: `{en}` is not an enum of the listed source files"));
                }
                self.named_ty(&en, u.span())?;
                let mut env2 = env.clone();
                env2.globs.push(en);
                self.block(rest, &env2, k)
            }
            Stmt::Item(i) => self.err(i.span(), "item inside a function body"),
            Stmt::Macro(sm) => {
                if self.macro_ignorable(&sm.mac) {
                    return self.block(rest, env, k);
                }
                if rest.is_empty() && sm.semi_token.is_none() {
                    if let K::Value(_) = k {
                        if let K::Value(h) = k { return self.macro_expr(&sm.mac, env, h.as_ref(), sm.span()); }
                    }
                }
                self.err(sm.span(), format!("unsupported macro statement `{}!`", norm(&sm.mac.path)))
            }
            Stmt::Expr(e, semi) => {
                if rest.is_empty() && semi.is_none() {
                    if let K::Value(h) = k {
                        return self.tail_value(e, env, h.as_ref());
                    }
                    if let K::Bind(..) = k {
                        return self.tail_bind(e, env, k);
                    }
                    // `fn set_x(&mut self, ..) -> &mut Self { ..; self }`
                    if matches!(k, K::State) && env.mutating && is_self_path(e) {
                        return self.finish(env, k, e.span());
                    }
                }
                self.stmt_expr(e, rest, env, k)
            }
        }
    }

    /// the value of `e` where the branches of `if`/`match`/blocks may end in `return`
    fn tail_value(&mut self, e: &Expr, env: &Env, hint: Option<&Ty>) -> R<(G, Ty)> {
        match e {
            Expr::Paren(p) => self.tail_value(&p.expr, env, hint),
            Expr::Group(p) => self.tail_value(&p.expr, env, hint),
            Expr::If(i) => {
                let h = hint.cloned();
                self.build_if(i, env, &mut |tr, stmts, env2| tr.block(stmts, env2, &K::Value(h.clone())))
            }
            Expr::Match(m) => {
                let h = hint.cloned();
                self.build_match(m, env, &mut |tr, body, env2| tr.tail_value(body, env2, h.as_ref()))
            }
            Expr::Block(b) if b.label.is_none() => self.block(&b.block.stmts, env, &K::Value(hint.cloned())),
            // the value of a closure that returns a future is what the future returns
            Expr::Async(a) if env.events_enum.is_some() => self.block(&a.block.stmts, env, &K::Value(hint.cloned())),
            Expr::Return(r) => match &r.expr {
                Some(x) => {
                    if env.mutating {
                        return self.err(r.span(), "`return value` in a `&mut self` method");
                    }
                    let ret = env.ret.clone();
                    let (g, t) = self.expr(x, env, ret.as_ref())?;
                    let (g, _) = self.leaf_wrap(env, g, t);
                    Ok((g, Ty::Never))
                }
                None => Ok((raw("tt"), Ty::Never)),
            },
            _ => {
                let (g, t) = self.expr(e, env, hint)?;
                Ok(self.leaf_wrap(env, g, t))
            }
        }
    }

    /// a leaf of the value of a `let` whose expression contains a `return` (see `K::Bind`)
    fn tail_bind(&mut self, e: &Expr, env: &Env, kb: &K) -> R<(G, Ty)> {
        match e {
            Expr::Paren(p) => self.tail_bind(&p.expr, env, kb),
            Expr::Group(p) => self.tail_bind(&p.expr, env, kb),
            Expr::If(i) => self.build_if(i, env, &mut |tr, stmts, env2| tr.block(stmts, env2, kb)),
            Expr::Match(m) => self.build_match(m, env, &mut |tr, body, env2| tr.tail_bind(body, env2, kb)),
            Expr::Block(b) if b.label.is_none() => self.block(&b.block.stmts, env, kb),
            Expr::Return(_) => self.tail_value(e, env, None),
            _ => {
                let (pat, env_let, hint, rest, k2) = match kb {
                    K::Bind(p, el, h, r, k2) => (*p, el, h, *r, *k2),
                    _ => return self.err(e.span(), "internal: tail_bind without a binding continuation"),
                };
                // `Some(x?)`: every `?` of the leaf must be evaluated whenever the leaf is; each is hoisted in front of it
                let hoist = match strict_tries(e) {
                    Some(n) => n > 0,
                    None => return self.err(e.span(), "`?` inside a branch, a closure or a lazy operand of the value of a `let`"),
                };
                let saved_slots = self.try_slots.take();
                if hoist {
                    self.try_slots = Some(Vec::new());
                }
                let r = self.expr(e, env, hint.as_ref());
                let slots = std::mem::replace(&mut self.try_slots, saved_slots).unwrap_or_default();
                let (g, t) = r?;
                let t = hint.clone().unwrap_or(t);
                // a name the branch binds must not hide a name of the enclosing block that the rest may use
                let mut bound = Vec::new();
                pat_idents(pat, &mut bound);
                for b in env.binds.iter().skip(env_let.binds.len()) {
                    if !bound.contains(&b.rust) && env_let.lookup(&b.rust).is_some() {
                        return self.err(e.span(), format!("`{}` bound inside the value of a `let` hides an outer binding", b.rust));
                    }
                }
                let mut env2 = env_let.clone();
                let binder = match pat {
                    Pat::Tuple(_) => format!("'{}", self.pattern(pat, &t, &mut env2)?),
                    _ => self.pattern(pat, &t, &mut env2)?,
                };
                let (body, bt) = self.block(rest, &env2, k2)?;
                let mut whole = mk_let(binder, Box::new(g), Box::new(body));
                for (n, ge) in slots.into_iter().rev() {
                    whole = G::Match(Box::new(ge), vec![(format!("inl {n}"), whole), ("inr e".into(), raw("inr e"))]);
                }
                Ok((whole, bt))
            }
        }
    }

    fn build_if(&mut self, i: &syn::ExprIf, env: &Env, f: &mut BlockFn<'_, 'u>) -> R<(G, Ty)> {
        let sp = i.span();
        let else_part = |tr: &mut Tr<'u>, f: &mut BlockFn<'_, 'u>| -> R<(G, Ty)> {
            match &i.else_branch {
                None => f(tr, &[], env),
                Some((_, e)) => match &**e {
                    Expr::Block(b) => f(tr, &b.block.stmts, env),
                    Expr::If(i2) => tr.build_if(i2, env, f),
                    other => tr.err(other.span(), "unsupported else branch"),
                },
            }
        };
        if let Expr::Let(l) = &*i.cond {
            let (s, st) = self.expr(&l.expr, env, None)?;
            let mut env2 = env.clone();
            let pat = self.pattern(&l.pat, &st, &mut env2)?;
            let (a, ta) = f(self, &i.then_branch.stmts, &env2)?;
            let mut arms = vec![(pat, a)];
            let mut t = ta;
            if !self.is_irrefutable(&l.pat, env) {
                let (b, tb) = else_part(self, f)?;
                t = pick_ty(t, tb);
                arms.push(("_".into(), b));
            }
            return Ok((G::Match(Box::new(s), arms), t));
        }
        let (c, ct) = self.expr(&i.cond, env, Some(&Ty::Bool))?;
        if ct != Ty::Bool {
            return self.err(sp, "condition is not a boolean");
        }
        let (a, ta) = f(self, &i.then_branch.stmts, env)?;
        let (b, tb) = else_part(self, f)?;
        Ok((G::If(Box::new(c), Box::new(a), Box::new(b)), pick_ty(ta, tb)))
    }

    fn build_match(
        &mut self,
        m: &syn::ExprMatch,
        env: &Env,
        f: &mut dyn FnMut(&mut Tr<'u>, &Expr, &Env) -> R<(G, Ty)>,
    ) -> R<(G, Ty)> {
        let (s, st) = self.expr(&m.expr, env, None)?;
        let mut arms = Vec::new();
        let mut t = Ty::Never;
        for arm in &m.arms {
            let arm: &Arm = arm;
            match cfg_state(&arm.attrs) {
                Some(true) => {}
                Some(false) => continue,
                None => return self.err(arm.span(), "cfg predicate on a match arm is not decided (see cfg_features)"),
            }
            let mut env2 = env.clone();
            // a string literal / string constant as a pattern: `_` guarded by the equality test (fifth round)
            let str_test = if st == Ty::Str { self.str_pattern_test(&arm.pat, &s, env)? } else { None };
            let pat = match &str_test {
                Some(_) => "_".to_owned(),
                None => match self.pattern(&arm.pat, &st, &mut env2) {
                    Ok(p) => p,
                    // the arm can only match variants left out by enum_subset
                    Err(e) if e.excluded => continue,
                    Err(e) => return Err(e),
                },
            };
            let guard = match &arm.guard {
                Some((_, g)) => Some(self.expr(g, &env2, Some(&Ty::Bool))?.0),
                None => None,
            };
            let guard = match (str_test.clone(), guard) {
                (Some(a), Some(b)) => Some(app("andb", vec![a, b])),
                (Some(a), None) => Some(a),
                (None, g) => g,
            };
            let (body, bt) = f(self, &arm.body, &env2)?;
            t = pick_ty(t, bt);
            arms.push(ArmG { pat, guard, body, irrefutable: str_test.is_some() || self.is_irrefutable(&arm.pat, env) });
        }
        if arms.is_empty() {
            return self.err(m.span(), "match without arms in this configuration");
        }
        match assemble_match(&s, &arms) {
            Ok(g) => Ok((g, t)),
            Err(msg) => self.err(m.span(), msg),
        }
    }

    /// `let (a, b) = { stmts; (ea, eb) }; rest` as `stmts; let a = ea; let b = eb; rest` (None: not of that shape). Sound
    /// only if the block's own locals cannot be mistaken for outer ones afterwards and the components do not depend on
    /// the order in which they are bound: both are checked.
    fn flatten_tuple_let(&mut self, pt: &syn::PatTuple, eb: &syn::ExprBlock, rest: &[Stmt], env: &Env) -> R<Option<Vec<Stmt>>> {
        if eb.label.is_some() || self.spec.module.is_none() {
            return Ok(None);
        }
        let (tail, inner) = match eb.block.stmts.split_last() {
            Some((Stmt::Expr(Expr::Tuple(tt), None), inner)) if tt.elems.len() == pt.elems.len() => (tt, inner),
            _ => return Ok(None),
        };
        let mut names: Vec<Option<String>> = Vec::new();
        for p in &pt.elems {
            match p {
                Pat::Ident(i) if i.subpat.is_none() => names.push(Some(i.ident.to_string())),
                Pat::Wild(_) => names.push(None),
                _ => return Ok(None),
            }
        }
        // no exit out of the block other than through its end
        let blk = Block { brace_token: Default::default(), stmts: inner.to_vec() };
        if contains_return_block(&blk) {
            return Ok(None);
        }
        // a local of the block must not hide an outer name the rest could mean
        let mut bound = Vec::new();
        for s in inner {
            match s {
                Stmt::Local(l) => pat_idents(&l.pat, &mut bound),
                Stmt::Item(_) => return Ok(None),
                _ => {}
            }
        }
        for b in &bound {
            if !names.iter().any(|n| n.as_deref() == Some(b.as_str())) && env.lookup(b).is_some() {
                return self.err(eb.span(), format!("`{b}`, a local of the block a tuple `let` is bound to, hides an outer binding"));
            }
        }
        let mut synth: Vec<Stmt> = inner.to_vec();
        poison_macro_mutated(&mut synth, &blk, &self.spec.ignore_macros);
        for (i, (n, e)) in names.iter().zip(tail.elems.iter()).enumerate() {
            let same = matches!((n, strip_refs(e)), (Some(n), Expr::Path(p)) if p.path.is_ident(n.as_str()));
            if same && bound.iter().any(|b| Some(b) == n.as_ref()) {
                // `(.., x, ..)` bound to the pattern's `x`: the block's own `let x` is the binding
                continue;
            }
            let used = idents_of(e);
            for earlier in names[..i].iter().flatten() {
                if used.contains(earlier) {
                    return self.err(e.span(), "a component of the tuple a `let` is bound to uses a name another component binds");
                }
            }
            let text = match n {
                Some(n) => format!("let {n} = {};", e.to_token_stream()),
                None => format!("let _ = {};", e.to_token_stream()),
            };
            match syn::parse_str::<Stmt>(&text) {
                Ok(st) => synth.push(st),
                Err(_) => return Ok(None),
            }
        }
        synth.extend(rest.iter().cloned());
        Ok(Some(synth))
    }

    /// `"lit"` / `Type::CONST` (a string constant) / an or-pattern of these against a string scrutinee: the equality
    /// test the pattern stands for; None: some other pattern
    fn str_pattern_test(&mut self, p: &Pat, scrut: &G, env: &Env) -> R<Option<G>> {
        match p {
            Pat::Paren(x) => self.str_pattern_test(&x.pat, scrut, env),
            Pat::Reference(x) => self.str_pattern_test(&x.pat, scrut, env),
            Pat::Lit(l) => match &l.lit {
                Lit::Str(_) => {
                    let (g, _) = self.lit(&l.lit, Some(&Ty::Str), p.span())?;
                    Ok(Some(app("String.eqb", vec![scrut.clone(), g])))
                }
                _ => Ok(None),
            },
            Pat::Path(pp) => match self.resolve_path(&pp.path, env)? {
                Some(Resolved::Const(t, c)) => {
                    let (g, ty) = self.ensure_const(&t, &c, p.span())?;
                    if ty != Ty::Str {
                        return self.err(p.span(), "a constant that is not a string as a pattern against a string");
                    }
                    Ok(Some(app("String.eqb", vec![scrut.clone(), g])))
                }
                _ => Ok(None),
            },
            Pat::Or(o) => {
                let mut tests = Vec::new();
                for c in &o.cases {
                    match self.str_pattern_test(c, scrut, env)? {
                        Some(t) => tests.push(t),
                        None => return Ok(None),
                    }
                }
                let mut it = tests.into_iter();
                let first = match it.next() {
                    Some(f) => f,
                    None => return Ok(None),
                };
                Ok(Some(it.fold(first, |a, b| app("orb", vec![a, b]))))
            }
            _ => Ok(None),
        }
    }

    /// an expression in statement position, followed by `rest`
    fn stmt_expr(&mut self, e: &Expr, rest: &[Stmt], env: &Env, k: &K) -> R<(G, Ty)> {
        let sp = e.span();
        match e {
            Expr::Paren(p) => self.stmt_expr(&p.expr, rest, env, k),
            Expr::Group(p) => self.stmt_expr(&p.expr, rest, env, k),
            Expr::Return(r) => match &r.expr {
                Some(x) => {
                    if env.mutating {
                        return self.err(sp, "`return value` in a `&mut self` method");
                    }
                    let ret = env.ret.clone();
                    let (g, t) = self.expr(x, env, ret.as_ref())?;
                    Ok(self.leaf_wrap(env, g, t))
                }
                None => {
                    if env.mutating {
                        Ok((raw("self"), Ty::Struct(env.self_ty.clone().unwrap_or_default())))
                    } else {
                        Ok((raw("tt"), Ty::Unit))
                    }
                }
            },
            Expr::Try(tr) => {
                // `e?;`: the Ok value is dropped, the Err case leaves the function with the same error
                let (g, t) = self.expr(&tr.expr, env, None)?;
                let b = match &t {
                    Ty::Result(_, b) => (**b).clone(),
                    _ => return self.err(sp, format!("`?` on a value of type {}", t.coq())),
                };
                match &env.ret {
                    Some(Ty::Result(_, b2)) if **b2 == b => {}
                    _ => return self.err(sp, "`?` whose error type is not the error type of the function"),
                }
                let (body, bt) = self.block(rest, env, k)?;
                Ok((G::Match(Box::new(g), vec![("inl _".into(), body), ("inr e".into(), raw("inr e"))]), bt))
            }
            Expr::Continue(c) if env.loop_body && c.label.is_none() => {
                // the body of the loop is translated on its own: `continue` ends it with the current state
                let base = base_k(k).clone();
                self.finish(env, &base, sp)
            }
            Expr::Assign(_) | Expr::Binary(_) => {
                let (target, rhs, add) = match e {
                    Expr::Assign(a) => (&*a.left, &*a.right, false),
                    Expr::Binary(b) if matches!(b.op, BinOp::AddAssign(_)) => (&*b.left, &*b.right, true),
                    _ => return self.err(sp, format!("unsupported statement `{}`", norm(e))),
                };
                if let Expr::Path(p) = target {
                    if let Some(id) = p.path.get_ident() {
                        let n = id.to_string();
                        if let Some((_, cn, vt)) = env.vars.iter().find(|(r, _, _)| *r == n).cloned() {
                            let (r, rt) = self.expr(rhs, env, Some(&vt))?;
                            let newv = if add {
                                if vt != Ty::N {
                                    return self.err(sp, "`+=` on a local that is not an unsigned integer");
                                }
                                app("N.add", vec![raw(cn.clone()), r])
                            } else {
                                r
                            };
                            // a local declared as `None` gets its type from the first assignment
                            let mut env2 = env.clone();
                            let merged = pick_ty(vt.clone(), rt);
                            for v in env2.vars.iter_mut() {
                                if v.0 == n {
                                    v.2 = merged.clone();
                                }
                            }
                            for b in env2.binds.iter_mut().rev() {
                                if b.rust == n {
                                    b.ty = merged.clone();
                                    break;
                                }
                            }
                            let (body, bt) = self.block(rest, &env2, k)?;
                            return Ok((G::Let(cn, Box::new(newv), Box::new(body)), bt));
                        }
                        if env.ignore_assign.iter().any(|i| *i == n) {
                            self.notes.push(format!(
                                "{}:{}: the update of the captured counter `{n}` is dropped (it does not influence the translated value)",
                                self.cur_file,
                                sp.start().line
                            ));
                            return self.block(rest, env, k);
                        }
                    }
                }
                let fname = match target {
                    Expr::Field(f) if is_self_path(&f.base) => match &f.member {
                        Member::Named(i) => i.to_string(),
                        _ => return self.err(sp, "assignment to a tuple field"),
                    },
                    _ => return self.err(sp, "assignment to something other than a field of `self`"),
                };
                if !env.mutating {
                    return self.err(sp, "assignment in a function without `&mut self`");
                }
                let sname = env.self_ty.clone().unwrap_or_default();
                let (setter, fty) = self.ensure_setter(&sname, &fname, sp)?;
                let (r, _) = self.expr(rhs, env, Some(&fty))?;
                let newv = if add {
                    if fty != Ty::N {
                        return self.err(sp, "`+=` on a field that is not an unsigned integer");
                    }
                    app("N.add", vec![app(&format!("{sname}_{fname}"), vec![raw("self")]), r])
                } else {
                    r
                };
                let (body, bt) = self.block(rest, env, k)?;
                Ok((mk_let("self".into(), Box::new(app(&setter, vec![newv, raw("self")])), Box::new(body)), bt))
            }
            Expr::ForLoop(fl) if fl.label.is_none() => {
                let assigned: Vec<String> = {
                    let a = assigned_idents(e);
                    env.vars.iter().filter(|(r, _, _)| a.contains(r)).map(|(_, c, _)| c.clone()).collect()
                };
                if assigned.is_empty() {
                    return self.err(sp, "`for` loop that updates no threaded local");
                }
                let body_expr = Expr::Block(syn::ExprBlock { attrs: vec![], label: None, block: fl.body.clone() });
                if contains_return_expr(&body_expr) || contains_continue_expr(&body_expr) || {
                    struct B(bool);
                    impl<'ast> syn::visit::Visit<'ast> for B {
                        fn visit_expr_break(&mut self, _: &'ast syn::ExprBreak) {
                            self.0 = true;
                        }
                        fn visit_expr_closure(&mut self, _: &'ast syn::ExprClosure) {}
                        fn visit_item(&mut self, _: &'ast Item) {}
                    }
                    let mut b = B(false);
                    syn::visit::Visit::visit_block(&mut b, &fl.body);
                    b.0
                } {
                    return self.err(sp, "`for` loop with `return` / `break` / `continue` inside");
                }
                let (lg, lt) = self.expr(&fl.expr, env, None)?;
                let elem = match lt {
                    Ty::List(t) => *t,
                    Ty::Option(t) => {
                        // (an Option iterates over at most one element)
                        let _ = t;
                        return self.err(sp, "`for` over an Option");
                    }
                    other => return self.err(sp, format!("`for` over a value of type {}", other.coq())),
                };
                let mut env2 = env.clone();
                let pb = match &*fl.pat {
                    Pat::Tuple(_) => format!("'{}", self.pattern(&fl.pat, &elem, &mut env2)?),
                    p => self.pattern(p, &elem, &mut env2)?,
                };
                let (bg, _) = self.block(&fl.body.stmts, &env2, &K::Vars(assigned.clone()))?;
                let f = raw(format!(
                    "(fun acc elem => let {} := acc in let {} := elem in\n      {})",
                    vars_binder(&assigned),
                    pb,
                    bg.render(6)
                ));
                let fold = app("List.fold_left", vec![f, lg, raw(vars_tuple(&assigned))]);
                let (body, bt) = self.block(rest, env, k)?;
                Ok((G::Let(vars_binder(&assigned), Box::new(fold), Box::new(body)), bt))
            }
            Expr::MethodCall(_) if self.ignorable_method_stmt(e) => {
                self.notes.push(format!(
                    "{}:{}: statement dropped: only calls of ignore_methods ({})",
                    self.cur_file,
                    sp.start().line,
                    {
                        let t = norm(e);
                        if t.len() > 60 { format!("{}...", &t[..60]) } else { t }
                    }
                ));
                self.block(rest, env, k)
            }
            Expr::If(_) | Expr::Match(_) => {
                // (a branch that sends an event is followed to the end of the closure like one that returns: the events
                // are recorded per path)
                let sends = match &env.events_enum {
                    Some(en) => sent_event(&Stmt::Expr(e.clone(), None), en).is_some(),
                    None => false,
                };
                let has_ret = contains_return_expr(e) || (env.loop_body && contains_continue_expr(e)) || sends;
                let assigned: Vec<String> = {
                    let a = assigned_idents(e);
                    env.vars.iter().filter(|(r, _, _)| a.contains(r)).map(|(_, c, _)| c.clone()).collect()
                };
                if !has_ret && !assigned.is_empty() {
                    // a transformer of the threaded locals it assigns
                    let kk = K::Vars(assigned.clone());
                    let (g, _) = match e {
                        Expr::If(i) => self.build_if(i, env, &mut |tr, stmts, env2| tr.block(stmts, env2, &kk))?,
                        Expr::Match(m) => self.build_match(m, env, &mut |tr, body, env2| tr.arm_stmts(body, env2, &kk))?,
                        _ => unreachable!(),
                    };
                    let (body, bt) = self.block(rest, env, k)?;
                    return Ok((G::Let(vars_binder(&assigned), Box::new(g), Box::new(body)), bt));
                }
                if !has_ret && self.log_only_expr(e) {
                    self.notes.push(format!(
                        "{}:{}: statement dropped: its branches only log (its conditions are not translated)",
                        self.cur_file,
                        sp.start().line
                    ));
                    return self.block(rest, env, k);
                }
                let state = env.cur_state();
                if has_ret || state.is_none() {
                    if !has_ret {
                        return self.err(sp, "statement without an effect on the result");
                    }
                    // the rest of the enclosing block is continued inside every branch
                    let cont = K::Then(rest, env.clone(), k);
                    match e {
                        Expr::If(i) => self.build_if(i, env, &mut |tr, stmts, env2| tr.block(stmts, env2, &cont)),
                        Expr::Match(m) => self.build_match(m, env, &mut |tr, body, env2| tr.arm_stmts(body, env2, &cont)),
                        _ => unreachable!(),
                    }
                } else {
                    // no return inside: the statement is a state transformer
                    let (g, _) = match e {
                        Expr::If(i) => self.build_if(i, env, &mut |tr, stmts, env2| tr.block(stmts, env2, &K::State))?,
                        Expr::Match(m) => self.build_match(m, env, &mut |tr, body, env2| tr.arm_stmts(body, env2, &K::State))?,
                        _ => unreachable!(),
                    };
                    let (body, bt) = self.block(rest, env, k)?;
                    Ok((mk_let(state.unwrap().0, Box::new(g), Box::new(body)), bt))
                }
            }
            Expr::Block(b) if b.label.is_none() => {
                let cont = K::Then(rest, env.clone(), k);
                self.block(&b.block.stmts, env, &cont)
            }
            Expr::MethodCall(m) if env.cur_state().is_some() && env.is_state_expr(&m.receiver) => {
                let (sc, sname) = env.cur_state().unwrap();
                let key = format!("{sname}::{}", m.method);
                let fi = self.ensure_fn(&key, sp)?;
                if !fi.mutating {
                    return self.err(sp, "statement without an effect on the result");
                }
                if fi.partial {
                    return self.err(sp, format!("`{key}` has opaque inputs or untranslated parameters"));
                }
                let args: Vec<&Expr> = m.args.iter().collect();
                let mut gs = vec![raw(sc.clone())];
                gs.extend(self.call_args(args, &fi.params, env, sp)?);
                let (body, bt) = self.block(rest, env, k)?;
                Ok((mk_let(sc, Box::new(app(&fi.coq, gs)), Box::new(body)), bt))
            }
            Expr::Macro(m) if self.macro_ignorable(&m.mac) => self.block(rest, env, k),
            _ => self.err(sp, format!("unsupported statement `{}`", {
                let s = norm(e);
                if s.len() > 80 { format!("{}...", &s[..80]) } else { s }
            })),
        }
    }

    /// a match arm body in statement position
    fn arm_stmts(&mut self, body: &Expr, env: &Env, k: &K) -> R<(G, Ty)> {
        match body {
            Expr::Block(b) if b.label.is_none() => self.block(&b.block.stmts, env, k),
            other => {
                let one = [Stmt::Expr(other.clone(), Some(Default::default()))];
                self.block(&one, env, k)
            }
        }
    }

    // ---------------------------------------------------------------------------------- functions

    fn ensure_fn(&mut self, key: &str, sp: Span) -> R<FnInfo> {
        if let Some(fi) = self.funcs.get(key) {
            return Ok(fi.clone());
        }
        let tag = format!("fn {key}");
        if self.in_progress.contains(&tag) {
            return self.err(sp, format!("recursive function `{key}`"));
        }
        let u = self.u;
        let (file, sig, body, self_ty): (usize, &Signature, &Block, Option<String>) = match key.split_once("::") {
            Some((t, m)) => match one(u.methods.get(&(t.to_owned(), m.to_owned())), &format!("method {key}")) {
                Ok(a) => (a.file, &a.item.sig, &a.item.block, Some(t.to_owned())),
                Err(msg) => return self.err(sp, msg),
            },
            None => match one(u.fns.get(key), &format!("function {key}")) {
                Ok(a) => (a.file, &a.item.sig, &*a.item.block, None),
                Err(msg) => return self.err(sp, msg),
            },
        };
        self.in_progress.push(tag);
        let saved = std::mem::replace(&mut self.cur_file, u.files[file].clone());
        let r = self.translate_fn(key, sig, body, self_ty);
        self.cur_file = saved;
        self.in_progress.pop();
        r
    }

    /// the opaque inputs met so far (callee key, parameter name, type), in the order of the spec's
    /// opaque_calls list (not of occurrence, which a harmless rewrite may change)
    fn opaque_in_spec_order(&self) -> Vec<(String, String, Ty)> {
        let mut ops: Vec<(usize, String, String, Ty)> = Vec::new();
        for (site, n, t) in &self.opaque {
            let key = site.split('@').next().unwrap_or("").to_owned();
            if ops.iter().any(|(_, k, _, _)| *k == key) {
                continue;
            }
            let pos = match key.strip_prefix("probe:") {
                // probes come after the opaque calls, in the order of the spec's `probes` list
                Some(pn) => self.spec.probes.iter().position(|p| p.name == pn).map(|i| self.spec.opaque_calls.len() + i).unwrap_or(usize::MAX - 1),
                None => self.spec.opaque_calls.iter().position(|k| *k == key).unwrap_or(usize::MAX),
            };
            ops.push((pos, key, n.clone(), t.clone()));
        }
        ops.sort_by_key(|(i, _, _, _)| *i);
        ops.into_iter().map(|(_, k, n, t)| (k, n, t)).collect()
    }

    fn translate_fn(&mut self, key: &str, sig: &Signature, body: &Block, self_ty: Option<String>) -> R<FnInfo> {
        let sp = sig.span();
        if sig.asyncness.is_some() || sig.unsafety.is_some() || sig.constness.is_some() && false {
            return self.err(sp, "async/unsafe function");
        }
        if sig.generics.type_params().next().is_some() || sig.generics.const_params().next().is_some() {
            return self.err(sp, "generic function");
        }
        let coq = key.replace("::", "_");
        let mut env = Env { self_ty: self_ty.clone(), ..Env::default() };
        let mut binders = Vec::new();
        let mut params = Vec::new();
        let mut has_self = false;
        let mut partial = false;
        let mut untranslated = false;
        let saved_opaque = std::mem::take(&mut self.opaque);
        let r = (|| -> R<FnInfo> {
        for a in &sig.inputs {
            match a {
                FnArg::Receiver(r) => {
                    let st = match &self_ty {
                        Some(s) => s.clone(),
                        None => return self.err(sp, "`self` outside an impl"),
                    };
                    let t = self.named_ty(&st, sp)?;
                    if r.mutability.is_some() {
                        if r.reference.is_none() {
                            return self.err(sp, "`mut self` by value");
                        }
                        // a view has no assignable field: `&mut self` on it can only reach state
                        // through calls, which are either translated (and rejected if mutating) or opaque
                        let is_view = matches!(self.types.get(&st), Some(TypeInfo::Rec(ri)) if ri.view);
                        env.mutating = !is_view;
                    }
                    has_self = true;
                    binders.push(format!("(self : {})", t.coq()));
                    env.binds.push(Bind { rust: "self".into(), coq: "self".into(), ty: t, poisoned: None });
                }
                FnArg::Typed(pt) => {
                    let t = match self.ty(&pt.ty, self_ty.as_deref()) {
                        Ok(t) => t,
                        Err(e) => {
                            // not translated: any use of it (other than as an argument of an opaque
                            // call, which is not looked at) is an error
                            let why = format!("parameter of type `{}`: {}", norm(&pt.ty), e.msg);
                            self.poison_pattern(&pt.pat, &mut env, &why, pt.span())?;
                            self.notes.push(format!("{key}: parameter `{}` is not translated ({})", norm(&pt.pat), e.msg));
                            partial = true;
                            untranslated = true;
                            continue;
                        }
                    };
                    let name = match &*pt.pat {
                        Pat::Ident(i) if i.subpat.is_none() => i.ident.to_string(),
                        Pat::Wild(_) => format!("unused{}", params.len()),
                        _ => return self.err(pt.span(), "pattern in a parameter"),
                    };
                    let cn = local_name(&name);
                    binders.push(format!("({cn} : {})", t.coq()));
                    env.binds.push(Bind { rust: name, coq: cn, ty: t.clone(), poisoned: None });
                    params.push(t);
                }
            }
        }
        let ret = match &sig.output {
            ReturnType::Default => Ty::Unit,
            ReturnType::Type(_, t) => self.ty(t, self_ty.as_deref())?,
        };
        if env.mutating && ret != Ty::Unit && ret != Ty::Struct(self_ty.clone().unwrap_or_default()) {
            return self.err(sp, "`&mut self` method that also returns a value (other than `&mut Self`)");
        }
        env.ret = Some(ret.clone());
        let (g, _) = if env.mutating {
            self.block(&body.stmts, &env, &K::State)?
        } else {
            self.block(&body.stmts, &env, &K::Value(Some(ret.clone())))?
        };
        let rty = if env.mutating { Ty::Struct(self_ty.clone().unwrap()) } else { ret };
        // opaque inputs in the order of the spec's opaque_calls list (not of occurrence, which a
        // harmless rewrite may change)
        let ops = self.opaque_in_spec_order();
        for (_, n, t) in &ops {
            binders.push(format!("({n} : {})", t.coq()));
            partial = true;
        }
        let text = format!("Definition {coq} {} : {} :=\n  {}.", binders.join(" "), rty.coq(), g.render(2));
        let mut hashed = sig.to_token_stream();
        hashed.extend(body.to_token_stream());
        let origin = format!("{}:{} fn {key} {}", self.cur_file, sig.ident.span().start().line, tok_hash(hashed));
        let fi = FnInfo { coq: coq.clone(), has_self, mutating: env.mutating, params, ret: rty, partial, untranslated, opaque: ops };
        self.funcs.insert(key.to_owned(), fi.clone());
        self.emit(&coq, text, origin);
        Ok(fi)
        })();
        self.opaque = saved_opaque;
        r
    }
}
