// Part of src/bin/decisions.rs (include!): requests that translate a FRAGMENT of a large function as a
// function of declared free variables (DESIGN 11.7, second round):
//
//   local_value   the value of one expression of a function -- an argument of a call, the value of a
//                 `let`, a field of a struct literal -- with the `let`s it depends on
//   after_call    what a function does with the value of one call (`f(..)?; Ok(0)` vs `f(..)`)
//   loop_tail     the `if`/`match` a `loop` body ends in: which branch leaves the loop, which goes
//                 round again, and which events each one sends
//   guard_prefix  the `if c { continue; }` / `if c { return false; }` guards at the head of a block
//   call_trace    the ordered, guarded method calls made on an object (a `Command` being set up)
//
// Everything that is left out is named in the header of the generated file.

use syn::visit::Visit;

type FnParts<'u> = (usize, &'u Signature, &'u Block, Option<String>);

/// all identifiers of a token stream (an over-approximation of the free variables of an expression)
fn idents_of(ts: impl ToTokens) -> BTreeSet<String> {
    fn go(ts: proc_macro2::TokenStream, out: &mut BTreeSet<String>) {
        for t in ts {
            match t {
                proc_macro2::TokenTree::Ident(i) => {
                    out.insert(i.to_string());
                }
                proc_macro2::TokenTree::Group(g) => go(g.stream(), out),
                _ => {}
            }
        }
    }
    let mut out = BTreeSet::new();
    go(ts.to_token_stream(), &mut out);
    out
}

/// the `let`s of `scope` (oldest first) an expression with the identifiers `needed` depends on: the
/// nearest binding of each name, transitively; a name that is a declared free variable is an input
fn needed_lets(scope: &[syn::Local], mut needed: BTreeSet<String>, declared: &BTreeSet<String>) -> Vec<syn::Local> {
    let mut used: Vec<syn::Local> = Vec::new();
    for l in scope.iter().rev() {
        let mut ids = Vec::new();
        pat_idents(&l.pat, &mut ids);
        if !ids.iter().any(|i| needed.contains(i) && !declared.contains(i)) {
            continue;
        }
        for i in &ids {
            needed.remove(i);
        }
        if let Some(init) = &l.init {
            needed.extend(idents_of(&init.expr));
        }
        used.push(l.clone());
    }
    used.reverse();
    used
}

/// `let mut x = e;` among `stmts` where `x` occurs in the tokens of a macro invocation of `region` (other than the logging
/// macros): `x` may be assigned inside the macro, which is not parsed; the value is replaced by something outside the
/// subset, so that the binding is poisoned (using it is an error that says why)
fn poison_macro_mutated(stmts: &mut [Stmt], region: &Block, ignore: &[String]) {
    struct Macs<'m> {
        ignore: &'m [String],
        idents: BTreeSet<String>,
    }
    impl<'m, 'ast> Visit<'ast> for Macs<'m> {
        fn visit_macro(&mut self, m: &'ast syn::Macro) {
            let name = m.path.segments.last().map(|s| s.ident.to_string()).unwrap_or_default();
            if !self.ignore.iter().any(|i| *i == name) {
                self.idents.extend(idents_of(&m.tokens));
            }
        }
        fn visit_item(&mut self, _: &'ast Item) {}
    }
    let mut macs = Macs { ignore, idents: BTreeSet::new() };
    macs.visit_block(region);
    fn mut_names(p: &Pat, out: &mut Vec<String>) {
        match p {
            Pat::Ident(i) if i.mutability.is_some() => out.push(i.ident.to_string()),
            Pat::Type(t) => mut_names(&t.pat, out),
            Pat::Tuple(t) => t.elems.iter().for_each(|e| mut_names(e, out)),
            Pat::Paren(r) => mut_names(&r.pat, out),
            _ => {}
        }
    }
    for s in stmts.iter_mut() {
        if let Stmt::Local(l) = s {
            let mut names = Vec::new();
            mut_names(&l.pat, &mut names);
            if names.iter().any(|n| macs.idents.contains(n)) {
                if let Some(init) = &mut l.init {
                    if let Ok(e) = syn::parse_str::<Expr>("may_be_assigned_inside_a_macro_invocation!()") {
                        init.expr = Box::new(e);
                        init.diverge = None;
                    }
                }
            }
        }
    }
}

fn pat_idents(p: &Pat, out: &mut Vec<String>) {
    match p {
        Pat::Ident(i) => out.push(i.ident.to_string()),
        Pat::Type(t) => pat_idents(&t.pat, out),
        Pat::Tuple(t) => t.elems.iter().for_each(|e| pat_idents(e, out)),
        Pat::Reference(r) => pat_idents(&r.pat, out),
        Pat::Paren(r) => pat_idents(&r.pat, out),
        Pat::TupleStruct(t) => t.elems.iter().for_each(|e| pat_idents(e, out)),
        Pat::Struct(s) => s.fields.iter().for_each(|f| pat_idents(&f.pat, out)),
        _ => {}
    }
}

fn call_name(e: &Expr) -> Option<String> {
    match e {
        Expr::MethodCall(m) => Some(m.method.to_string()),
        Expr::Call(c) => match &*c.func {
            Expr::Path(p) => p.path.segments.last().map(|s| s.ident.to_string()),
            _ => None,
        },
        _ => None,
    }
}

/// what a local_value request points at
enum Target {
    CallArg { name: String, arg: usize, recv_contains: Option<String> },
    Let(String),
    Field(String, String),
    /// the receiver of the method call of this name
    Recv(String),
    /// the expression a `for <pattern> in ..` loop iterates over
    ForIter(String),
    /// the tail expression of the scoped block (component i of it when it is a tuple)
    Tail(Option<usize>),
    /// the value a `let <pattern binding this name> = <value> else { .. };` tests (fifth round)
    LetElse(String),
}

/// one step of a request's `scope`: narrows the search to the body of an arm / a `for` loop / a closure
#[derive(Clone, Debug)]
enum ScopeStep {
    Arm(String),
    For(String),
    /// closure argument of the call of this name (optionally: whose first parameter is named so)
    ClosureOf(String, Option<String>),
}

fn closure_body_stmts(c: &syn::ExprClosure) -> Vec<Stmt> {
    match &*c.body {
        Expr::Block(b) if b.label.is_none() => b.block.stmts.clone(),
        Expr::Async(a) => a.block.stmts.clone(),
        other => vec![Stmt::Expr(other.clone(), None)],
    }
}

struct ScopeFinder<'a> {
    step: &'a ScopeStep,
    scope: Vec<syn::Local>,
    hits: Vec<(Vec<syn::Local>, Vec<Stmt>, Span)>,
}
impl<'a, 'ast> Visit<'ast> for ScopeFinder<'a> {
    fn visit_block(&mut self, b: &'ast Block) {
        let n = self.scope.len();
        for s in &b.stmts {
            self.visit_stmt(s);
            if let Stmt::Local(l) = s {
                self.scope.push(l.clone());
            }
        }
        self.scope.truncate(n);
    }
    fn visit_arm(&mut self, a: &'ast Arm) {
        if let ScopeStep::Arm(want) = self.step {
            if cfg_state(&a.attrs) != Some(false) && norm(&a.pat).starts_with(want.as_str()) {
                let stmts = match &*a.body {
                    Expr::Block(b) if b.label.is_none() => b.block.stmts.clone(),
                    other => vec![Stmt::Expr(other.clone(), None)],
                };
                self.hits.push((self.scope.clone(), stmts, a.span()));
                return;
            }
        }
        syn::visit::visit_arm(self, a);
    }
    fn visit_expr_for_loop(&mut self, l: &'ast syn::ExprForLoop) {
        if let ScopeStep::For(want) = self.step {
            if norm(&l.pat) == *want {
                self.hits.push((self.scope.clone(), l.body.stmts.clone(), l.span()));
                return;
            }
        }
        syn::visit::visit_expr_for_loop(self, l);
    }
    fn visit_expr(&mut self, e: &'ast Expr) {
        if let ScopeStep::ClosureOf(name, param) = self.step {
            if call_name(e).as_deref() == Some(name.as_str()) {
                let args: Vec<&Expr> = match e {
                    Expr::MethodCall(m) => m.args.iter().collect(),
                    Expr::Call(c) => c.args.iter().collect(),
                    _ => vec![],
                };
                for a in args {
                    if let Expr::Closure(c) = a {
                        let first = c.inputs.first().map(|p| match p {
                            Pat::Type(pt) => norm(&pt.pat),
                            p => norm(p),
                        });
                        let ok = match param {
                            None => true,
                            Some(want) => first.as_deref().map(|f| f.trim_start_matches("mut") == want.as_str()).unwrap_or(false),
                        };
                        if ok {
                            self.hits.push((self.scope.clone(), closure_body_stmts(c), c.span()));
                        }
                    }
                }
            }
        }
        syn::visit::visit_expr(self, e);
    }
    fn visit_item(&mut self, _: &'ast Item) {}
}

/// finds the target expression and the `let`s in scope before it
struct Locator<'a> {
    target: &'a Target,
    scope: Vec<syn::Local>,
    hits: Vec<(Vec<syn::Local>, Expr, Span)>,
    /// only hits in direct statements of the outermost block count
    top: bool,
    depth: usize,
}

impl<'a> Locator<'a> {
    fn counts(&self) -> bool {
        !self.top || self.depth <= 1
    }
}

impl<'a, 'ast> Visit<'ast> for Locator<'a> {
    fn visit_block(&mut self, b: &'ast Block) {
        let n = self.scope.len();
        self.depth += 1;
        for s in &b.stmts {
            self.visit_stmt(s);
            if let Stmt::Local(l) = s {
                self.scope.push(l.clone());
            }
        }
        if self.depth == 1 {
            if let Target::Tail(comp) = self.target {
                if let Some(Stmt::Expr(e, None)) = b.stmts.last() {
                    let picked = match (comp, e) {
                        (Some(i), Expr::Tuple(t)) => t.elems.iter().nth(*i).cloned(),
                        (Some(_), _) => None,
                        (None, e) => Some(e.clone()),
                    };
                    if let Some(x) = picked {
                        // (the `let`s of the whole block are in scope of its tail)
                        self.hits.push((self.scope.clone(), x, e.span()));
                    }
                }
            }
        }
        self.depth -= 1;
        self.scope.truncate(n);
    }
    fn visit_expr_for_loop(&mut self, l: &'ast syn::ExprForLoop) {
        if let Target::ForIter(p) = self.target {
            if norm(&l.pat) == *p && self.counts() {
                self.hits.push((self.scope.clone(), (*l.expr).clone(), l.span()));
            }
        }
        syn::visit::visit_expr_for_loop(self, l);
    }
    fn visit_local(&mut self, l: &'ast syn::Local) {
        if !self.counts() {
            syn::visit::visit_local(self, l);
            return;
        }
        if let Target::Let(name) = self.target {
            let mut ids = Vec::new();
            pat_idents(&l.pat, &mut ids);
            if ids.iter().any(|i| i == name) {
                if let Some(init) = &l.init {
                    self.hits.push((self.scope.clone(), (*init.expr).clone(), l.span()));
                }
            }
        }
        if let Target::LetElse(name) = self.target {
            let mut ids = Vec::new();
            pat_idents(&l.pat, &mut ids);
            if ids.iter().any(|i| i == name) {
                if let Some(init) = &l.init {
                    if init.diverge.is_some() {
                        self.hits.push((self.scope.clone(), (*init.expr).clone(), l.span()));
                    }
                }
            }
        }
        syn::visit::visit_local(self, l);
    }
    fn visit_expr(&mut self, e: &'ast Expr) {
        if !self.counts() {
            syn::visit::visit_expr(self, e);
            return;
        }
        match self.target {
            Target::Recv(name) => {
                if let Expr::MethodCall(m) = e {
                    if m.method == name.as_str() {
                        self.hits.push((self.scope.clone(), (*m.receiver).clone(), e.span()));
                    }
                }
            }
            Target::ForIter(_) | Target::Tail(_) | Target::LetElse(_) => {}
            Target::CallArg { name, arg, recv_contains } => {
                if call_name(e).as_deref() == Some(name.as_str()) {
                    let (args, recv): (Vec<&Expr>, String) = match e {
                        Expr::MethodCall(m) => (m.args.iter().collect(), norm(&m.receiver)),
                        Expr::Call(c) => (c.args.iter().collect(), norm(&c.func)),
                        _ => (vec![], String::new()),
                    };
                    let ok = recv_contains.as_ref().map(|r| recv.contains(&r.replace(' ', ""))).unwrap_or(true);
                    if ok {
                        if let Some(a) = args.get(*arg) {
                            self.hits.push((self.scope.clone(), (*a).clone(), e.span()));
                        }
                    }
                }
            }
            Target::Field(sn, f) => {
                if let Expr::Struct(s) = e {
                    if s.path.segments.last().map(|x| x.ident == sn).unwrap_or(false) {
                        for fv in &s.fields {
                            if matches!(&fv.member, Member::Named(i) if i == f) {
                                self.hits.push((self.scope.clone(), fv.expr.clone(), fv.span()));
                            }
                        }
                    }
                }
            }
            Target::Let(_) => {}
        }
        syn::visit::visit_expr(self, e);
    }
    fn visit_item(&mut self, _: &'ast Item) {}
}

/// how a branch of a loop's final `if`/`match` leaves the iteration
struct ExitScan {
    /// `break` / `continue` / `return` met (not inside a nested loop or closure)
    exits: Vec<(String, Span)>,
    events: Vec<String>,
    events_enum: String,
}
impl<'ast> Visit<'ast> for ExitScan {
    fn visit_expr(&mut self, e: &'ast Expr) {
        match e {
            Expr::Break(b) => {
                self.exits.push(("break".into(), b.span()));
                if let Some(x) = &b.expr {
                    self.visit_expr(x);
                }
                return;
            }
            Expr::Continue(c) => {
                self.exits.push(("continue".into(), c.span()));
                return;
            }
            Expr::Return(r) => {
                self.exits.push(("return".into(), r.span()));
                if let Some(x) = &r.expr {
                    self.visit_expr(x);
                }
                return;
            }
            // a nested loop has exits of its own; a closure / async block is another function
            Expr::Loop(_) | Expr::While(_) | Expr::ForLoop(_) | Expr::Closure(_) | Expr::Async(_) => {
                // events sent from inside are still events of this branch
                let mut inner = ExitScan { exits: vec![], events: vec![], events_enum: self.events_enum.clone() };
                syn::visit::visit_expr(&mut inner, e);
                self.events.extend(inner.events);
                return;
            }
            _ => {}
        }
        syn::visit::visit_expr(self, e);
    }
    fn visit_path(&mut self, p: &'ast syn::Path) {
        let segs: Vec<String> = p.segments.iter().map(|s| s.ident.to_string()).collect();
        if segs.len() >= 2 && segs[segs.len() - 2] == self.events_enum {
            self.events.push(segs[segs.len() - 1].clone());
        }
        syn::visit::visit_path(self, p);
    }
    fn visit_item(&mut self, _: &'ast Item) {}
}

fn coq_string(s: &str) -> String {
    format!("\"{}\"%string", s.replace('"', "\"\""))
}

fn coq_string_list(v: &[String]) -> String {
    let mut s = "nil".to_owned();
    for x in v.iter().rev() {
        s = format!("(cons {} {})", coq_string(x), s);
    }
    s
}

impl<'u> Tr<'u> {
    fn find_fn(&self, item: &str, sp: Span) -> R<FnParts<'u>> {
        let u = self.u;
        match item.split_once("::") {
            Some((t, m)) => match one(u.methods.get(&(t.to_owned(), m.to_owned())), &format!("method {item}")) {
                Ok(a) => Ok((a.file, &a.item.sig, &a.item.block, Some(t.to_owned()))),
                Err(msg) => self.err(sp, msg),
            },
            None => match one(u.fns.get(item), &format!("function {item}")) {
                Ok(a) => Ok((a.file, &a.item.sig, &*a.item.block, None)),
                Err(msg) => self.err(sp, msg),
            },
        }
    }

    /// the declared free variables of a request: binders of the generated definition + bindings
    fn declare_params(&mut self, rq: &Request, self_ty: Option<&str>, env: &mut Env, binders: &mut Vec<String>) -> R<()> {
        let sp = Span::call_site();
        for (text, tyname) in &rq.params {
            let ty: Type = match syn::parse_str(tyname) {
                Ok(t) => t,
                Err(e) => return self.err(sp, format!("parameter type `{tyname}`: {e}")),
            };
            let saved = self.cur_file.clone();
            let ty = self.ty(&ty, self_ty);
            self.cur_file = saved;
            let ty = ty?;
            let clean: String = text.chars().filter(|c| *c != '(' && *c != ')').map(|c| if c.is_alphanumeric() { c } else { '_' }).collect();
            let cn = local_name(clean.trim_matches('_'));
            binders.push(format!("({cn} : {})", ty.coq()));
            env.binds.push(Bind { rust: text.replace(' ', ""), coq: cn, ty, poisoned: None });
        }
        Ok(())
    }

    fn request_name(&self, rq: &Request) -> R<String> {
        match &rq.name {
            Some(n) => Ok(n.clone()),
            None => self.err(Span::call_site(), "request without a name"),
        }
    }

    fn opaque_binders(&self, binders: &mut Vec<String>) {
        for (_, n, t) in self.opaque_in_spec_order() {
            binders.push(format!("({n} : {})", t.coq()));
        }
    }

    /// narrows a function body by the request's `scope` steps -> (`let`s in scope before the block, its statements,
    /// a description for the header)
    fn resolve_scope(&self, rq: &Request, body: &Block, sp: Span) -> R<(Vec<syn::Local>, Vec<Stmt>, String)> {
        let mut cur: (Vec<syn::Local>, Vec<Stmt>) = (Vec::new(), body.stmts.clone());
        let mut text = String::new();
        for st in &rq.scope {
            let step = if let Some(a) = st.get("arm").and_then(|v| v.as_str()) {
                ScopeStep::Arm(a.replace(' ', ""))
            } else if let Some(f) = st.get("for").and_then(|v| v.as_str()) {
                ScopeStep::For(f.replace(' ', ""))
            } else if let Some(c) = st.get("closure_of").and_then(|v| v.as_str()) {
                ScopeStep::ClosureOf(c.to_owned(), st.get("param").and_then(|v| v.as_str()).map(|s| s.to_owned()))
            } else {
                return self.err(sp, "scope step must have `arm`, `for` or `closure_of`");
            };
            let blk = Block { brace_token: Default::default(), stmts: cur.1.clone() };
            let mut f = ScopeFinder { step: &step, scope: cur.0.clone(), hits: Vec::new() };
            f.visit_block(&blk);
            let d = match &step {
                ScopeStep::Arm(a) => format!("the arm `{a}..`"),
                ScopeStep::For(p) => format!("the body of `for {p}`"),
                ScopeStep::ClosureOf(c, None) => format!("the closure handed to `{c}`"),
                ScopeStep::ClosureOf(c, Some(pn)) => format!("the closure `|{pn}| ..` handed to `{c}`"),
            };
            if f.hits.len() != 1 {
                return self.err(sp, format!("`{}`: {d} was found {} times (exactly one is needed)", rq.item, f.hits.len()));
            }
            let (sc, stmts, _) = f.hits.pop().unwrap();
            cur = (sc, stmts);
            text += &format!(" in {d}");
        }
        Ok((cur.0, cur.1, text))
    }

    // ------------------------------------------------------------------------------ local_value

    fn local_value(&mut self, rq: &Request) -> R<String> {
        let sp = Span::call_site();
        let name = self.request_name(rq)?;
        let (file, sig, body, self_ty) = self.find_fn(&rq.item, sp)?;
        self.cur_file = self.u.files[file].clone();
        let of = match &rq.of {
            Some(v) => v.clone(),
            None => return self.err(sp, "local_value request without `of`"),
        };
        let target = if let Some(c) = of.get("call").and_then(|v| v.as_str()) {
            Target::CallArg {
                name: c.to_owned(),
                arg: of.get("arg").and_then(|v| v.as_u64()).unwrap_or(0) as usize,
                recv_contains: of.get("recv_contains").and_then(|v| v.as_str()).map(|s| s.to_owned()),
            }
        } else if let Some(l) = of.get("let").and_then(|v| v.as_str()) {
            Target::Let(l.to_owned())
        } else if let Some(f) = of.get("field").and_then(|v| v.as_array()) {
            match (f.first().and_then(|v| v.as_str()), f.get(1).and_then(|v| v.as_str())) {
                (Some(a), Some(b)) => Target::Field(a.to_owned(), b.to_owned()),
                _ => return self.err(sp, "local_value: `of.field` must be [Struct, field]"),
            }
        } else if let Some(r) = of.get("recv_of").and_then(|v| v.as_str()) {
            Target::Recv(r.to_owned())
        } else if let Some(r) = of.get("for_iter").and_then(|v| v.as_str()) {
            Target::ForIter(r.replace(' ', ""))
        } else if let Some(l) = of.get("let_else").and_then(|v| v.as_str()) {
            Target::LetElse(l.to_owned())
        } else if of.get("tail").is_some() {
            Target::Tail(of.get("component").and_then(|v| v.as_u64()).map(|c| c as usize))
        } else {
            return self.err(sp, "local_value: `of` must have `call`, `let`, `field`, `recv_of`, `for_iter` or `tail`");
        };
        let what = match &target {
            Target::CallArg { name, arg, .. } => format!("argument {arg} of the call of `{name}`"),
            Target::Let(l) => format!("the value of `let {l}`"),
            Target::Field(s, f) => format!("the field `{f}` of the `{s} {{ .. }}` literal"),
            Target::Recv(m) => format!("the receiver of the call of `{m}`"),
            Target::ForIter(p) => format!("what `for {p} in ..` iterates over"),
            Target::Tail(None) => "the tail expression".to_owned(),
            Target::Tail(Some(i)) => format!("component {i} of the tail expression"),
            Target::LetElse(l) => format!("the value tested by `let .. {l} .. = .. else {{ .. }}`"),
        };
        let (outer, scoped_stmts, scope_text) = self.resolve_scope(rq, body, sig.ident.span())?;
        let what = format!("{what}{scope_text}");
        let scoped_block = Block { brace_token: Default::default(), stmts: scoped_stmts };
        let mut loc = Locator { target: &target, scope: outer, hits: Vec::new(), top: rq.top, depth: 0 };
        loc.visit_block(&scoped_block);
        if loc.hits.len() != 1 {
            return self.err(
                sig.ident.span(),
                format!("`{}`: {what} was found {} times (exactly one is needed)", rq.item, loc.hits.len()),
            );
        }
        let (scope, expr, at) = loc.hits.pop().unwrap();
        if let Target::LetElse(_) = &target {
            // the else block of that `let` must hold the ONLY `return Ok(..)` of the function (closures are functions
            // of their own): every other way to leave it successfully is its end
            struct OkReturns(Vec<Span>);
            impl<'ast> Visit<'ast> for OkReturns {
                fn visit_expr_return(&mut self, r: &'ast syn::ExprReturn) {
                    if let Some(x) = &r.expr {
                        if norm(x).starts_with("Ok(") {
                            self.0.push(r.span());
                        }
                    }
                    syn::visit::visit_expr_return(self, r);
                }
                fn visit_expr_closure(&mut self, _: &'ast syn::ExprClosure) {}
                fn visit_expr_async(&mut self, _: &'ast syn::ExprAsync) {}
                fn visit_item(&mut self, _: &'ast Item) {}
            }
            let mut oks = OkReturns(Vec::new());
            oks.visit_block(body);
            let inside = |sp: &Span| {
                let (a, b, x) = (at.start(), at.end(), sp.start());
                (x.line, x.column) >= (a.line, a.column) && (x.line, x.column) <= (b.line, b.column)
            };
            if oks.0.len() != 1 || !inside(&oks.0[0]) {
                let lines: Vec<String> = oks.0.iter().map(|s| s.start().line.to_string()).collect();
                return self.err(
                    at,
                    format!("`{}`: the else block of {what} must hold the only `return Ok(..)` of the function; `return Ok(..)` at lines {}", rq.item, lines.join(", ")),
                );
            }
            self.notes.push(format!(
                "{name}: the else block of that `let` (line {}) holds the only `return Ok(..)` of {} outside closures (checked syntactically); macros are not looked into",
                at.start().line,
                rq.item
            ));
        }
        // the declared free variables
        let mut env = Env { self_ty: self_ty.clone(), allow_sub: rq.allow_sub, ignore_assign: rq.ignore_assign.clone(), ..Env::default() };
        let mut binders = Vec::new();
        self.declare_params(rq, self_ty.as_deref(), &mut env, &mut binders)?;
        self.cur_file = self.u.files[file].clone();
        let declared: BTreeSet<String> = rq.params.iter().map(|(t, _)| t.replace(' ', "")).collect();
        let used = needed_lets(&scope, idents_of(&expr), &declared);
        // a `let mut` the value depends on must not be modified between its declaration and its use, except by the
        // methods the request names (which are then declared omissions)
        {
            fn mut_idents(p: &Pat, out: &mut Vec<String>) {
                match p {
                    Pat::Ident(i) if i.mutability.is_some() => out.push(i.ident.to_string()),
                    Pat::Type(t) => mut_idents(&t.pat, out),
                    Pat::Tuple(t) => t.elems.iter().for_each(|e| mut_idents(e, out)),
                    Pat::Paren(r) => mut_idents(&r.pat, out),
                    _ => {}
                }
            }
            let mut names = Vec::new();
            for l in &used {
                mut_idents(&l.pat, &mut names);
            }
            names.retain(|n| !rq.ignore_assign.contains(n));
            struct Mods<'m> {
                names: &'m [String],
                found: Vec<(String, String, Span)>,
            }
            impl<'m, 'ast> Visit<'ast> for Mods<'m> {
                fn visit_stmt(&mut self, s: &'ast Stmt) {
                    if let Stmt::Expr(e, _) = s {
                        let mut cur = strip_wrappers(e);
                        let mut methods = Vec::new();
                        while let Expr::MethodCall(m) = cur {
                            methods.push(m.method.to_string());
                            cur = strip_wrappers(&m.receiver);
                        }
                        if let Expr::Path(p) = cur {
                            if let Some(id) = p.path.get_ident() {
                                if self.names.iter().any(|n| id == n) {
                                    for m in methods {
                                        self.found.push((id.to_string(), m, e.span()));
                                    }
                                }
                            }
                        }
                    }
                    syn::visit::visit_stmt(self, s);
                }
                fn visit_expr(&mut self, e: &'ast Expr) {
                    let target = match e {
                        Expr::Assign(a) => Some(&*a.left),
                        Expr::Binary(b) if matches!(b.op, BinOp::AddAssign(_) | BinOp::SubAssign(_) | BinOp::MulAssign(_)) => Some(&*b.left),
                        _ => None,
                    };
                    if let Some(Expr::Path(p)) = target {
                        if let Some(id) = p.path.get_ident() {
                            if self.names.iter().any(|n| id == n) {
                                self.found.push((id.to_string(), "=".into(), e.span()));
                            }
                        }
                    }
                    syn::visit::visit_expr(self, e);
                }
                fn visit_item(&mut self, _: &'ast Item) {}
            }
            let mut mods = Mods { names: &names, found: vec![] };
            mods.visit_block(body);
            for (n, m, at) in mods.found {
                if m == "=" {
                    return self.err(at, format!("`{n}`, which {what} depends on, is assigned again after its `let`"));
                }
                if self.spec.ignore_methods.iter().any(|i| *i == m) {
                    continue;
                }
                if rq.inplace.iter().any(|i| *i == m) {
                    self.notes.push(format!(
                        "{name}: `{n}` is also modified in place by `{m}` ({}:{}), which is not translated: the generated value is the one before that call",
                        self.u.files[file],
                        at.start().line
                    ));
                } else {
                    return self.err(at, format!("`{n}`, which {what} depends on, is modified in place by `{m}` (not listed under `inplace`)"));
                }
            }
        }
        let mut stmts: Vec<Stmt> = used.into_iter().map(Stmt::Local).collect();
        // a `let mut` that is mentioned inside a macro invocation (`tokio::select!`) may be assigned there, where the
        // check above cannot look: its binding is not usable
        poison_macro_mutated(&mut stmts, body, &self.spec.ignore_macros);
        stmts.push(Stmt::Expr(expr.clone(), None));
        let hint = match &rq.ty {
            Some(t) => {
                let ty: Type = match syn::parse_str(t) {
                    Ok(t) => t,
                    Err(e) => return self.err(sp, format!("type `{t}`: {e}")),
                };
                let r = self.ty(&ty, self_ty.as_deref());
                self.cur_file = self.u.files[file].clone();
                Some(r?)
            }
            None => None,
        };
        let saved_opaque = std::mem::take(&mut self.opaque);
        let r = self.block(&stmts, &env, &K::Value(hint.clone()));
        let r = r.map(|(g, t)| {
            self.opaque_binders(&mut binders);
            (g, t)
        });
        self.opaque = saved_opaque;
        let (g, t) = r?;
        let t = hint.unwrap_or(t);
        let text = format!("Definition {name} {} : {} :=\n  {}.", binders.join(" "), t.coq(), g.render(2));
        let mut hashed = expr.to_token_stream();
        for s in &stmts {
            hashed.extend(s.to_token_stream());
        }
        let origin = format!("{}:{} {what} in fn {} {}", self.u.files[file], at.start().line, rq.item, tok_hash(hashed));
        self.notes.push(format!(
            "{name} is {what} in {} as a function of {} (and of the `let`s before it that it uses); the rest of that function is not translated",
            rq.item,
            rq.params.iter().map(|(a, _)| format!("`{a}`")).collect::<Vec<_>>().join(", ")
        ));
        self.emit(&name, text, origin);
        Ok(name)
    }

    // ------------------------------------------------------------------------------- after_call

    fn after_call(&mut self, rq: &Request) -> R<String> {
        let sp = Span::call_site();
        let name = self.request_name(rq)?;
        let (file, sig, body, self_ty) = self.find_fn(&rq.item, sp)?;
        self.cur_file = self.u.files[file].clone();
        let callee = match &rq.call {
            Some(c) => c.clone(),
            None => return self.err(sp, "after_call request without `call`"),
        };
        // the block to look in: the body, or one arm of the `match` the body ends in
        let stmts: &[Stmt] = match &rq.arm {
            None => &body.stmts,
            Some(arm) => {
                let want = arm.replace(' ', "");
                let mm = match body.stmts.last() {
                    Some(Stmt::Expr(Expr::Match(mm), _)) => mm,
                    _ => return self.err(sig.ident.span(), format!("the body of `{}` does not end in a `match`", rq.item)),
                };
                let found: Vec<&Arm> = mm.arms.iter().filter(|a| cfg_state(&a.attrs) != Some(false) && norm(&a.pat).starts_with(&want)).collect();
                if found.len() != 1 {
                    return self.err(mm.span(), format!("{} arms of the final `match` of `{}` start with `{arm}`", found.len(), rq.item));
                }
                match &*found[0].body {
                    Expr::Block(b) => &b.block.stmts,
                    other => return self.err(other.span(), "the arm is not a block"),
                }
            }
        };
        // the statement with the call
        let is_call = |e: &Expr| call_name(e).as_deref() == Some(callee.as_str());
        struct Find<'f> {
            pred: &'f dyn Fn(&Expr) -> bool,
            found: Vec<Expr>,
        }
        impl<'f, 'ast> Visit<'ast> for Find<'f> {
            fn visit_expr(&mut self, e: &'ast Expr) {
                if (self.pred)(e) {
                    self.found.push(e.clone());
                }
                syn::visit::visit_expr(self, e);
            }
            fn visit_item(&mut self, _: &'ast Item) {}
        }
        let mut at: Option<(usize, Expr)> = None;
        for (i, s) in stmts.iter().enumerate() {
            let mut f = Find { pred: &is_call, found: vec![] };
            f.visit_stmt(s);
            for c in f.found {
                if at.is_some() {
                    return self.err(c.span(), format!("`{callee}` is called more than once"));
                }
                at = Some((i, c));
            }
        }
        let (idx, call_expr) = match at {
            Some(x) => x,
            None => return self.err(sig.ident.span(), format!("no call of `{callee}` at the top level of the block")),
        };
        // its type: the declared return type of the (unique) method / function of that name
        let u = self.u;
        let mut cands: Vec<(usize, &Signature, Option<String>)> = Vec::new();
        for ((t, m), v) in &u.methods {
            if *m == callee {
                for a in v {
                    cands.push((a.file, &a.item.sig, Some(t.clone())));
                }
            }
        }
        if let Some(v) = u.fns.get(&callee) {
            for a in v {
                cands.push((a.file, &a.item.sig, None));
            }
        }
        if cands.len() != 1 {
            return self.err(call_expr.span(), format!("`{callee}` is declared {} times in the listed files", cands.len()));
        }
        let (cfile, csig, cself) = cands.pop().unwrap();
        let crt = match &csig.output {
            ReturnType::Type(_, t) => (**t).clone(),
            ReturnType::Default => return self.err(call_expr.span(), format!("`{callee}` returns nothing")),
        };
        self.cur_file = u.files[cfile].clone();
        let cty = self.ty(&crt, cself.as_deref());
        self.cur_file = u.files[file].clone();
        let cty = cty?;
        let ret = match &sig.output {
            ReturnType::Default => Ty::Unit,
            ReturnType::Type(_, ty) => {
                let r = self.ty(ty, self_ty.as_deref());
                self.cur_file = u.files[file].clone();
                r?
            }
        };
        let mut env = Env { self_ty: self_ty.clone(), ret: Some(ret.clone()), ..Env::default() };
        let mut binders = Vec::new();
        self.declare_params(rq, self_ty.as_deref(), &mut env, &mut binders)?;
        self.cur_file = u.files[file].clone();
        let cn = format!("v_{callee}_value");
        binders.push(format!("({cn} : {})", cty.coq()));
        env.binds.push(Bind { rust: norm(&call_expr), coq: cn, ty: cty, poisoned: None });
        let (g, _) = self.block(&stmts[idx..], &env, &K::Value(Some(ret.clone())))?;
        let text = format!("Definition {name} {} : {} :=\n  {}.", binders.join(" "), ret.coq(), g.render(2));
        let mut hashed = proc_macro2::TokenStream::new();
        for s in &stmts[idx..] {
            hashed.extend(s.to_token_stream());
        }
        let origin = format!(
            "{}:{} what fn {}{} does with the value of `{callee}(..)` {}",
            u.files[file],
            call_expr.span().start().line,
            rq.item,
            rq.arm.as_ref().map(|a| format!(" (arm {a})")).unwrap_or_default(),
            tok_hash(hashed)
        );
        self.notes.push(format!(
            "{name} is the part of {}{} from the call of `{callee}` to the end of the block, as a function of the value of that call; what comes before the call is not translated",
            rq.item,
            rq.arm.as_ref().map(|a| format!(", arm `{a}`,")).unwrap_or_default()
        ));
        self.emit(&name, text, origin);
        Ok(name)
    }

    // -------------------------------------------------------------------------------- loop_tail

    fn ensure_loop_exit(&mut self) {
        if self.helpers.insert("LoopExit".into()) {
            self.emit(
                "LoopExit",
                "Inductive LoopExit :=\n| LoopExit_Break\n| LoopExit_Continue\n| LoopExit_Return.".into(),
                "how a branch of the final `if`/`match` of a loop body leaves the iteration (loop_tail requests)".into(),
            );
        }
    }

    fn branch_outcome(&mut self, stmts: &[Stmt], events_enum: &str) -> R<(G, Ty)> {
        let mut scan = ExitScan { exits: vec![], events: vec![], events_enum: events_enum.to_owned() };
        for s in stmts {
            scan.visit_stmt(s);
        }
        // the exit, if any, must be the last statement of the branch (not conditional, not followed by code)
        let last_exit = match stmts.last() {
            Some(Stmt::Expr(Expr::Break(_), _)) => Some("break"),
            Some(Stmt::Expr(Expr::Continue(_), _)) => Some("continue"),
            Some(Stmt::Expr(Expr::Return(_), _)) => Some("return"),
            _ => None,
        };
        let expected = if last_exit.is_some() { 1 } else { 0 };
        if scan.exits.len() != expected {
            let sp = scan.exits.first().map(|(_, s)| *s).unwrap_or_else(Span::call_site);
            return self.err(sp, "a branch of the loop's final `if`/`match` has a `break`/`continue`/`return` that is not its last statement");
        }
        let exit = match last_exit {
            Some("break") => "LoopExit_Break",
            Some("return") => "LoopExit_Return",
            _ => "LoopExit_Continue",
        };
        Ok((raw(format!("({exit}, {})", coq_string_list(&scan.events))), Ty::Unit))
    }

    fn loop_tail(&mut self, rq: &Request) -> R<String> {
        let sp = Span::call_site();
        let name = self.request_name(rq)?;
        let (file, sig, body, self_ty) = self.find_fn(&rq.item, sp)?;
        self.cur_file = self.u.files[file].clone();
        let events_enum = rq.events.clone().unwrap_or_default();
        struct Loops(Vec<syn::ExprLoop>);
        impl<'ast> Visit<'ast> for Loops {
            fn visit_expr_loop(&mut self, l: &'ast syn::ExprLoop) {
                self.0.push(l.clone());
                // nested loops are not looked for
            }
            fn visit_expr_closure(&mut self, _: &'ast syn::ExprClosure) {}
            fn visit_item(&mut self, _: &'ast Item) {}
        }
        let mut ls = Loops(vec![]);
        ls.visit_block(body);
        if ls.0.len() != 1 {
            return self.err(sig.ident.span(), format!("`{}` has {} `loop`s at its top level (exactly one is needed)", rq.item, ls.0.len()));
        }
        let lp = ls.0.pop().unwrap();
        let last = match lp.body.stmts.last() {
            Some(Stmt::Expr(e, _)) if matches!(e, Expr::If(_) | Expr::Match(_)) => e.clone(),
            _ => return self.err(lp.span(), "the loop body does not end in an `if` or a `match`"),
        };
        self.ensure_loop_exit();
        let mut env = Env { self_ty: self_ty.clone(), ..Env::default() };
        let mut binders = Vec::new();
        self.declare_params(rq, self_ty.as_deref(), &mut env, &mut binders)?;
        self.cur_file = self.u.files[file].clone();
        // the `let`s of the loop body the conditions depend on
        let declared: BTreeSet<String> = rq.params.iter().map(|(t, _)| t.replace(' ', "")).collect();
        let scope: Vec<syn::Local> = lp.body.stmts[..lp.body.stmts.len() - 1]
            .iter()
            .filter_map(|s| if let Stmt::Local(l) = s { Some(l.clone()) } else { None })
            .collect();
        let cond_idents = match &last {
            Expr::If(_) => {
                // conditions only: the branches are not translated
                fn conds(e: &Expr, out: &mut BTreeSet<String>) {
                    if let Expr::If(i) = e {
                        out.extend(idents_of(&i.cond));
                        if let Some((_, b)) = &i.else_branch {
                            conds(b, out);
                        }
                    }
                }
                let mut o = BTreeSet::new();
                conds(&last, &mut o);
                o
            }
            Expr::Match(m) => {
                let mut o = idents_of(&m.expr);
                for a in &m.arms {
                    if let Some((_, g)) = &a.guard {
                        o.extend(idents_of(g));
                    }
                }
                o
            }
            _ => BTreeSet::new(),
        };
        let mut lets: Vec<(String, G)> = Vec::new();
        for l in needed_lets(&scope, cond_idents, &declared) {
            let (pat, annot) = match &l.pat {
                Pat::Type(pt) => (&*pt.pat, Some(&*pt.ty)),
                p => (p, None),
            };
            let translated: R<(String, G, Env)> = (|| {
                let init = match &l.init {
                    Some(i) if i.diverge.is_none() => &*i.expr,
                    _ => return self.err(l.span(), "`let` without a plain value"),
                };
                let hint = match annot {
                    Some(t) => Some(self.ty(t, self_ty.as_deref())?),
                    None => None,
                };
                let (g, t) = self.expr(init, &env, hint.as_ref())?;
                let t = hint.unwrap_or(t);
                let mut env2 = env.clone();
                let b = match pat {
                    Pat::Ident(_) | Pat::Wild(_) => self.pattern(pat, &t, &mut env2)?,
                    Pat::Tuple(_) => format!("'{}", self.pattern(pat, &t, &mut env2)?),
                    _ => return self.err(l.span(), "unsupported pattern in `let`"),
                };
                Ok((b, g, env2))
            })();
            self.cur_file = self.u.files[file].clone();
            match translated {
                Ok((b, g, env2)) => {
                    env = env2;
                    lets.push((b, g));
                }
                Err(e) => {
                    let why = format!("{} (line {})", e.msg, e.line);
                    self.poison_pattern(pat, &mut env, &why, l.span())?;
                }
            }
        }
        let ev = events_enum.clone();
        let (g, _) = match &last {
            Expr::If(i) => self.build_if(i, &env, &mut |tr, stmts, _| tr.branch_outcome(stmts, &ev))?,
            Expr::Match(m) => self.build_match(m, &env, &mut |tr, body, _| match body {
                Expr::Block(b) if b.label.is_none() => tr.branch_outcome(&b.block.stmts, &ev),
                other => tr.branch_outcome(&[Stmt::Expr(other.clone(), None)], &ev),
            })?,
            _ => unreachable!(),
        };
        let mut g = g;
        for (b, e) in lets.into_iter().rev() {
            g = G::Let(b, Box::new(e), Box::new(g));
        }
        let text = format!("Definition {name} {} : (LoopExit * list string) :=\n  {}.", binders.join(" "), g.render(2));
        let origin = format!(
            "{}:{} final `if`/`match` of the loop body of fn {} {}",
            self.u.files[file],
            last.span().start().line,
            rq.item,
            tok_hash(&last)
        );
        self.notes.push(format!(
            "{name} is the `if`/`match` the loop body of {} ends in, as a function of {}: per branch, how it leaves the iteration (break / go round again / return) and which {} variants it names; the statements of the branches are not translated",
            rq.item,
            rq.params.iter().map(|(a, _)| format!("`{a}`")).collect::<Vec<_>>().join(", "),
            events_enum
        ));
        self.emit(&name, text, origin);
        Ok(name)
    }

    // ----------------------------------------------------------------------------- guard_prefix

    fn guard_prefix(&mut self, rq: &Request) -> R<String> {
        let sp = Span::call_site();
        let name = self.request_name(rq)?;
        let (file, sig, body, self_ty) = self.find_fn(&rq.item, sp)?;
        self.cur_file = self.u.files[file].clone();
        let exit = rq.exit.clone().unwrap_or_else(|| "return false".into()).replace(' ', "");
        let stmts: Vec<Stmt> = match &rq.in_loop {
            None => body.stmts.clone(),
            Some(pat) => {
                struct Fors(Vec<syn::ExprForLoop>, String);
                impl<'ast> Visit<'ast> for Fors {
                    fn visit_expr_for_loop(&mut self, l: &'ast syn::ExprForLoop) {
                        if norm(&l.pat) == self.1 {
                            self.0.push(l.clone());
                        }
                        syn::visit::visit_expr_for_loop(self, l);
                    }
                    fn visit_item(&mut self, _: &'ast Item) {}
                }
                let mut fs = Fors(vec![], pat.replace(' ', ""));
                fs.visit_block(body);
                if fs.0.len() != 1 {
                    return self.err(sig.ident.span(), format!("`{}` has {} loops `for {pat} in ..` (exactly one is needed)", rq.item, fs.0.len()));
                }
                fs.0.pop().unwrap().body.stmts
            }
        };
        let mut env = Env { self_ty: self_ty.clone(), ret: Some(Ty::Bool), ..Env::default() };
        let mut binders = Vec::new();
        self.declare_params(rq, self_ty.as_deref(), &mut env, &mut binders)?;
        self.cur_file = self.u.files[file].clone();
        // the longest prefix made of translatable `let`s and of guards `if c { <exit>; }`
        enum Piece {
            Let(String, G),
            Guard(G),
        }
        let mut pieces: Vec<Piece> = Vec::new();
        let mut guards = 0usize;
        let mut end_line = 0usize;
        let mut why = String::from("end of the block");
        let mut hashed = proc_macro2::TokenStream::new();
        for s in &stmts {
            end_line = s.span().start().line;
            match s {
                Stmt::Local(l) => {
                    let (pat, annot) = match &l.pat {
                        Pat::Type(pt) => (&*pt.pat, Some(&*pt.ty)),
                        p => (p, None),
                    };
                    let init = match &l.init {
                        Some(i) if i.diverge.is_none() => &*i.expr,
                        _ => {
                            why = "a `let` without a plain value".into();
                            break;
                        }
                    };
                    let hint = match annot {
                        Some(t) => match self.ty(t, self_ty.as_deref()) {
                            Ok(t) => Some(t),
                            Err(e) => {
                                why = e.msg;
                                break;
                            }
                        },
                        None => None,
                    };
                    match self.expr(init, &env, hint.as_ref()) {
                        Ok((g, t)) => {
                            let t = hint.unwrap_or(t);
                            let mut env2 = env.clone();
                            let binder = match pat {
                                Pat::Ident(_) | Pat::Wild(_) => self.pattern(pat, &t, &mut env2),
                                Pat::Tuple(_) => self.pattern(pat, &t, &mut env2).map(|p| format!("'{p}")),
                                _ => self.err(l.span(), "unsupported pattern in `let`"),
                            };
                            match binder {
                                Ok(b) => {
                                    env = env2;
                                    pieces.push(Piece::Let(b, g));
                                    hashed.extend(s.to_token_stream());
                                }
                                Err(e) => {
                                    why = e.msg;
                                    break;
                                }
                            }
                        }
                        Err(e) => {
                            why = e.msg;
                            break;
                        }
                    }
                }
                Stmt::Expr(Expr::If(i), _) if i.else_branch.is_none() && !matches!(&*i.cond, Expr::Let(_)) => {
                    let body_text: String = i.then_branch.stmts.iter().map(|s| norm(s)).collect::<Vec<_>>().join("");
                    if body_text.trim_end_matches(';') != exit.trim_end_matches(';') {
                        why = format!("an `if` whose body is not `{{ {}; }}`", rq.exit.clone().unwrap_or_default());
                        break;
                    }
                    match self.expr(&i.cond, &env, Some(&Ty::Bool)) {
                        Ok((c, Ty::Bool)) => {
                            pieces.push(Piece::Guard(c));
                            guards += 1;
                            hashed.extend(s.to_token_stream());
                        }
                        Ok(_) => {
                            why = "a condition that is not a boolean".into();
                            break;
                        }
                        Err(e) => {
                            why = e.msg;
                            break;
                        }
                    }
                }
                Stmt::Macro(sm) if self.macro_ignorable(&sm.mac) => {}
                _ => {
                    why = "a statement that is neither a `let` nor a guard".into();
                    break;
                }
            }
        }
        // trailing `let`s belong to what follows
        while matches!(pieces.last(), Some(Piece::Let(..))) {
            pieces.pop();
        }
        if guards == 0 {
            return self.err(sig.ident.span(), format!("no guard `if c {{ {}; }}` at the head of the block (stopped at line {end_line}: {why})", rq.exit.clone().unwrap_or_default()));
        }
        let mut g = raw("true");
        for p in pieces.into_iter().rev() {
            g = match p {
                Piece::Guard(c) => G::If(Box::new(c), Box::new(raw("false")), Box::new(g)),
                Piece::Let(b, e) => G::Let(b, Box::new(e), Box::new(g)),
            };
        }
        let text = format!("Definition {name} {} : bool :=\n  {}.", binders.join(" "), g.render(2));
        let origin = format!(
            "{}:{} the {guards} guards at the head of {} of fn {} {}",
            self.u.files[file],
            stmts.first().map(|s| s.span().start().line).unwrap_or(0),
            match &rq.in_loop {
                Some(p) => format!("the body of `for {p}`"),
                None => "the body".into(),
            },
            rq.item,
            tok_hash(hashed)
        );
        self.notes.push(format!(
            "{name} is true when none of the leading guards `if c {{ {}; }}` of {} fires ({guards} guards; the prefix ends before line {end_line}: {why}); what follows is not translated",
            rq.exit.clone().unwrap_or_default(),
            rq.item
        ));
        self.emit(&name, text, origin);
        Ok(name)
    }
}

// ------------------------------------------------------------------------------------ call_trace

#[derive(Clone, Debug)]
enum TraceItem {
    /// a call on the object: (method, abstract arguments)
    Event(String, Vec<String>),
    /// a conditional part: a term of type list (string * list string)
    Cond(G),
    /// a translated `let` the following conditions may use
    Let(String, G),
}

fn render_trace(items: &[TraceItem]) -> G {
    let mut g = raw("nil");
    for it in items.iter().rev() {
        g = match it {
            TraceItem::Event(m, args) => raw(format!("(cons ({}, {}) {})", coq_string(m), coq_string_list(args), g.atom(0))),
            TraceItem::Cond(c) => match &g {
                G::Raw(r) if r == "nil" => c.clone(),
                _ => app("app", vec![c.clone(), g]),
            },
            TraceItem::Let(b, e) => G::Let(b.clone(), Box::new(e.clone()), Box::new(g)),
        };
    }
    g
}

fn abstract_arg(e: &Expr, fmt: bool) -> String {
    match e {
        Expr::Lit(l) => match &l.lit {
            Lit::Str(s) => s.value(),
            Lit::Int(i) => i.base10_digits().to_owned(),
            Lit::Bool(b) => b.value.to_string(),
            _ => "?".into(),
        },
        Expr::Reference(r) => abstract_arg(&r.expr, fmt),
        Expr::Paren(p) => abstract_arg(&p.expr, fmt),
        // `format!("LITERAL_{x}")`: the literal text
        Expr::Macro(m) if fmt && m.mac.path.is_ident("format") => match m.mac.parse_body_with(syn::punctuated::Punctuated::<Expr, syn::Token![,]>::parse_terminated) {
            Ok(args) => match args.first() {
                Some(Expr::Lit(syn::ExprLit { lit: Lit::Str(s), .. })) => s.value(),
                _ => "?".into(),
            },
            Err(_) => "?".into(),
        },
        // a constructor-like call without arguments: `Stdio::null()`
        Expr::Call(c) if c.args.is_empty() => match &*c.func {
            Expr::Path(p) if p.path.segments.len() >= 2 => {
                let n = p.path.segments.len();
                format!("{}::{}()", p.path.segments[n - 2].ident, p.path.segments[n - 1].ident)
            }
            _ => "?".into(),
        },
        _ => "?".into(),
    }
}

struct TraceCx {
    recvs: BTreeSet<String>,
    inline: Vec<String>,
    stack: Vec<String>,
    /// the request's `opaque_conditions`
    opaque_conds: bool,
    /// the boolean inputs created for conditions that do not translate
    conds: Vec<String>,
}

impl TraceCx {
    /// `x`, `&mut x`, `x.field`, `&mut x.field` for a receiver x
    fn is_recv(&self, e: &Expr) -> bool {
        match e {
            Expr::Path(p) => p.path.get_ident().map(|i| self.recvs.contains(&i.to_string())).unwrap_or(false),
            Expr::Reference(r) => self.is_recv(&r.expr),
            Expr::Paren(p) => self.is_recv(&p.expr),
            Expr::Field(f) => self.is_recv(&f.base),
            Expr::Unary(u) if matches!(u.op, UnOp::Deref(_)) => self.is_recv(&u.expr),
            _ => false,
        }
    }
}

fn only_events(items: &[TraceItem]) -> Option<Vec<(String, Vec<String>)>> {
    items
        .iter()
        .map(|i| match i {
            TraceItem::Event(m, a) => Some((m.clone(), a.clone())),
            _ => None,
        })
        .collect()
}

impl<'u> Tr<'u> {
    fn trace_block(&mut self, stmts: &[Stmt], env: &Env, cx: &mut TraceCx) -> R<Vec<TraceItem>> {
        let mut env = env.clone();
        let mut out = Vec::new();
        let added: Vec<String> = Vec::new();
        let _ = added;
        for s in stmts {
            match s {
                Stmt::Local(l) => {
                    let (pat, annot) = match &l.pat {
                        Pat::Type(pt) => (&*pt.pat, Some(&*pt.ty)),
                        p => (p, None),
                    };
                    let init = match &l.init {
                        Some(i) => &*i.expr,
                        None => continue,
                    };
                    let mut ids = Vec::new();
                    pat_idents(pat, &mut ids);
                    let binds_recv = ids.iter().any(|i| cx.recvs.contains(i));
                    let root = chain_root(init);
                    if binds_recv {
                        if root.map(|r| cx.is_recv(r)).unwrap_or(false) {
                            // `let command_mut = cmd.command_mut();`, `let mut cmd = cmd.into();`: another name
                            // of the same object
                            continue;
                        }
                        let how = call_name(strip_wrappers(init)).unwrap_or_else(|| "?".into());
                        out.push(TraceItem::Event("new".into(), vec![how]));
                        continue;
                    }
                    let inner = self.trace_expr(init, &env, cx)?;
                    if !inner.is_empty() {
                        out.extend(inner);
                        continue;
                    }
                    // a plain `let`: kept when it translates (later conditions may use it)
                    let hint = match annot {
                        Some(t) => self.ty(t, env.self_ty.as_deref()).ok(),
                        None => None,
                    };
                    let saved_notes = self.notes.len();
                    match self.expr(init, &env, hint.as_ref()) {
                        Ok((g, t)) => {
                            let t = hint.unwrap_or(t);
                            let mut env2 = env.clone();
                            if let Pat::Ident(_) = pat {
                                if let Ok(b) = self.pattern(pat, &t, &mut env2) {
                                    env = env2;
                                    out.push(TraceItem::Let(b, g));
                                }
                            }
                        }
                        Err(e) => {
                            self.notes.truncate(saved_notes);
                            let why = format!("{} (line {})", e.msg, e.line);
                            let _ = self.poison_pattern(pat, &mut env, &why, l.span());
                        }
                    }
                }
                Stmt::Expr(e, _) => out.extend(self.trace_expr(e, &env, cx)?),
                Stmt::Macro(_) | Stmt::Item(_) => {}
            }
        }
        // a `let` that nothing after it can use is dropped
        while matches!(out.last(), Some(TraceItem::Let(..))) {
            out.pop();
        }
        Ok(out)
    }

    fn trace_expr(&mut self, e: &Expr, env: &Env, cx: &mut TraceCx) -> R<Vec<TraceItem>> {
        match e {
            Expr::Paren(p) => self.trace_expr(&p.expr, env, cx),
            Expr::Group(p) => self.trace_expr(&p.expr, env, cx),
            Expr::Try(t) => self.trace_expr(&t.expr, env, cx),
            Expr::Await(a) => self.trace_expr(&a.base, env, cx),
            Expr::Reference(r) => self.trace_expr(&r.expr, env, cx),
            Expr::Assign(a) => self.trace_expr(&a.right, env, cx),
            Expr::Block(b) => self.trace_block(&b.block.stmts, env, cx),
            Expr::Unsafe(b) => self.trace_block(&b.block.stmts, env, cx),
            Expr::Call(c) => {
                // `Some(f(&mut cmd)?)`, `Ok(..)`: look inside
                let fname = call_name(e).unwrap_or_default();
                let mut out = Vec::new();
                let recv_arg = c.args.iter().position(|a| cx.is_recv(a));
                match recv_arg {
                    None => {
                        for a in &c.args {
                            out.extend(self.trace_expr(a, env, cx)?);
                        }
                    }
                    Some(pos) => {
                        let args: Vec<&Expr> = c.args.iter().collect();
                        out.extend(self.trace_handed_on(&fname, None, &args, pos, env, cx, e.span())?);
                    }
                }
                Ok(out)
            }
            Expr::MethodCall(m) => {
                let args: Vec<&Expr> = m.args.iter().collect();
                if let Some(pos) = args.iter().position(|a| cx.is_recv(a)) {
                    // the object is handed to a method of something else
                    return self.trace_handed_on(&m.method.to_string(), None, &args, pos, env, cx, e.span());
                }
                if cx.is_recv(&m.receiver) {
                    let name = m.method.to_string();
                    if cx.inline.iter().any(|i| i.rsplit("::").next() == Some(name.as_str()) && i.contains("::")) {
                        if let Some(items) = self.trace_inline_method(&name, &args, env, cx, e.span())? {
                            return Ok(items);
                        }
                    }
                    return Ok(vec![TraceItem::Event(name, args.iter().map(|a| abstract_arg(a, cx.opaque_conds)).collect())]);
                }
                // a chain: the calls nearer to the object come first
                let mut out = self.trace_expr(&m.receiver, env, cx)?;
                let inner_followed = call_name(strip_wrappers(&m.receiver))
                    .map(|n| cx.inline.iter().any(|i| i.rsplit("::").next() == Some(n.as_str())))
                    .unwrap_or(false);
                if matches!(out.last(), Some(TraceItem::Event(..)))
                    && !inner_followed
                    && matches!(&*m.receiver, Expr::MethodCall(_))
                    && chain_root(&m.receiver).map(|r| cx.is_recv(r)).unwrap_or(false)
                {
                    out.push(TraceItem::Event(m.method.to_string(), args.iter().map(|a| abstract_arg(a, cx.opaque_conds)).collect()));
                    return Ok(out);
                }
                for a in &m.args {
                    out.extend(self.trace_expr(a, env, cx)?);
                }
                Ok(out)
            }
            Expr::If(_) | Expr::Match(_) => self.trace_branching(e, env, cx),
            Expr::ForLoop(fl) if cx.opaque_conds => {
                // calls made in a loop: once, marked `*` (any number of times, in this order per turn)
                let inner = self.trace_block(&fl.body.stmts, env, cx)?;
                if inner.is_empty() {
                    return Ok(vec![]);
                }
                match only_events(&inner) {
                    Some(evs) => Ok(evs.into_iter().map(|(m, a)| TraceItem::Event(format!("*{m}"), a)).collect()),
                    None => self.err(e.span(), "calls on the object under a condition inside a `for` loop"),
                }
            }
            _ => Ok(vec![]),
        }
    }

    /// the traces of the branches of an `if` / `match`, without looking at the conditions
    fn branch_traces(&mut self, e: &Expr, env: &Env, cx: &mut TraceCx) -> R<Vec<Vec<TraceItem>>> {
        let mut out = Vec::new();
        match e {
            Expr::If(i) => {
                out.push(self.trace_block(&i.then_branch.stmts, env, cx)?);
                match &i.else_branch {
                    None => out.push(vec![]),
                    Some((_, b)) => match &**b {
                        Expr::If(_) => out.extend(self.branch_traces(b, env, cx)?),
                        Expr::Block(bl) => out.push(self.trace_block(&bl.block.stmts, env, cx)?),
                        other => out.push(self.trace_expr(other, env, cx)?),
                    },
                }
            }
            Expr::Match(m) => {
                for a in &m.arms {
                    if cfg_state(&a.attrs) == Some(false) {
                        continue;
                    }
                    out.push(self.trace_expr(&a.body, env, cx)?);
                }
            }
            _ => {}
        }
        Ok(out)
    }

    fn trace_branching(&mut self, e: &Expr, env: &Env, cx: &mut TraceCx) -> R<Vec<TraceItem>> {
        // pattern variables are unknown here: a poisoned copy of the environment is not needed because the
        // branch traces only translate `let`s they can
        let saved_notes = self.notes.len();
        let branches = self.branch_traces(e, env, cx)?;
        if branches.iter().all(|b| b.is_empty()) {
            self.notes.truncate(saved_notes);
            return Ok(vec![]);
        }
        // the conditions translate: a conditional trace
        let saved_out = self.out.len();
        let attempt: R<(G, Ty)> = {
            let cxp: *mut TraceCx = cx;
            match e {
                Expr::If(i) => self.build_if(i, env, &mut |tr, stmts, env2| {
                    // SAFETY: cx outlives the closure and is not otherwise used while it runs
                    let cx = unsafe { &mut *cxp };
                    let items = tr.trace_block(stmts, env2, cx)?;
                    Ok((render_trace(&items), Ty::Unit))
                }),
                Expr::Match(m) => self.build_match(m, env, &mut |tr, body, env2| {
                    let cx = unsafe { &mut *cxp };
                    let items = tr.trace_expr(body, env2, cx)?;
                    Ok((render_trace(&items), Ty::Unit))
                }),
                _ => unreachable!(),
            }
        };
        match attempt {
            Ok((g, _)) => Ok(vec![TraceItem::Cond(g)]),
            Err(cond_err) => {
                let _ = saved_out;
                // the conditions do not translate: the branches must make the same calls; arguments
                // that differ become "?"
                let evs: Option<Vec<Vec<(String, Vec<String>)>>> = branches.iter().map(|b| only_events(b)).collect();
                let evs = match evs {
                    Some(v) => v,
                    None => return Err(cond_err),
                };
                let first = evs[0].clone();
                let mut merged = first.clone();
                for b in &evs[1..] {
                    if b.len() != first.len() || b.iter().zip(&first).any(|(x, y)| x.0 != y.0 || x.1.len() != y.1.len()) {
                        if cx.opaque_conds && branches.len() == 2 && matches!(e, Expr::If(_) | Expr::Match(_)) {
                            // the condition is an input of the generated definition
                            let c = format!("c{}", cx.conds.len() + 1);
                            cx.conds.push(c.clone());
                            self.notes.push(format!(
                                "{}:{}: the condition of this `if` / two-armed `match` is not translated ({}): it is the boolean input `{c}` of the generated definition (true: the first branch)",
                                self.cur_file,
                                e.span().start().line,
                                cond_err.msg
                            ));
                            let g = G::If(Box::new(raw(c)), Box::new(render_trace(&branches[0])), Box::new(render_trace(&branches[1])));
                            return Ok(vec![TraceItem::Cond(g)]);
                        }
                        return self.err(
                            e.span(),
                            format!(
                                "the branches make different calls on the object and the condition is not translated ({}:{}: {})",
                                cond_err.file, cond_err.line, cond_err.msg
                            ),
                        );
                    }
                    for (k, (_, args)) in b.iter().enumerate() {
                        for (j, a) in args.iter().enumerate() {
                            if merged[k].1[j] != *a {
                                merged[k].1[j] = "?".into();
                            }
                        }
                    }
                }
                self.notes.push(format!(
                    "{}:{}: the branches of this `if`/`match` make the same calls on the object; its condition is not translated ({})",
                    self.cur_file,
                    e.span().start().line,
                    cond_err.msg
                ));
                Ok(merged.into_iter().map(|(m, a)| TraceItem::Event(m, a)).collect())
            }
        }
    }

    /// the object is argument `pos` of a call of `fname`: follow the callee when the request lists it
    /// under `inline` and it is declared exactly once in the listed files, else record one event
    fn trace_handed_on(&mut self, fname: &str, _recv: Option<&Expr>, args: &[&Expr], pos: usize, env: &Env, cx: &mut TraceCx, sp: Span) -> R<Vec<TraceItem>> {
        // `inline` entries: `f` = a free function, `T::m` = a method / associated function of T
        let listed = cx.inline.iter().any(|i| i == fname || i.rsplit("::").next() == Some(fname));
        if listed {
            let u = self.u;
            let mut cands: Vec<(usize, &Signature, &Block, Option<String>)> = Vec::new();
            if cx.inline.iter().any(|i| i == fname) {
                if let Some(v) = u.fns.get(fname) {
                    for a in v {
                        cands.push((a.file, &a.item.sig, &*a.item.block, None));
                    }
                }
            }
            for ((t, m), v) in &u.methods {
                if m == fname && cx.inline.iter().any(|i| *i == format!("{t}::{m}")) {
                    for a in v {
                        if !matches!(a.item.sig.inputs.first(), Some(FnArg::Receiver(_))) {
                            cands.push((a.file, &a.item.sig, &a.item.block, Some(t.clone())));
                        }
                    }
                }
            }
            cands.retain(|(_, sig, _, _)| sig.inputs.len() == args.len());
            if cands.len() == 1 {
                let (file, sig, body, self_ty) = cands.pop().unwrap();
                let key = format!("{fname}@{}:{}", u.files[file], sig.ident.span().start().line);
                if cx.stack.iter().any(|s| *s == key) {
                    return Ok(vec![TraceItem::Event(fname.to_owned(), vec![])]);
                }
                return self.trace_callee(&key, file, sig, body, self_ty, None, args, Some(pos), env, cx, sp);
            }
            return self.err(sp, format!("`{fname}` is to be followed but is declared {} times (with {} parameters) in the listed files", cands.len(), args.len()));
        }
        Ok(vec![TraceItem::Event(fname.to_owned(), vec![])])
    }

    /// `obj.m(args)` for a method of the listed files that takes the object as `self`
    fn trace_inline_method(&mut self, name: &str, args: &[&Expr], env: &Env, cx: &mut TraceCx, sp: Span) -> R<Option<Vec<TraceItem>>> {
        let u = self.u;
        let mut cands: Vec<(usize, &Signature, &Block, Option<String>)> = Vec::new();
        for ((t, m), v) in &u.methods {
            if m == name && cx.inline.iter().any(|i| *i == format!("{t}::{m}")) {
                for a in v {
                    if matches!(a.item.sig.inputs.first(), Some(FnArg::Receiver(_))) && a.item.sig.inputs.len() == args.len() + 1 {
                        cands.push((a.file, &a.item.sig, &a.item.block, Some(t.clone())));
                    }
                }
            }
        }
        if cands.len() != 1 {
            return Ok(None);
        }
        let (file, sig, body, self_ty) = cands.pop().unwrap();
        let key = format!("{name}@{}:{}", u.files[file], sig.ident.span().start().line);
        if cx.stack.iter().any(|s| *s == key) {
            return Ok(None);
        }
        self.trace_callee(&key, file, sig, body, self_ty, Some("self"), args, None, env, cx, sp).map(Some)
    }

    #[allow(clippy::too_many_arguments)]
    fn trace_callee(
        &mut self,
        fname: &str,
        file: usize,
        sig: &Signature,
        body: &Block,
        self_ty: Option<String>,
        self_recv: Option<&str>,
        args: &[&Expr],
        recv_pos: Option<usize>,
        env: &Env,
        cx: &mut TraceCx,
        sp: Span,
    ) -> R<Vec<TraceItem>> {
        let _ = sp;
        let mut cenv = Env { self_ty: self_ty.clone(), ..Env::default() };
        let mut items: Vec<TraceItem> = Vec::new();
        let mut recvs = BTreeSet::new();
        if let Some(s) = self_recv {
            recvs.insert(s.to_owned());
        }
        let typed: Vec<&syn::PatType> = sig.inputs.iter().filter_map(|a| if let FnArg::Typed(t) = a { Some(t) } else { None }).collect();
        for (i, (pt, a)) in typed.iter().zip(args.iter()).enumerate() {
            let pname = match &*pt.pat {
                Pat::Ident(pi) => pi.ident.to_string(),
                _ => continue,
            };
            if Some(i) == recv_pos {
                recvs.insert(pname);
                continue;
            }
            // another parameter: bound to the caller's argument when both translate
            let saved = std::mem::replace(&mut self.cur_file, self.u.files[file].clone());
            let pty = self.ty(&pt.ty, self_ty.as_deref());
            self.cur_file = saved;
            let saved_notes = self.notes.len();
            match (pty, self.expr(a, env, None)) {
                (Ok(t), Ok((g, _))) => {
                    let cn = format!("{}_{}", local_name(&pname), cx.stack.len() + 1);
                    cenv.binds.push(Bind { rust: pname, coq: cn.clone(), ty: t, poisoned: None });
                    items.push(TraceItem::Let(cn, g));
                }
                (_, r) => {
                    self.notes.truncate(saved_notes);
                    let why = match r {
                        Err(e) => e.msg,
                        Ok(_) => "its type is outside the subset".into(),
                    };
                    cenv.binds.push(Bind { rust: pname.clone(), coq: local_name(&pname), ty: Ty::Never, poisoned: Some(format!("argument of `{fname}`: {why}")) });
                }
            }
        }
        let saved_file = std::mem::replace(&mut self.cur_file, self.u.files[file].clone());
        let saved_recvs = std::mem::replace(&mut cx.recvs, recvs);
        cx.stack.push(fname.to_owned());
        let r = self.trace_block(&body.stmts, &cenv, cx);
        cx.stack.pop();
        cx.recvs = saved_recvs;
        self.cur_file = saved_file;
        let inner = r?;
        self.notes.push(format!("call trace: `{}` ({}:{}) is followed", fname.split('@').next().unwrap_or(fname), self.u.files[file], sig.ident.span().start().line));
        if inner.is_empty() {
            return Ok(vec![]);
        }
        // the bindings of the parameters scope over the callee's part only
        let has_let = items.iter().any(|i| matches!(i, TraceItem::Let(..)));
        if has_let {
            items.extend(inner);
            Ok(vec![TraceItem::Cond(render_trace(&items))])
        } else {
            Ok(inner)
        }
    }

    fn call_trace(&mut self, rq: &Request) -> R<String> {
        let sp = Span::call_site();
        let name = self.request_name(rq)?;
        let (file, _sig, body, self_ty) = self.find_fn(&rq.item, sp)?;
        self.cur_file = self.u.files[file].clone();
        let mut env = Env { self_ty: self_ty.clone(), ..Env::default() };
        let mut binders = Vec::new();
        self.declare_params(rq, self_ty.as_deref(), &mut env, &mut binders)?;
        self.cur_file = self.u.files[file].clone();
        let mut cx = TraceCx { recvs: rq.receivers.iter().cloned().collect(), inline: rq.inline.clone(), stack: vec![format!("{}@{}:{}", rq.item.rsplit("::").next().unwrap_or(""), self.u.files[file], _sig.ident.span().start().line)], opaque_conds: rq.opaque_conditions, conds: Vec::new() };
        let items = self.trace_block(&body.stmts, &env, &mut cx)?;
        if items.is_empty() {
            return self.err(sp, format!("no call on {} in `{}`", rq.receivers.join(" / "), rq.item));
        }
        let g = render_trace(&items);
        for c in &cx.conds {
            binders.push(format!("({c} : bool)"));
        }
        let text = format!("Definition {name} {} : list (string * list string) :=\n  {}.", binders.join(" "), g.render(2));
        let origin = format!("{}:{} calls on {} in fn {} {}", self.u.files[file], body.span().start().line, rq.receivers.join(" / "), rq.item, tok_hash(body));
        self.notes.push(format!(
            "{name} is the ordered list of the calls `{}` makes on `{}` (method, arguments: literals and `T::f()` kept, anything else `?`), each under the condition it is made; functions followed: {}; error exits (`?`), every other statement and the values assigned are not translated",
            rq.item,
            rq.receivers.join("` / `"),
            if rq.inline.is_empty() { "none".into() } else { rq.inline.join(", ") }
        ));
        self.emit(&name, text, origin);
        Ok(name)
    }
}

fn strip_wrappers(e: &Expr) -> &Expr {
    match e {
        Expr::Paren(p) => strip_wrappers(&p.expr),
        Expr::Try(t) => strip_wrappers(&t.expr),
        Expr::Await(a) => strip_wrappers(&a.base),
        Expr::Reference(r) => strip_wrappers(&r.expr),
        _ => e,
    }
}

/// the expression a chain of method calls / field accesses starts from
fn chain_root(e: &Expr) -> Option<&Expr> {
    match e {
        Expr::MethodCall(m) => chain_root(&m.receiver).or(Some(&m.receiver)),
        Expr::Field(f) => chain_root(&f.base).or(Some(&f.base)),
        Expr::Paren(p) => chain_root(&p.expr),
        Expr::Try(t) => chain_root(&t.expr),
        Expr::Await(a) => chain_root(&a.base),
        Expr::Reference(r) => chain_root(&r.expr),
        Expr::Path(_) => Some(e),
        _ => None,
    }
}

// ------------------------------------------------------------- effect_list / closure_value / loop_body

fn contains_call_named(e: &Expr, name: &str) -> bool {
    struct V<'n>(&'n str, bool);
    impl<'n, 'ast> Visit<'ast> for V<'n> {
        fn visit_expr(&mut self, e: &'ast Expr) {
            if call_name(e).as_deref() == Some(self.0) {
                self.1 = true;
            }
            syn::visit::visit_expr(self, e);
        }
        // `name!`: a macro invocation counts as a call of it
        fn visit_macro(&mut self, m: &'ast syn::Macro) {
            if macro_call_name(m).as_deref() == Some(self.0) {
                self.1 = true;
            }
        }
        fn visit_item(&mut self, _: &'ast Item) {}
    }
    let mut v = V(name, false);
    v.visit_expr(e);
    v.1
}

fn macro_call_name(m: &syn::Macro) -> Option<String> {
    m.path.segments.last().map(|s| format!("{}!", s.ident))
}

impl<'u> Tr<'u> {
    /// the list of the values handed to the calls of `callee` a block makes, in order, each under the condition it is
    /// made
    fn effects_block(&mut self, stmts: &[Stmt], env: &Env, callee: &str, ety: &mut Option<Ty>) -> R<G> {
        let (s, rest) = match stmts.split_first() {
            None => return Ok(raw("nil")),
            Some(x) => x,
        };
        match s {
            Stmt::Local(l) => {
                let (pat, annot) = match &l.pat {
                    Pat::Type(pt) => (&*pt.pat, Some(&*pt.ty)),
                    p => (p, None),
                };
                let init = match &l.init {
                    Some(i) => &*i.expr,
                    None => return self.effects_block(rest, env, callee, ety),
                };
                if contains_call_named(init, callee) {
                    // `let total = self.broadcast_request(..);`: the call is made here
                    let here = self.effects_expr(init, env, callee, ety)?;
                    let mut env2 = env.clone();
                    let _ = self.poison_pattern(pat, &mut env2, "the value of the recorded call", l.span());
                    let after = self.effects_block(rest, &env2, callee, ety)?;
                    return Ok(app("List.app", vec![here, after]));
                }
                let hint = match annot {
                    Some(t) => self.ty(t, env.self_ty.as_deref()).ok(),
                    None => None,
                };
                let saved_notes = self.notes.len();
                let mut env2 = env.clone();
                match self.expr(init, env, hint.as_ref()) {
                    Ok((g, t)) => {
                        let t = hint.unwrap_or(t);
                        let b = match pat {
                            Pat::Ident(_) | Pat::Wild(_) => self.pattern(pat, &t, &mut env2).ok(),
                            Pat::Tuple(_) => self.pattern(pat, &t, &mut env2).ok().map(|p| format!("'{p}")),
                            _ => None,
                        };
                        match b {
                            Some(b) => {
                                let after = self.effects_block(rest, &env2, callee, ety)?;
                                Ok(match &after {
                                    G::Raw(r) if r == "nil" => after,
                                    _ => G::Let(b, Box::new(g), Box::new(after)),
                                })
                            }
                            None => {
                                let mut env3 = env.clone();
                                let _ = self.poison_pattern(pat, &mut env3, "unsupported pattern", l.span());
                                self.effects_block(rest, &env3, callee, ety)
                            }
                        }
                    }
                    Err(e) => {
                        self.notes.truncate(saved_notes);
                        let why = format!("{} (line {})", e.msg, e.line);
                        let _ = self.poison_pattern(pat, &mut env2, &why, l.span());
                        self.effects_block(rest, &env2, callee, ety)
                    }
                }
            }
            Stmt::Expr(e, _) => {
                let here = self.effects_expr(e, env, callee, ety)?;
                let after = self.effects_block(rest, env, callee, ety)?;
                Ok(match (&here, &after) {
                    (G::Raw(a), _) if a == "nil" => after,
                    (_, G::Raw(b)) if b == "nil" => here,
                    _ => app("List.app", vec![here, after]),
                })
            }
            Stmt::Macro(sm) if macro_call_name(&sm.mac).as_deref() == Some(callee) => {
                let here = self.effects_macro(&sm.mac, env, callee, ety)?;
                let after = self.effects_block(rest, env, callee, ety)?;
                Ok(match &after {
                    G::Raw(b) if b == "nil" => here,
                    _ => app("List.app", vec![here, after]),
                })
            }
            Stmt::Macro(_) | Stmt::Item(_) => self.effects_block(rest, env, callee, ety),
        }
    }

    /// `callee!(a0, a1, ..)`: the argument the request names is the recorded value
    fn effects_macro(&mut self, mac: &syn::Macro, env: &Env, callee: &str, ety: &mut Option<Ty>) -> R<G> {
        let args: Vec<Expr> = match mac.parse_body_with(syn::punctuated::Punctuated::<Expr, syn::Token![,]>::parse_terminated) {
            Ok(p) => p.into_iter().collect(),
            Err(e) => return self.err(mac.span(), format!("cannot parse the arguments of `{callee}`: {e}")),
        };
        let i = match self.effect_arg {
            Some(i) => i,
            None => return self.err(mac.span(), format!("`{callee}`: the request does not say which argument (`of: {{\"arg\": i}}`)")),
        };
        let a = match args.get(i) {
            Some(a) => a,
            None => return self.err(mac.span(), format!("`{callee}` is called with {} arguments (argument {i} is needed)", args.len())),
        };
        let (g, t) = self.expr(a, env, ety.as_ref())?;
        if ety.is_none() {
            *ety = Some(t);
        }
        Ok(raw(format!("(cons {} nil)", g.atom(4))))
    }

    fn effects_expr(&mut self, e: &Expr, env: &Env, callee: &str, ety: &mut Option<Ty>) -> R<G> {
        if !contains_call_named(e, callee) {
            return Ok(raw("nil"));
        }
        match e {
            Expr::Paren(p) => self.effects_expr(&p.expr, env, callee, ety),
            Expr::Group(p) => self.effects_expr(&p.expr, env, callee, ety),
            Expr::Try(t) => self.effects_expr(&t.expr, env, callee, ety),
            Expr::Await(a) => self.effects_expr(&a.base, env, callee, ety),
            Expr::Reference(r) => self.effects_expr(&r.expr, env, callee, ety),
            Expr::Block(b) if b.label.is_none() => self.effects_block(&b.block.stmts, env, callee, ety),
            Expr::Macro(m) if macro_call_name(&m.mac).as_deref() == Some(callee) => self.effects_macro(&m.mac, env, callee, ety),
            Expr::MethodCall(_) | Expr::Call(_) if call_name(e).as_deref() == Some(callee) => {
                let args: Vec<&Expr> = match e {
                    Expr::MethodCall(m) => m.args.iter().collect(),
                    Expr::Call(c) => c.args.iter().collect(),
                    _ => vec![],
                };
                if let Some(idx) = self.effect_args.clone() {
                    let hs: Vec<Option<Ty>> = match ety.as_ref() {
                        Some(Ty::Tuple(ts)) if ts.len() == idx.len() => ts.iter().cloned().map(Some).collect(),
                        _ => vec![None; idx.len()],
                    };
                    let mut gs = Vec::new();
                    let mut ts = Vec::new();
                    for (i, h) in idx.iter().zip(hs.iter()) {
                        let a = match args.get(*i) {
                            Some(a) => *a,
                            None => return self.err(e.span(), format!("`{callee}` is called with {} arguments (argument {i} is needed)", args.len())),
                        };
                        if contains_call_named(a, callee) {
                            return self.err(e.span(), format!("nested calls of `{callee}`"));
                        }
                        let (g, t) = self.expr(a, env, h.as_ref())?;
                        gs.push(g.render(0));
                        ts.push(t);
                    }
                    if ety.is_none() {
                        *ety = Some(Ty::Tuple(ts));
                    }
                    return Ok(raw(format!("(cons ({}) nil)", gs.join(", "))));
                }
                let arg = match self.effect_arg {
                    None => {
                        if args.len() != 1 {
                            return self.err(e.span(), format!("`{callee}` is called with {} arguments (one is needed)", args.len()));
                        }
                        args[0]
                    }
                    Some(i) => match args.get(i) {
                        Some(a) => *a,
                        None => return self.err(e.span(), format!("`{callee}` is called with {} arguments (argument {i} is needed)", args.len())),
                    },
                };
                if args.iter().any(|a| contains_call_named(a, callee)) {
                    return self.err(e.span(), format!("nested calls of `{callee}`"));
                }
                let (g, t) = self.expr(arg, env, ety.as_ref())?;
                if ety.is_none() {
                    *ety = Some(t);
                }
                Ok(raw(format!("(cons {} nil)", g.atom(4))))
            }
            Expr::If(i) => {
                let mut ety2 = ety.clone();
                let cal = callee.to_owned();
                let etp: *mut Option<Ty> = &mut ety2;
                let r = self.build_if(i, env, &mut |tr, stmts, env2| {
                    // SAFETY: ety2 outlives the closure and is not otherwise used while it runs
                    let et = unsafe { &mut *etp };
                    let g = tr.effects_block(stmts, env2, &cal, et)?;
                    Ok((g, Ty::Unit))
                })?;
                *ety = ety2;
                Ok(r.0)
            }
            Expr::Match(m) => {
                let mut ety2 = ety.clone();
                let cal = callee.to_owned();
                let etp: *mut Option<Ty> = &mut ety2;
                let r = self.build_match(m, env, &mut |tr, body, env2| {
                    let et = unsafe { &mut *etp };
                    let g = match body {
                        Expr::Block(b) if b.label.is_none() => tr.effects_block(&b.block.stmts, env2, &cal, et)?,
                        other => tr.effects_expr(other, env2, &cal, et)?,
                    };
                    Ok((g, Ty::Unit))
                })?;
                *ety = ety2;
                Ok(r.0)
            }
            // `callee!(..).map_err(f)?`: an adapter on the value of the recorded call
            Expr::MethodCall(m) if !m.args.iter().any(|a| contains_call_named(a, callee)) => {
                self.effects_expr(&m.receiver, env, callee, ety)
            }
            // `for pat in xs { .. callee(v) .. }`: the values of every turn, in order (fifth round)
            Expr::ForLoop(fl) if fl.label.is_none() => {
                struct Exits(bool);
                impl<'ast> Visit<'ast> for Exits {
                    fn visit_expr_break(&mut self, _: &'ast syn::ExprBreak) {
                        self.0 = true;
                    }
                    fn visit_expr_continue(&mut self, _: &'ast syn::ExprContinue) {
                        self.0 = true;
                    }
                    fn visit_expr_return(&mut self, _: &'ast syn::ExprReturn) {
                        self.0 = true;
                    }
                    fn visit_expr_closure(&mut self, _: &'ast syn::ExprClosure) {}
                    fn visit_item(&mut self, _: &'ast Item) {}
                }
                let mut ex = Exits(false);
                ex.visit_block(&fl.body);
                if ex.0 {
                    return self.err(fl.span(), format!("`{callee}` is called in a loop with `break` / `continue` / `return`"));
                }
                let (it, itt) = self.expr(&fl.expr, env, None)?;
                let elem = match itt {
                    Ty::List(t) => *t,
                    t => return self.err(fl.span(), format!("`for` over a value of type {}", t.coq())),
                };
                let mut env2 = env.clone();
                let binder = match &*fl.pat {
                    Pat::Tuple(_) => format!("'{}", self.pattern(&fl.pat, &elem, &mut env2)?),
                    p => self.pattern(p, &elem, &mut env2)?,
                };
                let body = self.effects_block(&fl.body.stmts, &env2, callee, ety)?;
                Ok(app("List.flat_map", vec![raw(format!("(fun {binder} => {})", body.render(6))), it]))
            }
            _ => self.err(e.span(), format!("`{callee}` is called in a position the effect list does not follow (loop, closure, argument)")),
        }
    }

    fn effect_list(&mut self, rq: &Request) -> R<String> {
        let sp = Span::call_site();
        let name = self.request_name(rq)?;
        let (file, sig, body, self_ty) = self.find_fn(&rq.item, sp)?;
        self.cur_file = self.u.files[file].clone();
        let callee = match &rq.call {
            Some(c) => c.clone(),
            None => return self.err(sp, "effect_list request without `call`"),
        };
        let (_outer, stmts, scope_text) = self.resolve_scope(rq, body, sig.ident.span())?;
        let mut env = Env { self_ty: self_ty.clone(), ..Env::default() };
        let mut binders = Vec::new();
        self.declare_params(rq, self_ty.as_deref(), &mut env, &mut binders)?;
        self.cur_file = self.u.files[file].clone();
        self.effect_arg = rq.of.as_ref().and_then(|o| o.get("arg")).and_then(|v| v.as_u64()).map(|v| v as usize);
        let mut ety: Option<Ty> = match &rq.ty {
            Some(t) => {
                let ty: Type = match syn::parse_str(t) {
                    Ok(t) => t,
                    Err(e) => return self.err(sp, format!("type `{t}`: {e}")),
                };
                let r = self.ty(&ty, self_ty.as_deref());
                self.cur_file = self.u.files[file].clone();
                Some(r?)
            }
            None => None,
        };
        // `of: {"args": [i, j]}`: the recorded value is the tuple of these arguments (fifth round)
        self.effect_args = rq.of.as_ref().and_then(|o| o.get("args")).and_then(|v| v.as_array()).map(|a| {
            a.iter().filter_map(|v| v.as_u64()).map(|v| v as usize).collect::<Vec<_>>()
        });
        let saved_opaque = std::mem::take(&mut self.opaque);
        self.in_progress.push(format!("fn {}", rq.item));
        let g = self.effects_block(&stmts, &env, &callee, &mut ety);
        self.in_progress.pop();
        self.effect_arg = None;
        self.effect_args = None;
        if g.is_ok() {
            self.opaque_binders(&mut binders);
        }
        self.opaque = saved_opaque;
        let g = g?;
        let ety = match ety {
            Some(t) => t,
            None => return self.err(sig.ident.span(), format!("no call of `{callee}`{scope_text} of `{}`", rq.item)),
        };
        let text = format!("Definition {name} {} : (list {}) :=\n  {}.", binders.join(" "), ety.coq(), g.render(2));
        let mut hashed = proc_macro2::TokenStream::new();
        for s in &stmts {
            hashed.extend(s.to_token_stream());
        }
        let origin = format!(
            "{}:{} values handed to `{callee}`{scope_text} of fn {} {}",
            self.u.files[file],
            stmts.first().map(|s| s.span().start().line).unwrap_or(0),
            rq.item,
            tok_hash(hashed)
        );
        self.notes.push(format!(
            "{name} is the ordered list of the values handed to `{callee}`{scope_text} of {}, each under the condition the call is made, as a function of {}; every other statement is not translated",
            rq.item,
            rq.params.iter().map(|(a, _)| format!("`{a}`")).collect::<Vec<_>>().join(", ")
        ));
        self.emit(&name, text, origin);
        Ok(name)
    }

    /// the value of a closure (through `async move {{ .. }}`), with the events it sends on the way to each exit
    fn closure_value(&mut self, rq: &Request) -> R<String> {
        let sp = Span::call_site();
        let name = self.request_name(rq)?;
        let (file, sig, body, self_ty) = self.find_fn(&rq.item, sp)?;
        self.cur_file = self.u.files[file].clone();
        if !matches!(rq.scope.last(), Some(v) if v.get("closure_of").is_some()) {
            return self.err(sp, "closure_value: the last `scope` step must be `closure_of`");
        }
        let (_outer, stmts, scope_text) = self.resolve_scope(rq, body, sig.ident.span())?;
        let hint = match &rq.ty {
            Some(t) => {
                let ty: Type = match syn::parse_str(t) {
                    Ok(t) => t,
                    Err(e) => return self.err(sp, format!("type `{t}`: {e}")),
                };
                let r = self.ty(&ty, self_ty.as_deref());
                self.cur_file = self.u.files[file].clone();
                r?
            }
            None => return self.err(sp, "closure_value request without `ty` (the type of the closure's value)"),
        };
        let mut env = Env {
            self_ty: self_ty.clone(),
            ret: Some(hint.clone()),
            // (without `events`: the plain value of the closure)
            events_enum: rq.events.clone(),
            ..Env::default()
        };
        let mut binders = Vec::new();
        self.declare_params(rq, self_ty.as_deref(), &mut env, &mut binders)?;
        self.cur_file = self.u.files[file].clone();
        let (g, t) = self.block(&stmts, &env, &K::Value(Some(hint.clone())))?;
        let t = if t != Ty::Never {
            t
        } else if rq.events.is_some() {
            Ty::Tuple(vec![Ty::List(Box::new(Ty::Str)), hint.clone()])
        } else {
            hint.clone()
        };
        let text = format!("Definition {name} {} : {} :=\n  {}.", binders.join(" "), t.coq(), g.render(2));
        let mut hashed = proc_macro2::TokenStream::new();
        for s in &stmts {
            hashed.extend(s.to_token_stream());
        }
        let origin = format!(
            "{}:{} value and events of{scope_text} of fn {} {}",
            self.u.files[file],
            stmts.first().map(|s| s.span().start().line).unwrap_or(0),
            rq.item,
            tok_hash(hashed)
        );
        self.notes.push(format!(
            "{name} is, for{scope_text} of {}: (the {} variants it sends before it returns, the value it returns) as a function of {}; `async move {{ .. }}` is read as its body",
            rq.item,
            rq.events.clone().unwrap_or_default(),
            rq.params.iter().map(|(a, _)| format!("`{a}`")).collect::<Vec<_>>().join(", ")
        ));
        self.emit(&name, text, origin);
        Ok(name)
    }

    /// the body of `for <in_loop> in ..` as a transformer of the mutable locals declared before the loop
    fn loop_body(&mut self, rq: &Request) -> R<String> {
        let sp = Span::call_site();
        let name = self.request_name(rq)?;
        let (file, sig, body, self_ty) = self.find_fn(&rq.item, sp)?;
        self.cur_file = self.u.files[file].clone();
        let pat = match &rq.in_loop {
            Some(p) => p.replace(' ', ""),
            None => return self.err(sp, "loop_body request without `in_loop`"),
        };
        struct Fors(Vec<syn::ExprForLoop>, String);
        impl<'ast> Visit<'ast> for Fors {
            fn visit_expr_for_loop(&mut self, l: &'ast syn::ExprForLoop) {
                if norm(&l.pat) == self.1 {
                    self.0.push(l.clone());
                }
                syn::visit::visit_expr_for_loop(self, l);
            }
            fn visit_item(&mut self, _: &'ast Item) {}
        }
        let mut fs = Fors(vec![], pat.clone());
        fs.visit_block(body);
        if fs.0.len() != 1 {
            return self.err(sig.ident.span(), format!("`{}` has {} loops `for {pat} in ..` (exactly one is needed)", rq.item, fs.0.len()));
        }
        let stmts = fs.0.pop().unwrap().body.stmts;
        let mut env = Env { self_ty: self_ty.clone(), loop_body: true, ..Env::default() };
        let mut binders = Vec::new();
        self.declare_params(rq, self_ty.as_deref(), &mut env, &mut binders)?;
        let mut names = Vec::new();
        let mut tys = Vec::new();
        for (n, tyname) in &rq.state {
            let ty: Type = match syn::parse_str(tyname) {
                Ok(t) => t,
                Err(e) => return self.err(sp, format!("state type `{tyname}`: {e}")),
            };
            let t = self.ty(&ty, self_ty.as_deref())?;
            let cn = local_name(n);
            binders.push(format!("({cn} : {})", t.coq()));
            env.binds.push(Bind { rust: n.clone(), coq: cn.clone(), ty: t.clone(), poisoned: None });
            env.vars.push((n.clone(), cn.clone(), t.clone()));
            names.push(cn);
            tys.push(t);
        }
        if names.is_empty() {
            return self.err(sp, "loop_body request without `state`");
        }
        self.cur_file = self.u.files[file].clone();
        let saved_opaque = std::mem::take(&mut self.opaque);
        let r = self.block(&stmts, &env, &K::Vars(names.clone()));
        let r = r.map(|x| {
            self.opaque_binders(&mut binders);
            x
        });
        self.opaque = saved_opaque;
        let (g, _) = r?;
        let rt = if tys.len() == 1 { tys[0].clone() } else { Ty::Tuple(tys) };
        let text = format!("Definition {name} {} : {} :=\n  {}.", binders.join(" "), rt.coq(), g.render(2));
        let mut hashed = proc_macro2::TokenStream::new();
        for s in &stmts {
            hashed.extend(s.to_token_stream());
        }
        let origin = format!(
            "{}:{} the body of `for {pat}` of fn {} {}",
            self.u.files[file],
            stmts.first().map(|s| s.span().start().line).unwrap_or(0),
            rq.item,
            tok_hash(hashed)
        );
        self.notes.push(format!(
            "{name} is one turn of the loop `for {pat} in ..` of {}: the new values of {} as a function of their old values and of {}; `continue` ends the turn",
            rq.item,
            rq.state.iter().map(|(a, _)| format!("`{a}`")).collect::<Vec<_>>().join(", "),
            rq.params.iter().map(|(a, _)| format!("`{a}`")).collect::<Vec<_>>().join(", ")
        ));
        self.emit(&name, text, origin);
        Ok(name)
    }
}

// ------------------------------------------------------------------------------------ loop_step

impl<'u> Tr<'u> {
    /// One turn of the function's one `loop`, from the statement after the last `let` of the loop body that binds
    /// `after_let` to the end of the body, as a function of the declared free variables (kind "loop_step"). The turn
    /// must end in the statement `<receivers[0]>.<call>(args);` (the effect of a turn that goes round again): the value
    /// is then `Ok(args)`; a `return Err(e)` on the way is `Err(e)` (the error type is the function's); `break` /
    /// `continue` inside the fragment are errors. What precedes the fragment (how the free variables are obtained) is
    /// not translated.
    fn loop_step(&mut self, rq: &Request) -> R<String> {
        let sp = Span::call_site();
        let name = self.request_name(rq)?;
        let (file, sig, body, self_ty) = self.find_fn(&rq.item, sp)?;
        self.cur_file = self.u.files[file].clone();
        struct L<'a>(Vec<&'a syn::ExprLoop>);
        impl<'ast> syn::visit::Visit<'ast> for L<'ast> {
            fn visit_expr_loop(&mut self, l: &'ast syn::ExprLoop) {
                self.0.push(l);
            }
            fn visit_expr_closure(&mut self, _: &'ast syn::ExprClosure) {}
            fn visit_item(&mut self, _: &'ast Item) {}
        }
        let mut lv = L(Vec::new());
        syn::visit::Visit::visit_block(&mut lv, body);
        if lv.0.len() != 1 {
            return self.err(sig.ident.span(), format!("`{}` has {} `loop`s (exactly one is needed)", rq.item, lv.0.len()));
        }
        let lp = lv.0[0];
        let stmts = &lp.body.stmts;
        let after = match &rq.after_let {
            Some(a) => a.clone(),
            None => return self.err(sp, "loop_step request without `after_let`"),
        };
        let mut start = None;
        for (i, s) in stmts.iter().enumerate() {
            if let Stmt::Local(l) = s {
                let mut ids = Vec::new();
                pat_idents(&l.pat, &mut ids);
                if ids.iter().any(|x| *x == after) {
                    start = Some(i + 1);
                }
            }
        }
        let start = match start {
            Some(i) => i,
            None => return self.err(lp.span(), format!("no `let` of the loop body of `{}` binds `{after}`", rq.item)),
        };
        let (recv, callee) = match (rq.receivers.first(), &rq.call) {
            (Some(r), Some(c)) => (r.clone(), c.clone()),
            _ => return self.err(sp, "loop_step request without `receivers` / `call`"),
        };
        let frag = &stmts[start..];
        let last_args: Vec<Expr> = match frag.last() {
            Some(Stmt::Expr(Expr::MethodCall(m), Some(_))) if m.method == callee.as_str() && is_ident_path(&m.receiver, &recv) => {
                m.args.iter().cloned().collect()
            }
            _ => {
                return self.err(
                    lp.span(),
                    format!("the loop body of `{}` does not end in the statement `{recv}.{callee}(..);`", rq.item),
                )
            }
        };
        {
            struct B(bool);
            impl<'ast> syn::visit::Visit<'ast> for B {
                fn visit_expr_break(&mut self, _: &'ast syn::ExprBreak) {
                    self.0 = true;
                }
                fn visit_expr_continue(&mut self, _: &'ast syn::ExprContinue) {
                    self.0 = true;
                }
                fn visit_expr_closure(&mut self, _: &'ast syn::ExprClosure) {}
                fn visit_item(&mut self, _: &'ast Item) {}
            }
            let mut b = B(false);
            for s in frag {
                syn::visit::Visit::visit_stmt(&mut b, s);
            }
            if b.0 {
                return self.err(lp.span(), "`break` / `continue` inside the translated part of the loop body");
            }
        }
        // the error type of the function
        let err_ty: Type = match &sig.output {
            ReturnType::Type(_, t) => match &**t {
                Type::Path(p) if p.path.segments.last().map(|s| s.ident == "Result").unwrap_or(false) => {
                    let seg = p.path.segments.last().unwrap();
                    let targs: Vec<&Type> = match &seg.arguments {
                        syn::PathArguments::AngleBracketed(a) => {
                            a.args.iter().filter_map(|a| if let syn::GenericArgument::Type(t) = a { Some(t) } else { None }).collect()
                        }
                        _ => vec![],
                    };
                    match targs.get(1) {
                        Some(t) => (*t).clone(),
                        None => return self.err(sig.span(), "loop_step: the function's `Result` has no explicit error type"),
                    }
                }
                _ => return self.err(sig.span(), "loop_step: the function does not return a `Result`"),
            },
            ReturnType::Default => return self.err(sig.span(), "loop_step: the function does not return a `Result`"),
        };
        let ety = self.ty(&err_ty, self_ty.as_deref())?;
        self.cur_file = self.u.files[file].clone();
        let mut env = Env { self_ty: self_ty.clone(), ..Env::default() };
        let mut binders = Vec::new();
        self.declare_params(rq, self_ty.as_deref(), &mut env, &mut binders)?;
        self.cur_file = self.u.files[file].clone();
        let ret = Ty::Result(Box::new(Ty::Never), Box::new(ety));
        env.ret = Some(ret.clone());
        let tail_text = if last_args.len() == 1 {
            format!("Ok({})", last_args[0].to_token_stream())
        } else {
            format!("Ok(({}))", last_args.iter().map(|a| a.to_token_stream().to_string()).collect::<Vec<_>>().join(", "))
        };
        let tail: Expr = match syn::parse_str(&tail_text) {
            Ok(e) => e,
            Err(e) => return self.err(lp.span(), format!("loop_step: cannot rebuild the effect `{tail_text}`: {e}")),
        };
        let mut synth: Vec<Stmt> = frag[..frag.len() - 1].to_vec();
        synth.push(Stmt::Expr(tail, None));
        let saved_opaque = std::mem::take(&mut self.opaque);
        self.in_progress.push(format!("fn {}", rq.item));
        let r = self.block(&synth, &env, &K::Value(Some(ret.clone())));
        self.in_progress.pop();
        let r = r.map(|(g, t)| {
            self.opaque_binders(&mut binders);
            (g, t)
        });
        self.opaque = saved_opaque;
        let (g, t) = r?;
        let text = format!("Definition {name} {} : {} :=\n  {}.", binders.join(" "), t.coq(), g.render(2));
        let mut hashed = proc_macro2::TokenStream::new();
        for s in frag {
            hashed.extend(s.to_token_stream());
        }
        let origin = format!(
            "{}:{} one turn of the loop of fn {} after `let {after}` {}",
            self.u.files[file],
            frag.first().map(|s| s.span().start().line).unwrap_or(0),
            rq.item,
            tok_hash(hashed)
        );
        self.notes.push(format!(
            "{name} is one turn of the `loop` of {} from the statement after the last `let` that binds `{after}` to the end of the loop body, as a function of {}: `Ok(args)` when the turn ends in `{recv}.{callee}(args)` and goes round again, `Err(e)` when it leaves the function with `return Err(e)`; how `{after}` is obtained and when the loop ends are not translated",
            rq.item,
            rq.params.iter().map(|(a, _)| format!("`{a}`")).collect::<Vec<_>>().join(", ")
        ));
        self.emit(&name, text, origin);
        Ok(name)
    }
}
