// Part of src/bin/decisions.rs (include!): translator state, type declarations, derived helpers.

struct Tr<'u> {
    u: &'u Universe,
    spec: &'u Spec,
    out: Vec<Emitted>,
    types: HashMap<String, TypeInfo>,
    funcs: HashMap<String, FnInfo>,
    in_progress: Vec<String>,
    helpers: BTreeSet<String>,
    cur_file: String,
    /// notes for the header (omitted lets, dropped fields, observers)
    notes: Vec<String>,
    /// opaque calls met in the function being translated: (callee, parameter name, type)
    opaque: Vec<(String, String, Ty)>,
    /// the current request's `ignore_assign`
    req_ignore_assign: Vec<String>,
    /// effect_list: which argument of the recorded call is the value (`of: {"arg": i}`; None: the call's only argument)
    effect_arg: Option<usize>,
    /// effect_list: the recorded value is the tuple of these arguments (`of: {"args": [i, j]}`)
    effect_args: Option<Vec<usize>>,
    /// Some: `e?` inside the expression being translated is allowed (every `?` of it is in a position that is evaluated
    /// whenever the expression is): each becomes a fresh name bound by a match hoisted in front of the expression
    /// (name, the Result-valued expression), in evaluation order
    try_slots: Option<Vec<(String, G)>>,
}

fn norm(ts: impl ToTokens) -> String {
    ts.to_token_stream().to_string().replace(' ', "")
}

fn tok_hash(ts: impl ToTokens) -> String {
    format!("{:016x}", xxhash_rust::xxh64::xxh64(ts.to_token_stream().to_string().as_bytes(), 0))
}

impl<'u> Tr<'u> {
    fn err<T>(&self, sp: Span, msg: impl Into<String>) -> R<T> {
        Err(TErr { file: self.cur_file.clone(), line: sp.start().line, msg: msg.into(), excluded: false })
    }
    fn err_at<T>(&self, file: usize, sp: Span, msg: impl Into<String>) -> R<T> {
        Err(TErr { file: self.u.files[file].clone(), line: sp.start().line, msg: msg.into(), excluded: false })
    }
    fn emit(&mut self, coq: &str, text: String, origin: String) {
        self.out.push(Emitted { coq: coq.to_owned(), text, origin });
    }

    // ---- syn type -> Ty (declaring enums / structs on demand)
    fn ty(&mut self, t: &Type, self_ty: Option<&str>) -> R<Ty> {
        match t {
            Type::Reference(r) => self.ty(&r.elem, self_ty),
            Type::Paren(p) => self.ty(&p.elem, self_ty),
            Type::Group(g) => self.ty(&g.elem, self_ty),
            Type::Tuple(tt) => {
                if tt.elems.is_empty() {
                    return Ok(Ty::Unit);
                }
                let mut v = Vec::new();
                for e in &tt.elems {
                    v.push(self.ty(e, self_ty)?);
                }
                Ok(Ty::Tuple(v))
            }
            Type::Slice(sl) => Ok(Ty::List(Box::new(self.ty(&sl.elem, self_ty)?))),
            Type::ImplTrait(it) => {
                // `impl Iterator<Item = T> + '_`: the list of the items
                for b in &it.bounds {
                    if let syn::TypeParamBound::Trait(tb) = b {
                        if let Some(seg) = tb.path.segments.last() {
                            if seg.ident == "Iterator" || seg.ident == "IntoIterator" || seg.ident == "DoubleEndedIterator" || seg.ident == "ExactSizeIterator" {
                                if let syn::PathArguments::AngleBracketed(a) = &seg.arguments {
                                    for ga in &a.args {
                                        if let syn::GenericArgument::AssocType(at) = ga {
                                            if at.ident == "Item" {
                                                return Ok(Ty::List(Box::new(self.ty(&at.ty, self_ty)?)));
                                            }
                                        }
                                    }
                                }
                            }
                        }
                    }
                }
                self.err(t.span(), format!("unsupported type `{}`", norm(t)))
            }
            Type::Path(p) if p.qself.is_none() => {
                let seg = p.path.segments.last().unwrap();
                let name = seg.ident.to_string();
                if self.spec.omit_types.iter().any(|o| *o == name) {
                    return Ok(Ty::Omitted);
                }
                if self.spec.tokens.iter().any(|o| *o == name) {
                    return Ok(Ty::Token(name));
                }
                let targs: Vec<&Type> = match &seg.arguments {
                    syn::PathArguments::AngleBracketed(a) => a
                        .args
                        .iter()
                        .filter_map(|a| if let syn::GenericArgument::Type(t) = a { Some(t) } else { None })
                        .collect(),
                    _ => vec![],
                };
                match name.as_str() {
                    "usize" | "u8" | "u16" | "u32" | "u64" | "u128" => Ok(Ty::N),
                    "isize" | "i8" | "i16" | "i32" | "i64" | "i128" => Ok(Ty::Z),
                    "bool" => Ok(Ty::Bool),
                    "Duration" => Ok(Ty::Duration),
                    "Option" if targs.len() == 1 => Ok(Ty::Option(Box::new(self.ty(targs[0], self_ty)?))),
                    // (an owning pointer is erased like a reference)
                    "Box" if targs.len() == 1 => self.ty(targs[0], self_ty),
                    "Vec" | "VecDeque" if targs.len() == 1 => Ok(Ty::List(Box::new(self.ty(targs[0], self_ty)?))),
                    "BTreeMap" | "IndexMap" | "HashMap" if targs.len() == 2 => {
                        let k = self.ty(targs[0], self_ty)?;
                        let v = self.ty(targs[1], self_ty)?;
                        Ok(Ty::List(Box::new(Ty::Tuple(vec![k, v]))))
                    }
                    "str" | "String" if self.spec.strings => Ok(Ty::Str),
                    "Result" if !targs.is_empty() => {
                        let a = self.ty(targs[0], self_ty)?;
                        let b = if targs.len() > 1 {
                            self.ty(targs[1], self_ty)?
                        } else {
                            // `Result<T>` = `Result<T, E>` for the crate's error alias
                            match self.spec.result_alias_error() {
                                Some(e) => self.named_ty(&e, t.span())?,
                                None => return self.err(t.span(), "Result<T> alias without result_error in the spec"),
                            }
                        };
                        Ok(Ty::Result(Box::new(a), Box::new(b)))
                    }
                    "Self" => match self_ty {
                        Some(s) => self.named_ty(s, t.span()),
                        None => self.err(t.span(), "`Self` outside an impl"),
                    },
                    _ => {
                        if !targs.is_empty() {
                            return self.err(t.span(), format!("unsupported generic type `{}`", norm(t)));
                        }
                        self.named_ty(&name, t.span())
                    }
                }
            }
            // `dyn Trait` for a trait the spec lists as a token
            Type::TraitObject(to) => {
                for b in &to.bounds {
                    if let syn::TypeParamBound::Trait(tb) = b {
                        if let Some(seg) = tb.path.segments.last() {
                            let name = seg.ident.to_string();
                            if self.spec.tokens.iter().any(|o| *o == name) {
                                return Ok(Ty::Token(name));
                            }
                        }
                    }
                }
                self.err(t.span(), format!("unsupported type `{}`", norm(t)))
            }
            _ => self.err(t.span(), format!("unsupported type `{}`", norm(t))),
        }
    }

    fn named_ty(&mut self, name: &str, sp: Span) -> R<Ty> {
        if let Some(ti) = self.types.get(name) {
            return Ok(match ti {
                TypeInfo::Enum(_) => Ty::Enum(name.to_owned()),
                TypeInfo::Rec(_) => Ty::Struct(name.to_owned()),
            });
        }
        if self.in_progress.iter().any(|k| k == &format!("type {name}")) {
            return self.err(sp, format!("recursive type `{name}` is outside the subset"));
        }
        let is_enum = self.u.enums.contains_key(name);
        let is_struct = self.u.structs.contains_key(name);
        if is_enum && is_struct {
            return self.err(sp, format!("`{name}` names both an enum and a struct in the listed files"));
        }
        self.in_progress.push(format!("type {name}"));
        let saved = self.cur_file.clone();
        let r = if is_enum {
            self.declare_enum(name, sp)
        } else if is_struct {
            self.declare_struct(name, sp)
        } else {
            self.err(sp, format!("unsupported type `{name}` (not an enum or struct of the listed source files)"))
        };
        self.cur_file = saved;
        self.in_progress.pop();
        r
    }

    fn declare_enum(&mut self, name: &str, sp: Span) -> R<Ty> {
        let u = self.u;
        let at = match one(u.enums.get(name), &format!("enum {name}")) {
            Ok(a) => a,
            Err(m) => return self.err(sp, m),
        };
        self.cur_file = u.files[at.file].clone();
        let e = &at.item;
        if !e.generics.type_params().next().is_none() {
            return self.err(e.span(), format!("generic enum `{name}`"));
        }
        let shape = self.spec.shape_only.iter().any(|s| s == name);
        let mut variants = Vec::new();
        let mut dropped = Vec::new();
        let subset = self.spec.enum_subset.get(name).cloned();
        let mut excluded = Vec::new();
        for v in &e.variants {
            match cfg_state(&v.attrs) {
                Some(true) => {}
                Some(false) => continue,
                None => return self.err(v.span(), "cfg predicate on a variant is not decided (see cfg_features)"),
            }
            if let Some(keep) = &subset {
                if !keep.iter().any(|k| v.ident == k) {
                    excluded.push(v.ident.to_string());
                    continue;
                }
            }
            if v.discriminant.is_some() {
                return self.err(v.span(), "explicit discriminant");
            }
            let mut fields = Vec::new();
            let fl: Vec<&syn::Field> = match &v.fields {
                Fields::Unit => vec![],
                Fields::Named(n) => n.named.iter().collect(),
                Fields::Unnamed(n) => n.unnamed.iter().collect(),
            };
            for (i, f) in fl.iter().enumerate() {
                if !cfg_keep(&f.attrs) {
                    return self.err(f.span(), "cfg on a variant field");
                }
                let fname = f.ident.as_ref().map(|i| i.to_string());
                if shape {
                    // shape only: every field is omitted, whatever its type
                    dropped.push(format!("{}::{}.{}", name, v.ident, fname.clone().unwrap_or_else(|| i.to_string())));
                    fields.push(FieldInfo { name: fname, ty: None });
                } else {
                    let t = self.ty(&f.ty, Some(name))?;
                    fields.push(FieldInfo { name: fname, ty: Some(t) });
                }
                self.cur_file = u.files[at.file].clone();
            }
            variants.push(VarInfo { name: v.ident.to_string(), fields });
        }
        if variants.is_empty() {
            return self.err(e.span(), format!("enum `{name}` has no variant in this configuration"));
        }
        let mut text = format!("Inductive {name} :=");
        for v in &variants {
            text += &format!("\n| {name}_{}", v.name);
            for (i, f) in v.fields.iter().enumerate() {
                if let Some(t) = &f.ty {
                    let fname = f.name.clone().unwrap_or_else(|| format!("a{i}"));
                    text += &format!(" ({} : {})", local_name(&fname), t.coq());
                }
            }
        }
        text += ".";
        if !dropped.is_empty() {
            self.notes.push(format!("shape only: fields omitted from {name}: {}", dropped.join(", ")));
        }
        if let Some(keep) = &subset {
            self.notes.push(format!(
                "variant subset: {name} is restricted to {} ({} other variants are left out; functions over it are the restrictions to these variants)",
                keep.join(", "),
                excluded.len()
            ));
        }
        let origin = format!("{}:{} enum {name} {}", self.cur_file, e.ident.span().start().line, tok_hash(&e.variants));
        self.types.insert(name.to_owned(), TypeInfo::Enum(EnumInfo { variants, derives: derives(&e.attrs), excluded }));
        self.emit(name, text, origin);
        Ok(Ty::Enum(name.to_owned()))
    }

    fn declare_struct(&mut self, name: &str, sp: Span) -> R<Ty> {
        let u = self.u;
        let at = match one(u.structs.get(name), &format!("struct {name}")) {
            Ok(a) => a,
            Err(m) => return self.err(sp, m),
        };
        self.cur_file = u.files[at.file].clone();
        let s = &at.item;
        let view = self.spec.views.get(name).cloned();
        if s.generics.type_params().next().is_some() && view.is_none() {
            return self.err(s.span(), format!("generic struct `{name}`"));
        }
        let named = match &s.fields {
            Fields::Named(n) => n,
            _ => return self.err(s.span(), format!("struct `{name}` is not a struct with named fields")),
        };
        let mut fields = Vec::new();
        if let Some(obs) = &view {
            for o in obs {
                // `path : Type`: the observer's type is declared (a method of an external type)
                let (o, declared) = match o.split_once(" : ") {
                    Some((a, b)) => (a.trim().to_owned(), Some(b.trim().to_owned())),
                    None => (o.clone(), None),
                };
                let o = &o;
                let t = match declared {
                    Some(tn) => {
                        let ty: Type = match syn::parse_str(&tn) {
                            Ok(t) => t,
                            Err(e) => return self.err(s.span(), format!("observer `{o}` of {name}: type `{tn}`: {e}")),
                        };
                        self.ty(&ty, Some(name))?
                    }
                    None => self.observer_type(name, o, s.span())?,
                };
                self.cur_file = u.files[at.file].clone();
                let proj = format!("{name}_{}", o.replace("()", "").replace('.', "_"));
                fields.push((o.clone(), proj, t));
            }
            self.notes.push(format!(
                "view: {name} is reduced to the observers {}; what they return is input data (their bodies are not translated)",
                obs.join(", ")
            ));
        } else {
            for f in &named.named {
                if !cfg_keep(&f.attrs) {
                    continue;
                }
                let fname = f.ident.as_ref().unwrap().to_string();
                let t = self.ty(&f.ty, Some(name))?;
                self.cur_file = u.files[at.file].clone();
                fields.push((fname.clone(), format!("{name}_{fname}"), t));
            }
        }
        if fields.is_empty() {
            return self.err(s.span(), format!("struct `{name}` has no translatable field"));
        }
        let mut text = format!("Record {name} := mk_{name} {{");
        for (i, (_, proj, t)) in fields.iter().enumerate() {
            text += &format!("{}\n  {proj} : {}", if i == 0 { "" } else { ";" }, t.coq());
        }
        text += " }.";
        let origin = format!(
            "{}:{} struct {name}{} {}",
            self.cur_file,
            s.ident.span().start().line,
            if view.is_some() { " (view)" } else { "" },
            tok_hash(&s.fields)
        );
        self.types.insert(name.to_owned(), TypeInfo::Rec(RecInfo { fields, view: view.is_some() }));
        self.emit(name, text, origin);
        Ok(Ty::Struct(name.to_owned()))
    }

    /// type of an observer path of a view struct, read from the declarations
    fn observer_type(&mut self, sname: &str, path: &str, sp: Span) -> R<Ty> {
        let u = self.u;
        let mut cur_struct: Option<String> = Some(sname.to_owned());
        let mut cur_ty: Option<Type> = None;
        for seg in path.split('.') {
            if let Some(m) = seg.strip_suffix("()") {
                // a built-in of Vec / slices first
                if let Some(t) = &cur_ty {
                    let n = norm(t);
                    if n.starts_with("Vec<") || n.starts_with("&[") || n.starts_with("[") || n.contains("Vec<") {
                        match m {
                            "len" => {
                                cur_ty = Some(syn::parse_str("usize").unwrap());
                                cur_struct = None;
                                continue;
                            }
                            "is_empty" => {
                                cur_ty = Some(syn::parse_str("bool").unwrap());
                                cur_struct = None;
                                continue;
                            }
                            _ => return self.err(sp, format!("observer `{path}` of {sname}: `{m}()` on a vector")),
                        }
                    }
                }
                let sn = match &cur_struct {
                    Some(s) => s.clone(),
                    None => return self.err(sp, format!("observer `{path}` of {sname}: method on a non-struct")),
                };
                let at = match one(u.methods.get(&(sn.clone(), m.to_owned())), &format!("method {sn}::{m}")) {
                    Ok(a) => a,
                    Err(e) => return self.err(sp, format!("observer `{path}` of {sname}: {e}")),
                };
                let sig = &at.item.sig;
                let ok_recv = matches!(sig.inputs.first(), Some(FnArg::Receiver(r)) if r.mutability.is_none());
                if !ok_recv || sig.inputs.len() != 1 {
                    return self.err_at(at.file, sig.span(), format!("observer `{path}` of {sname}: `{m}` is not `fn(&self)`"));
                }
                let rt = match &sig.output {
                    ReturnType::Type(_, t) => (**t).clone(),
                    ReturnType::Default => {
                        return self.err_at(at.file, sig.span(), format!("observer `{path}` of {sname}: `{m}` returns nothing"))
                    }
                };
                cur_struct = type_last_ident(&rt).filter(|n| u.structs.contains_key(n));
                cur_ty = Some(rt);
            } else {
                let sn = match &cur_struct {
                    Some(s) => s.clone(),
                    None => return self.err(sp, format!("observer `{path}` of {sname}: field of a non-struct")),
                };
                let at = match one(u.structs.get(&sn), &format!("struct {sn}")) {
                    Ok(a) => a,
                    Err(e) => return self.err(sp, format!("observer `{path}` of {sname}: {e}")),
                };
                let f = match &at.item.fields {
                    Fields::Named(n) => n.named.iter().find(|f| f.ident.as_ref().map(|i| i == seg).unwrap_or(false)),
                    _ => None,
                };
                let f = match f {
                    Some(f) => f,
                    None => return self.err_at(at.file, at.item.span(), format!("observer `{path}` of {sname}: no field `{seg}` in {sn}")),
                };
                cur_struct = type_last_ident(&f.ty).filter(|n| u.structs.contains_key(n));
                cur_ty = Some(f.ty.clone());
            }
        }
        let t = cur_ty.unwrap();
        let owner = cur_struct.clone();
        self.ty(&t, owner.as_deref()).map_err(|e| TErr {
            msg: format!("observer `{path}` of {sname}: {}", e.msg),
            ..e
        })
    }

    // ---- derived helpers: rank, eqb, setters

    fn enum_info(&self, name: &str) -> &EnumInfo {
        match self.types.get(name) {
            Some(TypeInfo::Enum(e)) => e,
            _ => panic!("enum_info {name}"),
        }
    }
    fn rec_info(&self, name: &str) -> &RecInfo {
        match self.types.get(name) {
            Some(TypeInfo::Rec(r)) => r,
            _ => panic!("rec_info {name}"),
        }
    }

    /// `T_rank : T -> N`, declaration order (what derive(PartialOrd, Ord) compares on a fieldless enum)
    fn ensure_rank(&mut self, name: &str, sp: Span) -> R<String> {
        let f = format!("{name}_rank");
        if self.helpers.contains(&f) {
            return Ok(f);
        }
        let ei = self.enum_info(name).clone();
        if !(ei.derives.contains("PartialOrd") || ei.derives.contains("Ord")) {
            return self.err(sp, format!("order comparison on `{name}`, which does not derive PartialOrd/Ord"));
        }
        if ei.variants.iter().any(|v| !v.fields.is_empty()) {
            return self.err(sp, format!("derived order on `{name}`, which has variants with fields"));
        }
        let mut text = format!("Definition {f} (x : {name}) : N :=\n  match x with");
        for (i, v) in ei.variants.iter().enumerate() {
            text += &format!("\n  | {name}_{} => {i}%N", v.name);
        }
        text += "\n  end.";
        self.helpers.insert(f.clone());
        self.emit(&f, text, format!("derive(PartialOrd, Ord) on enum {name}: declaration order"));
        Ok(f)
    }

    /// boolean equality term for two values of a type (derive(PartialEq) semantics)
    fn eqb(&mut self, t: &Ty, a: G, b: G, sp: Span) -> R<G> {
        Ok(match t {
            Ty::N | Ty::Duration => app("N.eqb", vec![a, b]),
            Ty::Z => app("Z.eqb", vec![a, b]),
            Ty::Bool => app("Bool.eqb", vec![a, b]),
            Ty::Unit => raw("true"),
            Ty::Str => app("String.eqb", vec![a, b]),
            Ty::Enum(n) => {
                let f = self.ensure_eqb(n, sp)?;
                app(&f, vec![a, b])
            }
            Ty::Option(inner) => {
                let e = self.eqb(inner, raw("x"), raw("y"), sp)?;
                G::Match(
                    Box::new(raw(format!("{}, {}", a.atom(0), b.atom(0)))),
                    vec![("Some x, Some y".into(), e), ("None, None".into(), raw("true")), ("_, _".into(), raw("false"))],
                )
            }
            _ => return self.err(sp, format!("`==` on values of type {}", t.coq())),
        })
    }

    fn ensure_eqb(&mut self, name: &str, sp: Span) -> R<String> {
        let f = format!("{name}_eqb");
        if self.helpers.contains(&f) {
            return Ok(f);
        }
        let ei = self.enum_info(name).clone();
        if !ei.derives.contains("PartialEq") {
            return self.err(sp, format!("`==` on `{name}`, which does not derive PartialEq"));
        }
        self.helpers.insert(f.clone());
        let mut arms = Vec::new();
        for v in &ei.variants {
            let kept: Vec<(usize, &Ty)> =
                v.fields.iter().enumerate().filter_map(|(i, f)| f.ty.as_ref().map(|t| (i, t))).collect();
            if v.fields.iter().any(|f| f.ty.is_none()) {
                return self.err(sp, format!("`==` on `{name}`, which has omitted fields"));
            }
            let xs: Vec<String> = kept.iter().map(|(i, _)| format!("x{i}")).collect();
            let ys: Vec<String> = kept.iter().map(|(i, _)| format!("y{i}")).collect();
            let mut body: Option<G> = None;
            for (i, t) in &kept {
                let e = self.eqb(t, raw(format!("x{i}")), raw(format!("y{i}")), sp)?;
                body = Some(match body {
                    None => e,
                    Some(b) => app("andb", vec![b, e]),
                });
            }
            let lhs = std::iter::once(format!("{name}_{}", v.name)).chain(xs).collect::<Vec<_>>().join(" ");
            let rhs = std::iter::once(format!("{name}_{}", v.name)).chain(ys).collect::<Vec<_>>().join(" ");
            arms.push((format!("{lhs}, {rhs}"), body.unwrap_or_else(|| raw("true"))));
        }
        if ei.variants.len() > 1 {
            arms.push(("_, _".into(), raw("false")));
        }
        let m = G::Match(Box::new(raw("a, b")), arms);
        let text = format!("Definition {f} (a b : {name}) : bool :=\n  {}.", m.render(2));
        self.emit(&f, text, format!("derive(PartialEq) on enum {name}"));
        Ok(f)
    }

    /// the value of `Default::default()` for a type whose Default is derived
    fn default_of(&mut self, t: &Ty, sp: Span) -> R<G> {
        Ok(match t {
            Ty::N | Ty::Duration => raw("0%N"),
            Ty::Z => raw("0%Z"),
            Ty::Bool => raw("false"),
            Ty::Unit | Ty::Never => raw("tt"),
            Ty::Option(_) => raw("None"),
            Ty::List(_) => raw("nil"),
            Ty::Omitted => raw("tt"),
            Ty::Enum(n) | Ty::Struct(n) => raw(self.ensure_default(n, sp)?),
            _ => return self.err(sp, format!("Default of {}", t.coq())),
        })
    }

    /// `T_default : T` for `#[derive(Default)]` (a struct: field by field; an enum: the variant marked `#[default]`)
    fn ensure_default(&mut self, name: &str, sp: Span) -> R<String> {
        let f = format!("{name}_default");
        if self.helpers.contains(&f) {
            return Ok(f);
        }
        let u = self.u;
        let text;
        if let Some(v) = u.structs.get(name) {
            let at = &v[0];
            if !derives(&at.item.attrs).contains("Default") {
                return self.err(sp, format!("`{name}::default()`: `{name}` does not derive Default (and has no `default` in the listed files)"));
            }
            let ri = self.rec_info(name).clone();
            if ri.view {
                return self.err(sp, format!("Default of the view `{name}`"));
            }
            let mut parts = vec![format!("mk_{name}")];
            for (_, _, t) in &ri.fields {
                let g = self.default_of(t, sp)?;
                parts.push(g.atom(0));
            }
            text = format!("Definition {f} : {name} := {}.", parts.join(" "));
        } else if let Some(v) = u.enums.get(name) {
            let at = &v[0];
            if !derives(&at.item.attrs).contains("Default") {
                return self.err(sp, format!("`{name}::default()`: `{name}` does not derive Default"));
            }
            let dv = at.item.variants.iter().find(|v| v.attrs.iter().any(|a| a.path().is_ident("default")));
            let dv = match dv {
                Some(v) if matches!(v.fields, Fields::Unit) => v.ident.to_string(),
                _ => return self.err(sp, format!("no unit variant of `{name}` is marked #[default]")),
            };
            if !self.enum_info(name).variants.iter().any(|v| v.name == dv) {
                return self.err(sp, format!("the default variant of `{name}` is not part of the translated enum"));
            }
            text = format!("Definition {f} : {name} := {name}_{dv}.");
        } else {
            return self.err(sp, format!("Default of `{name}`"));
        }
        self.helpers.insert(f.clone());
        self.emit(&f, text, format!("derive(Default) on {name}"));
        Ok(f)
    }

    /// `T_set_f (v : ty) (s : T) : T`
    fn ensure_setter(&mut self, sname: &str, field: &str, sp: Span) -> R<(String, Ty)> {
        let ri = self.rec_info(sname).clone();
        if ri.view {
            return self.err(sp, format!("assignment to a field of the view `{sname}`"));
        }
        let (_, proj, ty) = match ri.fields.iter().find(|(f, _, _)| f == field) {
            Some(x) => x.clone(),
            None => return self.err(sp, format!("no field `{field}` in `{sname}`")),
        };
        // (a Rust method of that name, e.g. a builder's `set_x`, keeps the name)
        let f = if self.u.methods.contains_key(&(sname.to_owned(), format!("set_{field}"))) {
            format!("{sname}_assign_{field}")
        } else {
            format!("{sname}_set_{field}")
        };
        if !self.helpers.contains(&f) {
            let xs: Vec<String> = (0..ri.fields.len()).map(|i| format!("x{i}")).collect();
            let ys: Vec<String> = ri
                .fields
                .iter()
                .enumerate()
                .map(|(i, (_, p, _))| if *p == proj { "v".to_owned() } else { format!("x{i}") })
                .collect();
            let text = format!(
                "Definition {f} (v : {}) (s : {sname}) : {sname} :=\n  match s with\n  | mk_{sname} {} =>\n      mk_{sname} {}\n  end.",
                ty.coq(),
                xs.join(" "),
                ys.join(" ")
            );
            self.helpers.insert(f.clone());
            self.emit(&f, text, format!("assignment to {sname}.{field}"));
        }
        Ok((f, ty))
    }
}

impl Spec {
    fn result_alias_error(&self) -> Option<String> {
        self.result_error.clone()
    }
}
