// Part of src/bin/decisions.rs (include!): requests, output, manifest.

fn fail(msg: String) -> ! {
    eprintln!("decisions: {msg}");
    std::process::exit(3)
}

fn split_origin(origin: &str) -> (String, String) {
    // "<file>:<line> <kind> <item> <hash>" -> (text without hash, hash)
    match origin.rsplit_once(' ') {
        Some((a, h)) if h.len() == 16 && h.chars().all(|c| c.is_ascii_hexdigit()) => (a.to_owned(), h.to_owned()),
        _ => (origin.to_owned(), String::new()),
    }
}

fn main() {
    let args: Vec<String> = std::env::args().collect();
    if args.len() < 2 {
        fail("usage: decisions <spec.json> [<manifest-out.json>]".into());
    }
    let repo = std::env::var("VERIF_REPO").unwrap_or_else(|_| "/repo".to_owned());
    let spec_text = std::fs::read_to_string(&args[1]).unwrap_or_else(|e| fail(format!("cannot read {}: {e}", args[1])));
    let spec: Spec = serde_json::from_str(&spec_text).unwrap_or_else(|e| fail(format!("cannot parse {}: {e}", args[1])));
    let mut u = Universe::default();
    let mut file_errors: Vec<String> = Vec::new();
    let mut extern_file: Option<syn::File> = None;
    if !spec.extern_items.is_empty() {
        // stand-ins for items of external crates, declared in the spec
        let idx = spec.files.len();
        let text = spec.extern_items.join("\n");
        match syn::parse_file(&text) {
            Err(e) => file_errors.push(format!("<spec:extern_items>:{}: cannot parse: {e}", e.span().start().line)),
            Ok(f) => {
                // (files are pushed below in order; the stand-ins come last)
                let _ = idx;
                extern_file = Some(f);
            }
        }
    }
    for (i, p) in spec.files.iter().enumerate() {
        u.files.push(p.clone());
        match std::fs::read_to_string(format!("{repo}/{p}")) {
            Err(e) => file_errors.push(format!("{p}:0: cannot read: {e}")),
            Ok(text) => match syn::parse_file(&text) {
                Err(e) => file_errors.push(format!("{p}:{}: cannot parse: {e}", e.span().start().line)),
                Ok(f) => u.add_items(i, &f.items),
            },
        }
    }
    if let Some(f) = &extern_file {
        u.files.push("<spec:extern_items>".to_owned());
        let idx = u.files.len() - 1;
        u.add_items(idx, &f.items);
    }
    let mut tr = Tr {
        u: &u,
        spec: &spec,
        out: Vec::new(),
        types: HashMap::new(),
        funcs: HashMap::new(),
        in_progress: Vec::new(),
        helpers: BTreeSet::new(),
        cur_file: String::new(),
        notes: Vec::new(),
        opaque: Vec::new(),
        req_ignore_assign: Vec::new(),
        effect_arg: None,
        effect_args: None,
        try_slots: None,
    };
    let _ = FEATURES.set(spec.cfg_features.clone());
    let mut results = Vec::new();
    let mut failed = 0usize;
    for rq in &spec.requests {
        let kind = rq.kind.clone().unwrap_or_else(|| "fn".to_owned());
        let label = rq.name.clone().unwrap_or_else(|| rq.item.clone());
        tr.in_progress.clear();
        tr.req_ignore_assign = rq.ignore_assign.clone();
        tr.cur_file = "<spec>".into();
        let first_new = tr.out.len();
        let r: R<String> = if !file_errors.is_empty() {
            Err(TErr { file: String::new(), line: 0, msg: file_errors.join("; "), excluded: false })
        } else {
            match kind.as_str() {
                "fn" => tr.ensure_fn(&rq.item, Span::call_site()).map(|fi| fi.coq),
                "rank" => tr.named_ty(&rq.item, Span::call_site()).and_then(|t| match t {
                    Ty::Enum(n) => tr.ensure_rank(&n, Span::call_site()),
                    _ => Err(TErr { file: "<spec>".into(), line: 0, msg: format!("`{}` is not an enum", rq.item), excluded: false }),
                }),
                "type" => tr.named_ty(&rq.item, Span::call_site()).map(|t| t.coq()),
                "tail_match" => tr.tail_match(rq),
                "local_value" => tr.local_value(rq),
                "after_call" => tr.after_call(rq),
                "loop_tail" => tr.loop_tail(rq),
                "guard_prefix" => tr.guard_prefix(rq),
                "call_trace" => tr.call_trace(rq),
                "effect_list" => tr.effect_list(rq),
                "closure_value" => tr.closure_value(rq),
                "loop_body" => tr.loop_body(rq),
                "loop_step" => tr.loop_step(rq),
                k => Err(TErr { file: "<spec>".into(), line: 0, msg: format!("unknown request kind `{k}`"), excluded: false }),
            }
        };
        match r {
            Ok(coq) => {
                let (origin, hash) = tr
                    .out
                    .iter()
                    .find(|e| e.coq == coq)
                    .map(|e| split_origin(&e.origin))
                    .unwrap_or_default();
                let new: Vec<String> = tr.out[first_new..].iter().map(|e| e.coq.clone()).collect();
                results.push(serde_json::json!({"request": label, "kind": kind, "ok": true, "coq": coq,
                                                "origin": origin, "hash": hash, "emitted": new}));
            }
            Err(e) => {
                failed += 1;
                eprintln!("decisions: ERROR {label}: {}:{}: {}", e.file, e.line, e.msg);
                results.push(serde_json::json!({"request": label, "kind": kind, "ok": false,
                                                "error": format!("{}:{}: {}", e.file, e.line, e.msg)}));
            }
        }
    }
    // ---- output
    let mut o = String::new();
    o += "(* GENERATED by harness/src/bin/decisions.rs from the Rust source of nextest -- do not edit.\n";
    o += "   Regenerated on every ./check run of the properties that use it (DESIGN 11.7, docs/notes/Gen.md).\n";
    o += "   Only Inductive / Record / Definition; the bridge lemmas to the hand-written models are in\n";
    o += "   Proofs/GenBridge.v, the statements in Properties/Gen.v.\n";
    o += "   Conventions: usize and the other unsigned integer types are N, unbounded: arithmetic overflow is\n";
    o += "   out of scope (saturating_sub is N.sub, which truncates at 0; saturating_add and + are N.add);\n";
    o += "   signed integers are Z; std::time::Duration is N (only is_zero is translated); references are\n";
    o += "   erased; a panic is not modelled; a `&mut self` method is a function returning the updated\n";
    o += "   record; Result<A, B> is sum A B (Ok = inl, Err = inr); configuration: unix, not(test).\n";
    o += "   Local variables are prefixed v_, constructors and fields with their type's name.\n";
    o += "   Sources (file:line item, xxh64 of the item's token stream):\n";
    for e in &tr.out {
        let (a, h) = split_origin(&e.origin);
        if h.is_empty() {
            o += &format!("     {} <- {}\n", e.coq, a);
        } else {
            o += &format!("     {} <- {} [{}]\n", e.coq, a, h);
        }
    }
    if !tr.notes.is_empty() {
        o += "   Declared omissions:\n";
        let mut seen = BTreeSet::new();
        for n in &tr.notes {
            if seen.insert(n.clone()) {
                o += &format!("     {}\n", n.replace("(*", "( *").replace("*)", "* )"));
            }
        }
    }
    if !spec.extern_items.is_empty() {
        o += "   Stand-ins for items of external crates (declared in the spec, not read from any source):\n";
        for it in &spec.extern_items {
            o += &format!("     {}\n", it.replace("(*", "( *").replace("*)", "* )"));
        }
    }
    for r in &results {
        if r["ok"] == false {
            o += &format!(
                "   NOT TRANSLATED {}: {}\n",
                r["request"].as_str().unwrap_or(""),
                r["error"].as_str().unwrap_or("").replace("(*", "( *").replace("*)", "* )")
            );
        }
    }
    o += "*)\n";
    let module = spec.module.clone().unwrap_or_else(|| "Gen".to_owned());
    let list_import = if spec.module.is_some() { " List" } else { "" };
    o += &format!("From Coq Require Import NArith ZArith Bool{list_import}.\nFrom Coq Require Import Strings.String.\n\nModule {module}.\n\n");
    for e in &tr.out {
        o += &e.text;
        o += "\n\n";
    }
    o += &format!("End {module}.\n");
    print!("{o}");
    if let Some(mp) = args.get(2) {
        let defs: Vec<serde_json::Value> = tr
            .out
            .iter()
            .map(|e| {
                let (a, h) = split_origin(&e.origin);
                serde_json::json!({"coq": e.coq, "origin": a, "hash": h})
            })
            .collect();
        let m = serde_json::json!({"requests": results, "definitions": defs, "notes": tr.notes});
        if let Err(e) = std::fs::write(mp, serde_json::to_string_pretty(&m).unwrap()) {
            fail(format!("cannot write {mp}: {e}"));
        }
    }
    if failed > 0 {
        std::process::exit(3);
    }
}

impl<'u> Tr<'u> {
    /// the final `match` of a large function, translated as a function of the declared free
    /// variables (kind "tail_match")
    fn tail_match(&mut self, rq: &Request) -> R<String> {
        let sp = Span::call_site();
        let name = match &rq.name {
            Some(n) => n.clone(),
            None => return self.err(sp, "tail_match request without a name"),
        };
        let (t, m) = match rq.item.split_once("::") {
            Some(x) => x,
            None => return self.err(sp, "tail_match request: item must be Type::method"),
        };
        let u = self.u;
        let at = match one(u.methods.get(&(t.to_owned(), m.to_owned())), &format!("method {}", rq.item)) {
            Ok(a) => a,
            Err(msg) => return self.err(sp, msg),
        };
        self.cur_file = u.files[at.file].clone();
        let sig = &at.item.sig;
        let want = rq.scrutinee.clone().unwrap_or_default().replace(' ', "");
        let mm = match at.item.block.stmts.last() {
            Some(Stmt::Expr(Expr::Match(mm), None)) if !want.is_empty() && norm(&mm.expr).starts_with(&want) => mm,
            _ => {
                return self.err(
                    sig.ident.span(),
                    format!("the body of `{}` does not end in `match {}.. {{ .. }}`", rq.item, rq.scrutinee.clone().unwrap_or_default()),
                )
            }
        };
        let mut env = Env { self_ty: Some(t.to_owned()), ..Env::default() };
        let mut binders = Vec::new();
        for (text, tyname) in &rq.params {
            let ty: Type = match syn::parse_str(tyname) {
                Ok(t) => t,
                Err(e) => return self.err(sp, format!("parameter type `{tyname}`: {e}")),
            };
            let ty = self.ty(&ty, Some(t))?;
            let clean: String = text.chars().map(|c| if c.is_alphanumeric() { c } else { '_' }).collect();
            let cn = local_name(&clean);
            binders.push(format!("({cn} : {})", ty.coq()));
            env.binds.push(Bind { rust: text.replace(' ', ""), coq: cn, ty, poisoned: None });
        }
        self.cur_file = u.files[at.file].clone();
        let ret = match &sig.output {
            ReturnType::Default => Ty::Unit,
            ReturnType::Type(_, ty) => self.ty(ty, Some(t))?,
        };
        self.cur_file = u.files[at.file].clone();
        env.ret = Some(ret.clone());
        let whole = Expr::Match(mm.clone());
        let (g, _) = self.tail_value(&whole, &env, Some(&ret))?;
        let text = format!("Definition {name} {} : {} :=\n  {}.", binders.join(" "), ret.coq(), g.render(2));
        let origin = format!(
            "{}:{} final match of fn {} {}",
            self.cur_file,
            mm.match_token.span.start().line,
            rq.item,
            tok_hash(mm)
        );
        self.notes.push(format!(
            "{name} is the final `match` of {} as a function of {}; the rest of that function is not translated",
            rq.item,
            rq.params.iter().map(|(a, _)| format!("`{a}`")).collect::<Vec<_>>().join(", ")
        ));
        self.emit(&name, text, origin);
        Ok(name)
    }
}
