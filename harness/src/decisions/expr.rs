// Part of src/bin/decisions.rs (include!): expressions and patterns.

struct ArmG {
    pat: String,
    guard: Option<G>,
    body: G,
    irrefutable: bool,
}

fn strip_refs(e: &Expr) -> &Expr {
    match e {
        Expr::Paren(p) => strip_refs(&p.expr),
        Expr::Group(p) => strip_refs(&p.expr),
        Expr::Reference(r) => strip_refs(&r.expr),
        Expr::Unary(u) if matches!(u.op, UnOp::Deref(_)) => strip_refs(&u.expr),
        _ => e,
    }
}

fn assemble_match(scrut: &G, arms: &[ArmG]) -> Result<G, String> {
    let mut out = Vec::new();
    for (i, a) in arms.iter().enumerate() {
        match &a.guard {
            None => out.push((a.pat.clone(), a.body.clone())),
            Some(g) => {
                if i + 1 == arms.len() {
                    return Err("a guarded arm is the last arm of its match".into());
                }
                let rest = assemble_match(scrut, &arms[i + 1..])?;
                out.push((a.pat.clone(), G::If(Box::new(g.clone()), Box::new(a.body.clone()), Box::new(rest.clone()))));
                if !a.irrefutable {
                    out.push(("_".into(), rest));
                }
                return Ok(G::Match(Box::new(scrut.clone()), out));
            }
        }
    }
    Ok(G::Match(Box::new(scrut.clone()), out))
}

fn contains_return_expr(e: &Expr) -> bool {
    struct V(bool);
    impl<'ast> syn::visit::Visit<'ast> for V {
        fn visit_expr_return(&mut self, _: &'ast syn::ExprReturn) {
            self.0 = true;
        }
        fn visit_expr_closure(&mut self, _: &'ast syn::ExprClosure) {}
        fn visit_item(&mut self, _: &'ast Item) {}
    }
    let mut v = V(false);
    syn::visit::Visit::visit_expr(&mut v, e);
    v.0
}

/// `e?` somewhere in the expression (closures and items are not entered)
fn contains_try_expr(e: &Expr) -> bool {
    struct V(bool);
    impl<'ast> syn::visit::Visit<'ast> for V {
        fn visit_expr_try(&mut self, _: &'ast syn::ExprTry) {
            self.0 = true;
        }
        fn visit_expr_closure(&mut self, _: &'ast syn::ExprClosure) {}
        fn visit_item(&mut self, _: &'ast Item) {}
    }
    let mut v = V(false);
    syn::visit::Visit::visit_expr(&mut v, e);
    v.0
}

/// the number of `e?` in positions that are evaluated whenever the expression is (operands of calls, method calls,
/// constructors, tuples, references, field accesses), or None when a `?` stands anywhere else (a branch, a closure,
/// the right operand of `&&` / `||`): such a `?` cannot be hoisted in front of the expression
fn strict_tries(e: &Expr) -> Option<usize> {
    match e {
        Expr::Try(t) => strict_tries(&t.expr).map(|n| n + 1),
        Expr::Paren(p) => strict_tries(&p.expr),
        Expr::Group(p) => strict_tries(&p.expr),
        Expr::Reference(r) => strict_tries(&r.expr),
        Expr::Field(f) => strict_tries(&f.base),
        Expr::Unary(u) => strict_tries(&u.expr),
        Expr::Call(c) => {
            let mut n = 0;
            for a in &c.args {
                n += strict_tries(a)?;
            }
            Some(n)
        }
        Expr::MethodCall(m) => {
            let mut n = strict_tries(&m.receiver)?;
            for a in &m.args {
                n += strict_tries(a)?;
            }
            Some(n)
        }
        Expr::Tuple(t) => {
            let mut n = 0;
            for a in &t.elems {
                n += strict_tries(a)?;
            }
            Some(n)
        }
        other => {
            if contains_try_expr(other) {
                None
            } else {
                Some(0)
            }
        }
    }
}

/// a Coq term for an ASCII byte string: printable stretches as string literals, any other byte with the constructor of
/// Coq's `ascii` (least significant bit first)
fn coq_string_ctl(v: &[u8]) -> String {
    let printable = |c: u8| c.is_ascii() && !c.is_ascii_control();
    if v.iter().all(|c| printable(*c)) {
        return coq_string(std::str::from_utf8(v).unwrap_or(""));
    }
    // right-nested: lit ++ (String c (lit ++ ...))
    fn go(v: &[u8], printable: &dyn Fn(u8) -> bool) -> String {
        if v.is_empty() {
            return "EmptyString".to_owned();
        }
        if printable(v[0]) {
            let n = v.iter().position(|c| !printable(*c)).unwrap_or(v.len());
            let lit = coq_string(std::str::from_utf8(&v[..n]).unwrap_or(""));
            if n == v.len() {
                return lit;
            }
            return format!("(String.append {lit} {})", go(&v[n..], printable));
        }
        let code = v[0] as u32;
        let bits: Vec<&str> = (0..8).map(|i| if (code >> i) & 1 == 1 { "true" } else { "false" }).collect();
        format!("(String (Ascii.Ascii {}) {})", bits.join(" "), go(&v[1..], printable))
    }
    go(v, &printable)
}

fn contains_return_block(b: &Block) -> bool {
    struct V(bool);
    impl<'ast> syn::visit::Visit<'ast> for V {
        fn visit_expr_return(&mut self, _: &'ast syn::ExprReturn) {
            self.0 = true;
        }
        fn visit_expr_closure(&mut self, _: &'ast syn::ExprClosure) {}
        fn visit_item(&mut self, _: &'ast Item) {}
    }
    let mut v = V(false);
    syn::visit::Visit::visit_block(&mut v, b);
    v.0
}

struct MatchesMacro {
    expr: Expr,
    pat: Pat,
    guard: Option<Expr>,
}
impl syn::parse::Parse for MatchesMacro {
    fn parse(input: syn::parse::ParseStream) -> syn::Result<Self> {
        let expr: Expr = input.parse()?;
        input.parse::<syn::Token![,]>()?;
        let pat = Pat::parse_multi_with_leading_vert(input)?;
        let guard = if input.peek(syn::Token![if]) {
            input.parse::<syn::Token![if]>()?;
            Some(input.parse::<Expr>()?)
        } else {
            None
        };
        let _ = input.parse::<Option<syn::Token![,]>>()?;
        Ok(MatchesMacro { expr, pat, guard })
    }
}

enum Resolved {
    Variant(String, VarInfo),
    Const(String, String),
    /// a variant left out by `enum_subset`
    Excluded(String, String),
}

impl<'u> Tr<'u> {
    // ------------------------------------------------------------------------------ path resolution

    /// a path that names an enum variant (or an associated constant)
    fn resolve_path(&mut self, path: &syn::Path, env: &Env) -> R<Option<Resolved>> {
        let segs: Vec<String> = path.segments.iter().map(|s| s.ident.to_string()).collect();
        let sp = path.span();
        if segs.len() == 1 {
            for g in env.globs.clone() {
                self.named_ty(&g, sp)?;
                if let Some(v) = self.enum_info(&g).variants.iter().find(|v| v.name == segs[0]) {
                    return Ok(Some(Resolved::Variant(g.clone(), v.clone())));
                }
            }
            return Ok(None);
        }
        let tname = match segs[segs.len() - 2].as_str() {
            "Self" => match &env.self_ty {
                Some(s) => s.clone(),
                None => return self.err(sp, "`Self` outside an impl"),
            },
            s => s.to_owned(),
        };
        let vname = &segs[segs.len() - 1];
        if self.u.consts.contains_key(&(tname.clone(), vname.clone())) {
            return Ok(Some(Resolved::Const(tname, vname.clone())));
        }
        if self.u.enums.contains_key(&tname) {
            self.named_ty(&tname, sp)?;
            if let Some(v) = self.enum_info(&tname).variants.iter().find(|v| &v.name == vname) {
                return Ok(Some(Resolved::Variant(tname.clone(), v.clone())));
            }
            if self.enum_info(&tname).excluded.iter().any(|x| x == vname) {
                return Ok(Some(Resolved::Excluded(tname.clone(), vname.clone())));
            }
        }
        if self.u.consts.contains_key(&(tname.clone(), vname.clone())) {
            return Ok(Some(Resolved::Const(tname, vname.clone())));
        }
        Ok(None)
    }

    fn variant_term(&self, en: &str, v: &VarInfo, args: Vec<Option<G>>) -> G {
        let mut parts = vec![raw(format!("{en}_{}", v.name))];
        for (f, a) in v.fields.iter().zip(args) {
            if f.ty.is_some() {
                parts.push(a.expect("kept field without a value"));
            }
        }
        G::App(parts)
    }

    fn ensure_const(&mut self, tname: &str, cname: &str, sp: Span) -> R<(G, Ty)> {
        let key = format!("{tname}::{cname}");
        let coq = format!("{tname}_{cname}");
        if let Some(fi) = self.funcs.get(&key) {
            return Ok((raw(fi.coq.clone()), fi.ret.clone()));
        }
        let u = self.u;
        let at = match one(u.consts.get(&(tname.to_owned(), cname.to_owned())), &format!("constant {key}")) {
            Ok(a) => a,
            Err(m) => return self.err(sp, m),
        };
        let saved = self.cur_file.clone();
        self.cur_file = u.files[at.file].clone();
        let r = (|| {
            let ty = self.ty(&at.item.ty, Some(tname))?;
            let env = Env { self_ty: Some(tname.to_owned()), ..Env::default() };
            let (g, _) = self.expr(&at.item.expr, &env, Some(&ty))?;
            let text = format!("Definition {coq} : {} := {}.", ty.coq(), g.render(2));
            let origin = format!("{}:{} const {key} {}", self.cur_file, at.item.span().start().line, tok_hash(&at.item.expr));
            self.emit(&coq, text, origin);
            self.funcs.insert(key.clone(), FnInfo { coq: coq.clone(), has_self: false, mutating: false, params: vec![], ret: ty.clone(), partial: false, untranslated: false, opaque: vec![] });
            Ok((raw(coq.clone()), ty))
        })();
        self.cur_file = saved;
        r
    }

    // ------------------------------------------------------------------------------------ patterns

    fn is_irrefutable(&self, p: &Pat, env: &Env) -> bool {
        match p {
            Pat::Wild(_) => true,
            Pat::Ident(i) => {
                let n = i.ident.to_string();
                n != "None" && !env.globs.iter().any(|g| self.enum_info(g).variants.iter().any(|v| v.name == n))
            }
            Pat::Tuple(t) => t.elems.iter().all(|e| self.is_irrefutable(e, env)),
            Pat::Reference(r) => self.is_irrefutable(&r.pat, env),
            Pat::Paren(r) => self.is_irrefutable(&r.pat, env),
            Pat::Rest(_) => true,
            Pat::Or(o) => o.cases.iter().any(|c| self.is_irrefutable(c, env)),
            _ => false,
        }
    }

    fn lit_pattern(&self, l: &Lit, ty: &Ty, sp: Span) -> R<String> {
        match (l, ty) {
            (Lit::Bool(b), _) => Ok(if b.value { "true".into() } else { "false".into() }),
            (Lit::Int(i), Ty::N) => Ok(format!("{}%N", i.base10_digits())),
            (Lit::Int(i), Ty::Z) => Ok(format!("{}%Z", i.base10_digits())),
            _ => self.err(sp, "unsupported literal pattern"),
        }
    }

    fn excluded<T>(&self, sp: Span, en: &str, v: &str) -> R<T> {
        Err(TErr {
            file: self.cur_file.clone(),
            line: sp.start().line,
            msg: format!("`{en}::{v}` is left out by enum_subset"),
            excluded: true,
        })
    }

    /// translate a pattern against a scrutinee type; new bindings are pushed to `env`. An error
    /// with `excluded` set means: the pattern can only match variants left out by enum_subset.
    fn pattern(&mut self, p: &Pat, ty: &Ty, env: &mut Env) -> R<String> {
        let sp = p.span();
        match p {
            Pat::Wild(_) => Ok("_".into()),
            Pat::Paren(x) => self.pattern(&x.pat, ty, env),
            Pat::Reference(x) => self.pattern(&x.pat, ty, env),
            Pat::Lit(l) => self.lit_pattern(&l.lit, ty, sp),
            Pat::Ident(i) => {
                if i.subpat.is_some() {
                    return self.err(sp, "`name @ pattern`");
                }
                let n = i.ident.to_string();
                if n == "None" {
                    return Ok("None".into());
                }
                let as_path: syn::Path = i.ident.clone().into();
                if let Some(Resolved::Variant(en, v)) = self.resolve_path(&as_path, env)? {
                    if !v.fields.is_empty() {
                        return self.err(sp, format!("variant `{n}` used without its fields"));
                    }
                    return Ok(format!("{en}_{}", v.name));
                }
                let coq = local_name(&n);
                env.binds.push(Bind { rust: n, coq: coq.clone(), ty: ty.clone(), poisoned: None });
                Ok(coq)
            }
            Pat::Path(pp) => {
                match self.resolve_path(&pp.path, env)? {
                    Some(Resolved::Variant(en, v)) => {
                        if v.fields.iter().any(|f| f.ty.is_some()) {
                            return self.err(sp, "variant used without its fields");
                        }
                        Ok(format!("{en}_{}", v.name))
                    }
                    Some(Resolved::Excluded(en, v)) => self.excluded(sp, &en, &v),
                    _ => self.err(sp, format!("unsupported path pattern `{}`", norm(p))),
                }
            }
            Pat::Tuple(t) => {
                let tys = match ty {
                    Ty::Tuple(ts) if ts.len() == t.elems.len() => ts.clone(),
                    _ => return self.err(sp, format!("tuple pattern against {}", ty.coq())),
                };
                let mut parts = Vec::new();
                for (e, t) in t.elems.iter().zip(tys.iter()) {
                    parts.push(self.pattern(e, t, env)?);
                }
                Ok(format!("({})", parts.join(", ")))
            }
            Pat::Or(o) => {
                let mut alts = Vec::new();
                let mut names: Option<BTreeSet<String>> = None;
                let base = env.binds.len();
                let mut first_env: Option<Env> = None;
                let mut last_excluded: Option<TErr> = None;
                for c in &o.cases {
                    let mut e2 = env.clone();
                    match self.pattern(c, ty, &mut e2) {
                        Ok(a) => alts.push(a),
                        Err(e) if e.excluded => {
                            last_excluded = Some(e);
                            continue;
                        }
                        Err(e) => return Err(e),
                    }
                    let ns: BTreeSet<String> = e2.binds[base..].iter().map(|b| b.rust.clone()).collect();
                    match &names {
                        None => names = Some(ns),
                        Some(prev) if *prev != ns => return self.err(sp, "alternatives of an or-pattern bind different names"),
                        _ => {}
                    }
                    if first_env.is_none() {
                        first_env = Some(e2);
                    }
                }
                if alts.is_empty() {
                    return Err(last_excluded.unwrap());
                }
                *env = first_env.unwrap();
                Ok(if alts.len() == 1 { alts.pop().unwrap() } else { format!("({})", alts.join(" | ")) })
            }
            Pat::TupleStruct(ts) => {
                let segs: Vec<String> = ts.path.segments.iter().map(|s| s.ident.to_string()).collect();
                if segs.len() == 1 && (segs[0] == "Some" || segs[0] == "Ok" || segs[0] == "Err") {
                    if ts.elems.len() != 1 {
                        return self.err(sp, "constructor pattern with the wrong number of fields");
                    }
                    let (inner, ctor) = match (segs[0].as_str(), ty) {
                        ("Some", Ty::Option(t)) => ((**t).clone(), "Some"),
                        ("Ok", Ty::Result(a, _)) => ((**a).clone(), "inl"),
                        ("Err", Ty::Result(_, b)) => ((**b).clone(), "inr"),
                        _ => return self.err(sp, format!("`{}` pattern against {}", segs[0], ty.coq())),
                    };
                    let s = self.pattern(&ts.elems[0], &inner, env)?;
                    return Ok(format!("({ctor} {s})"));
                }
                let (en, v) = match self.resolve_path(&ts.path, env)? {
                    Some(Resolved::Variant(en, v)) => (en, v),
                    Some(Resolved::Excluded(en, v)) => return self.excluded(sp, &en, &v),
                    _ => return self.err(sp, format!("unknown constructor in pattern `{}`", norm(&ts.path))),
                };
                let elems: Vec<&Pat> = ts.elems.iter().collect();
                let rest_at = elems.iter().position(|e| matches!(e, Pat::Rest(_)));
                let n = v.fields.len();
                let mut slots: Vec<Option<&Pat>> = vec![None; n];
                match rest_at {
                    None => {
                        if elems.len() != n {
                            return self.err(sp, "constructor pattern with the wrong number of fields");
                        }
                        for (i, e) in elems.iter().enumerate() {
                            slots[i] = Some(e);
                        }
                    }
                    Some(r) => {
                        let after = elems.len() - r - 1;
                        if r + after > n {
                            return self.err(sp, "constructor pattern with too many fields");
                        }
                        for i in 0..r {
                            slots[i] = Some(elems[i]);
                        }
                        for j in 0..after {
                            slots[n - after + j] = Some(elems[r + 1 + j]);
                        }
                    }
                }
                self.ctor_pattern(&en, &v, slots, env, sp)
            }
            Pat::Struct(ps) => {
                let (en, v) = match self.resolve_path(&ps.path, env)? {
                    Some(Resolved::Variant(en, v)) => (en, v),
                    Some(Resolved::Excluded(en, v)) => return self.excluded(sp, &en, &v),
                    _ => return self.err(sp, format!("unknown constructor in pattern `{}`", norm(&ps.path))),
                };
                let mut slots: Vec<Option<&Pat>> = vec![None; v.fields.len()];
                for fp in &ps.fields {
                    let name = match &fp.member {
                        Member::Named(i) => i.to_string(),
                        Member::Unnamed(i) => i.index.to_string(),
                    };
                    let idx = v.fields.iter().enumerate().position(|(i, f)| match &f.name {
                        Some(n) => *n == name,
                        None => i.to_string() == name,
                    });
                    match idx {
                        Some(i) => slots[i] = Some(&*fp.pat),
                        None => return self.err(fp.span(), format!("no field `{name}` in {en}::{}", v.name)),
                    }
                }
                if ps.rest.is_none() && slots.iter().any(|s| s.is_none()) {
                    return self.err(sp, "struct pattern does not mention every field and has no `..`");
                }
                self.ctor_pattern(&en, &v, slots, env, sp)
            }
            _ => self.err(sp, format!("unsupported pattern `{}`", norm(p))),
        }
    }

    fn ctor_pattern(&mut self, en: &str, v: &VarInfo, slots: Vec<Option<&Pat>>, env: &mut Env, sp: Span) -> R<String> {
        let mut parts = vec![format!("{en}_{}", v.name)];
        for (f, s) in v.fields.iter().zip(slots) {
            match (&f.ty, s) {
                (Some(t), Some(p)) => parts.push(self.pattern(p, t, env)?),
                (Some(_), None) => parts.push("_".into()),
                (None, None) => {}
                (None, Some(p)) => {
                    // omitted field: whatever it binds cannot be used (a probe may name it as its receiver: then the
                    // binding must carry the field's own name, so that the receiver text says which field is asked)
                    let renamed = match (p, &f.name) {
                        (Pat::Ident(i), Some(fname)) => i.ident != fname.as_str(),
                        _ => false,
                    };
                    let why = if renamed {
                        format!("bound under another name to the omitted field `{}` of {en}::{}", f.name.clone().unwrap_or_default(), v.name)
                    } else {
                        format!("bound to an omitted field of {en}::{}", v.name)
                    };
                    self.poison_pattern(p, env, &why, sp)?;
                }
            }
        }
        Ok(if parts.len() == 1 { parts.pop().unwrap() } else { format!("({})", parts.join(" ")) })
    }

    fn poison_pattern(&mut self, p: &Pat, env: &mut Env, why: &str, sp: Span) -> R<()> {
        match p {
            Pat::Wild(_) | Pat::Rest(_) => Ok(()),
            Pat::Ident(i) if i.subpat.is_none() => {
                let n = i.ident.to_string();
                env.binds.push(Bind { rust: n.clone(), coq: local_name(&n), ty: Ty::Never, poisoned: Some(why.to_owned()) });
                Ok(())
            }
            Pat::Reference(r) => self.poison_pattern(&r.pat, env, why, sp),
            Pat::Type(t) => self.poison_pattern(&t.pat, env, why, sp),
            // a struct / tuple pattern: every name it binds (fifth round; glue family)
            Pat::Struct(_) | Pat::TupleStruct(_) | Pat::Tuple(_) | Pat::Paren(_) if self.spec.module.is_some() => {
                let mut names = Vec::new();
                pat_idents(p, &mut names);
                for n in names {
                    env.binds.push(Bind { rust: n.clone(), coq: local_name(&n), ty: Ty::Never, poisoned: Some(why.to_owned()) });
                }
                Ok(())
            }
            _ => self.err(sp, format!("pattern `{}` on something that is not translated ({why})", norm(p))),
        }
    }

    // --------------------------------------------------------------------------------- expressions

    fn lit(&self, l: &Lit, hint: Option<&Ty>, sp: Span) -> R<(G, Ty)> {
        match l {
            Lit::Bool(b) => Ok((raw(if b.value { "true" } else { "false" }), Ty::Bool)),
            Lit::Int(i) => {
                let ty = match i.suffix() {
                    "" => match hint {
                        Some(Ty::Z) => Ty::Z,
                        Some(Ty::N) | None => Ty::N,
                        Some(Ty::Never) => Ty::N,
                        Some(t) => return self.err(sp, format!("integer literal where {} is expected", t.coq())),
                    },
                    "usize" | "u8" | "u16" | "u32" | "u64" | "u128" => Ty::N,
                    "isize" | "i8" | "i16" | "i32" | "i64" | "i128" => Ty::Z,
                    s => return self.err(sp, format!("literal suffix `{s}`")),
                };
                let d: u128 = match i.base10_parse() {
                    Ok(d) => d,
                    Err(_) => return self.err(sp, "integer literal out of range"),
                };
                Ok((raw(format!("{d}%{}", if ty == Ty::Z { "Z" } else { "N" })), ty))
            }
            Lit::Str(st) => {
                let v = st.value();
                if v.is_ascii() && v.chars().any(|c| c.is_ascii_control()) && self.spec.module.is_some() {
                    // control characters (a newline) are written with the constructor of Coq's ascii (fifth round)
                    return Ok((raw(coq_string_ctl(v.as_bytes())), Ty::Str));
                }
                if !v.chars().all(|c| c.is_ascii() && !c.is_ascii_control()) {
                    return self.err(sp, "string literal with non-printable or non-ASCII characters");
                }
                Ok((raw(coq_string(&v)), Ty::Str))
            }
            // a byte string literal: Coq strings are byte strings
            Lit::ByteStr(bs) if self.spec.strings => {
                let v = bs.value();
                if !v.is_ascii() {
                    return self.err(sp, "byte string literal with non-ASCII bytes");
                }
                Ok((raw(coq_string_ctl(&v)), Ty::Str))
            }
            _ => self.err(sp, "unsupported literal (only integers, booleans and ASCII strings)"),
        }
    }

    /// try to read `e` as an observer of a view: base.seg1.seg2...
    fn try_view_path(&mut self, e: &Expr, env: &Env) -> Option<(G, Ty)> {
        let mut segs: Vec<String> = Vec::new();
        let mut cur = e;
        let mut bases: Vec<(&Expr, Vec<String>)> = Vec::new();
        loop {
            match cur {
                Expr::Field(f) => {
                    if let Member::Named(i) = &f.member {
                        segs.insert(0, i.to_string());
                        cur = &f.base;
                        bases.push((cur, segs.clone()));
                    } else {
                        break;
                    }
                }
                Expr::MethodCall(m)
                    if (m.args.is_empty() || self.spec.observer_calls.iter().any(|c| m.method == c)) && m.turbofish.is_none() =>
                {
                    segs.insert(0, format!("{}()", m.method));
                    cur = &m.receiver;
                    bases.push((cur, segs.clone()));
                }
                Expr::Paren(p) => cur = &p.expr,
                Expr::Reference(r) => cur = &r.expr,
                _ => break,
            }
        }
        // longest base first is the innermost expression: try the shortest base (most segments) first
        for (base, path) in bases.iter().rev() {
            let saved_out = self.out.len();
            let r = self.expr(base, env, None);
            if let Ok((g, Ty::Struct(sn))) = r {
                if let Some(TypeInfo::Rec(ri)) = self.types.get(&sn) {
                    if ri.view {
                        let p = path.join(".");
                        if let Some((_, proj, t)) = ri.fields.iter().find(|(o, _, _)| *o == p) {
                            return Some((app(proj, vec![g]), t.clone()));
                        }
                    }
                }
            } else {
                let _ = saved_out;
            }
        }
        None
    }

    fn cmp_operands(&mut self, l: &Expr, r: &Expr, env: &Env) -> R<(G, G, Ty)> {
        let l_lit = matches!(l, Expr::Lit(_));
        if l_lit && !matches!(r, Expr::Lit(_)) {
            let (gr, tr) = self.expr(r, env, None)?;
            let (gl, _) = self.expr(l, env, Some(&tr))?;
            Ok((gl, gr, tr))
        } else {
            let (gl, tl) = self.expr(l, env, None)?;
            let (gr, tr) = self.expr(r, env, Some(&tl))?;
            let t = if matches!(tl, Ty::Option(ref i) if **i == Ty::Never) { tr } else { tl };
            Ok((gl, gr, t))
        }
    }

    fn binary(&mut self, b: &syn::ExprBinary, env: &Env, hint: Option<&Ty>) -> R<(G, Ty)> {
        let sp = b.span();
        match &b.op {
            BinOp::And(_) | BinOp::Or(_) => {
                let (l, tl) = self.expr(&b.left, env, Some(&Ty::Bool))?;
                let (r, tr) = self.expr(&b.right, env, Some(&Ty::Bool))?;
                if tl != Ty::Bool || tr != Ty::Bool {
                    return self.err(sp, "`&&`/`||` on non-booleans");
                }
                let f = if matches!(b.op, BinOp::And(_)) { "andb" } else { "orb" };
                Ok((app(f, vec![l, r]), Ty::Bool))
            }
            BinOp::Add(_) | BinOp::Mul(_) => {
                let l_lit = matches!(&*b.left, Expr::Lit(_));
                let (l, r, t) = if l_lit {
                    let (r, tr) = self.expr(&b.right, env, hint)?;
                    let (l, _) = self.expr(&b.left, env, Some(&tr))?;
                    (l, r, tr)
                } else {
                    let (l, tl) = self.expr(&b.left, env, hint)?;
                    let (r, _) = self.expr(&b.right, env, Some(&tl))?;
                    (l, r, tl)
                };
                let add = matches!(b.op, BinOp::Add(_));
                let f = match (&t, add) {
                    (Ty::N, true) => "N.add",
                    (Ty::N, false) => "N.mul",
                    (Ty::Z, true) => "Z.add",
                    (Ty::Z, false) => "Z.mul",
                    _ => return self.err(sp, format!("arithmetic on {}", t.coq())),
                };
                Ok((app(f, vec![l, r]), t))
            }
            BinOp::Sub(_) if env.allow_sub => {
                let (l, tl) = self.expr(&b.left, env, Some(&Ty::N))?;
                let (r, trr) = self.expr(&b.right, env, Some(&Ty::N))?;
                if tl != Ty::N || trr != Ty::N {
                    return self.err(sp, "`-` on something other than unsigned integers");
                }
                self.notes.push(format!(
                    "{}:{}: `{}` is N.sub (an underflow would panic: out of scope, like overflow)",
                    self.cur_file,
                    sp.start().line,
                    norm(b)
                ));
                Ok((app("N.sub", vec![l, r]), Ty::N))
            }
            BinOp::Sub(_) => self.err(sp, "`-` (underflow would panic or wrap; only saturating_sub is in the subset)"),
            BinOp::Eq(_) | BinOp::Ne(_) => {
                let (l, r, t) = self.cmp_operands(&b.left, &b.right, env)?;
                let e = self.eqb(&t, l, r, sp)?;
                Ok((if matches!(b.op, BinOp::Ne(_)) { app("negb", vec![e]) } else { e }, Ty::Bool))
            }
            BinOp::Lt(_) | BinOp::Le(_) | BinOp::Gt(_) | BinOp::Ge(_) => {
                let (l, r, t) = self.cmp_operands(&b.left, &b.right, env)?;
                let (l, r, pre) = match &t {
                    Ty::N => (l, r, "N"),
                    Ty::Z => (l, r, "Z"),
                    Ty::Enum(n) => {
                        let f = self.ensure_rank(n, sp)?;
                        (app(&f, vec![l]), app(&f, vec![r]), "N")
                    }
                    _ => return self.err(sp, format!("order comparison on {}", t.coq())),
                };
                let g = match &b.op {
                    BinOp::Lt(_) => app(&format!("{pre}.ltb"), vec![l, r]),
                    BinOp::Le(_) => app(&format!("{pre}.leb"), vec![l, r]),
                    BinOp::Gt(_) => app(&format!("{pre}.ltb"), vec![r, l]),
                    _ => app(&format!("{pre}.leb"), vec![r, l]),
                };
                Ok((g, Ty::Bool))
            }
            _ => self.err(sp, format!("unsupported operator in `{}`", norm(b))),
        }
    }

    fn call_args(&mut self, args: Vec<&Expr>, tys: &[Ty], env: &Env, sp: Span) -> R<Vec<G>> {
        if args.len() != tys.len() {
            return self.err(sp, "wrong number of arguments");
        }
        let mut out = Vec::new();
        for (a, t) in args.iter().zip(tys) {
            out.push(self.expr(a, env, Some(t))?.0);
        }
        Ok(out)
    }

    fn call(&mut self, c: &syn::ExprCall, env: &Env, hint: Option<&Ty>) -> R<(G, Ty)> {
        let sp = c.span();
        let path = match &*c.func {
            Expr::Path(p) if p.qself.is_none() => &p.path,
            _ => return self.err(sp, "call of something that is not a path"),
        };
        let segs: Vec<String> = path.segments.iter().map(|s| s.ident.to_string()).collect();
        let args: Vec<&Expr> = c.args.iter().collect();
        if segs.len() == 1 && matches!(segs[0].as_str(), "Some" | "Ok" | "Err") {
            if args.len() != 1 {
                return self.err(sp, "wrong number of arguments");
            }
            let ih = match (segs[0].as_str(), hint) {
                ("Some", Some(Ty::Option(t))) => Some((**t).clone()),
                ("Ok", Some(Ty::Result(a, _))) => Some((**a).clone()),
                ("Err", Some(Ty::Result(_, b))) => Some((**b).clone()),
                _ => None,
            };
            let (g, t) = self.expr(args[0], env, ih.as_ref())?;
            return Ok(match segs[0].as_str() {
                "Some" => (app("Some", vec![g]), Ty::Option(Box::new(t))),
                "Ok" => {
                    let other = match hint {
                        Some(Ty::Result(_, b)) => (**b).clone(),
                        _ => Ty::Never,
                    };
                    (app("inl", vec![g]), Ty::Result(Box::new(t), Box::new(other)))
                }
                _ => {
                    let other = match hint {
                        Some(Ty::Result(a, _)) => (**a).clone(),
                        _ => Ty::Never,
                    };
                    (app("inr", vec![g]), Ty::Result(Box::new(other), Box::new(t)))
                }
            });
        }
        if let Some(Resolved::Variant(en, v)) = self.resolve_path(path, env)? {
            if args.len() != v.fields.len() {
                return self.err(sp, "wrong number of constructor arguments");
            }
            let mut gs = Vec::new();
            for (a, f) in args.iter().zip(v.fields.iter()) {
                gs.push(match &f.ty {
                    Some(t) => Some(self.expr(a, env, Some(t))?.0),
                    None => None,
                });
            }
            return Ok((self.variant_term(&en, &v, gs), Ty::Enum(en)));
        }
        let key = if segs.len() >= 2 {
            let t = match segs[segs.len() - 2].as_str() {
                "Self" => match &env.self_ty {
                    Some(s) => s.clone(),
                    None => return self.err(sp, "`Self` outside an impl"),
                },
                s => s.to_owned(),
            };
            format!("{t}::{}", segs[segs.len() - 1])
        } else {
            segs[0].clone()
        };
        if self.spec.opaque_calls.iter().any(|k| *k == key) {
            return self.opaque_input(&key, sp);
        }
        if self.spec.transparent_calls.iter().any(|k| *k == key || *k == segs[segs.len() - 1]) && !args.is_empty() {
            self.notes.push(format!("transparent call: `{}(v, ..)` is `v` (what else it records is dropped)", segs[segs.len() - 1]));
            return self.expr(args[0], env, hint);
        }
        if segs.len() >= 2 && segs[segs.len() - 1] == "default" && args.is_empty() {
            let tn = key.split("::").next().unwrap_or("").to_owned();
            if !self.u.methods.contains_key(&(tn.clone(), "default".to_owned()))
                && (self.u.structs.contains_key(&tn) || self.u.enums.contains_key(&tn))
            {
                let t = self.named_ty(&tn, sp)?;
                let g = self.default_of(&t, sp)?;
                return Ok((g, t));
            }
        }
        let fi = self.ensure_fn(&key, sp)?;
        if fi.mutating {
            return self.err(sp, format!("call of the mutating `{key}` in an expression"));
        }
        let mut gs = self.call_args(args, &fi.params, env, sp)?;
        gs.extend(self.hand_on_opaque(&key, &fi, sp)?);
        Ok((app(&fi.coq, gs), fi.ret.clone()))
    }

    fn closure0<'e>(&self, e: &'e Expr) -> R<&'e Expr> {
        match e {
            Expr::Closure(c) if c.inputs.is_empty() && c.asyncness.is_none() => Ok(&c.body),
            _ => self.err(e.span(), "expected a closure without parameters"),
        }
    }

    /// `|x| body` / `|(a, b)| body` applied to the elements of a list: `(fun x => body)`
    fn closure1(&mut self, e: &Expr, elem: &Ty, env: &Env, hint: Option<&Ty>) -> R<(G, Ty)> {
        let c = match e {
            Expr::Closure(c) if c.inputs.len() == 1 && c.asyncness.is_none() => c,
            _ => return self.err(e.span(), "expected a closure with one parameter"),
        };
        let mut env2 = env.clone();
        let pat = match &c.inputs[0] {
            Pat::Type(pt) => &*pt.pat,
            p => p,
        };
        let binder = match pat {
            Pat::Tuple(_) => format!("'{}", self.pattern(pat, elem, &mut env2)?),
            _ => self.pattern(pat, elem, &mut env2)?,
        };
        if contains_return_expr(&c.body) {
            // a `return` leaves the closure: allowed when the type of the closure's value is known (fifth round)
            match hint {
                Some(h) => env2.ret = Some(h.clone()),
                None => return self.err(c.body.span(), "`return` inside a closure argument whose value type is not known"),
            }
        }
        if contains_try_expr(&c.body) {
            return self.err(c.body.span(), "`?` inside a closure argument");
        }
        // the closure is a function of its own: no threaded state of the enclosing block is visible as state
        env2.vars.clear();
        env2.local_state = None;
        env2.mutating = false;
        env2.events_enum = None;
        let (b, t) = self.tail_value(&c.body, &env2, hint)?;
        let t = if t == Ty::Never { hint.cloned().unwrap_or(t) } else { t };
        Ok((raw(format!("(fun {binder} => {})", b.render(4))), t))
    }

    fn method_call(&mut self, m: &syn::ExprMethodCall, env: &Env, hint: Option<&Ty>) -> R<(G, Ty)> {
        let sp = m.span();
        let whole = Expr::MethodCall(m.clone());
        if let Some(r) = self.try_probe(m, env)? {
            return Ok(r);
        }
        if let Some(r) = self.try_view_path(&whole, env) {
            return Ok(r);
        }
        if let Some(r) = self.try_opaque_call(m, env)? {
            return Ok(r);
        }
        let name = m.method.to_string();
        let args: Vec<&Expr> = m.args.iter().collect();
        let rh = if matches!(name.as_str(), "unwrap_or" | "unwrap_or_else" | "or" | "or_else") {
            hint.map(|h| if name.starts_with("unwrap_or") { Ty::Option(Box::new(h.clone())) } else { h.clone() })
        } else {
            None
        };
        let (recv, rt) = self.expr(&m.receiver, env, rh.as_ref())?;
        if name == "clone" && args.is_empty() {
            return Ok((recv, rt));
        }
        match (&rt, name.as_str(), args.len()) {
            (Ty::N, "saturating_sub", 1) => {
                let (a, _) = self.expr(args[0], env, Some(&Ty::N))?;
                Ok((app("N.sub", vec![recv, a]), Ty::N))
            }
            (Ty::N, "saturating_add", 1) => {
                let (a, _) = self.expr(args[0], env, Some(&Ty::N))?;
                Ok((app("N.add", vec![recv, a]), Ty::N))
            }
            (Ty::N, "min", 1) | (Ty::N, "max", 1) => {
                let (a, _) = self.expr(args[0], env, Some(&Ty::N))?;
                Ok((app(if name == "min" { "N.min" } else { "N.max" }, vec![recv, a]), Ty::N))
            }
            (Ty::Duration, "is_zero", 0) => Ok((app("N.eqb", vec![recv, raw("0%N")]), Ty::Bool)),
            (Ty::Option(_), "as_deref", 0) | (Ty::Option(_), "as_ref", 0) | (Ty::Option(_), "copied", 0) | (Ty::Option(_), "cloned", 0) => {
                Ok((recv, rt.clone()))
            }
            (Ty::List(_), "iter", 0) | (Ty::List(_), "into_iter", 0) | (Ty::List(_), "copied", 0) | (Ty::List(_), "cloned", 0)
            | (Ty::List(_), "collect", 0) | (Ty::List(_), "to_vec", 0) => Ok((recv, rt.clone())),
            (Ty::List(inner), "values", 0) | (Ty::List(inner), "keys", 0) => match &**inner {
                Ty::Tuple(kv) if kv.len() == 2 => {
                    let (f, t) = if name == "values" { ("snd", kv[1].clone()) } else { ("fst", kv[0].clone()) };
                    Ok((app("List.map", vec![raw(f), recv]), Ty::List(Box::new(t))))
                }
                _ => self.err(sp, format!("`{name}()` on a list that is not a map")),
            },
            (Ty::List(_), "count", 0) | (Ty::List(_), "len", 0) => Ok((app("N.of_nat", vec![app("List.length", vec![recv])]), Ty::N)),
            (Ty::List(_), "is_empty", 0) => Ok((
                G::Match(Box::new(recv), vec![("nil".into(), raw("true")), ("cons _ _".into(), raw("false"))]),
                Ty::Bool,
            )),
            (Ty::List(inner), "filter", 1) => {
                let (f, t) = self.closure1(args[0], inner, env, Some(&Ty::Bool))?;
                if t != Ty::Bool {
                    return self.err(sp, "`filter` with a closure that does not return a boolean");
                }
                Ok((app("List.filter", vec![f, recv]), rt.clone()))
            }
            (Ty::List(inner), "map", 1) => {
                let (f, t) = self.closure1(args[0], inner, env, None)?;
                Ok((app("List.map", vec![f, recv]), Ty::List(Box::new(t))))
            }
            (Ty::List(inner), "any", 1) | (Ty::List(inner), "all", 1) => {
                let (f, t) = self.closure1(args[0], inner, env, Some(&Ty::Bool))?;
                if t != Ty::Bool {
                    return self.err(sp, format!("`{name}` with a closure that does not return a boolean"));
                }
                Ok((app(if name == "any" { "List.existsb" } else { "List.forallb" }, vec![f, recv]), Ty::Bool))
            }
            (Ty::Str, "to_owned", 0) | (Ty::Str, "to_string", 0) | (Ty::Str, "as_str", 0) => Ok((recv, Ty::Str)),
            // bytes <-> str: Coq strings are byte strings (a lossy conversion is the identity on valid UTF-8; what it does
            // to invalid bytes is not modelled)
            (Ty::Str, "as_bytes", 0) | (Ty::Str, "to_str_lossy", 0) | (Ty::Str, "as_str_lossy", 0) | (Ty::Str, "as_bstr", 0)
                if self.spec.module.is_some() =>
            {
                self.notes.push(format!("`{name}()` on a string is the identity (Coq strings are byte strings; a lossy conversion of invalid UTF-8 is not modelled)"));
                Ok((recv, Ty::Str))
            }
            // `s.strip_prefix(p)` / `s.strip_suffix(p)`: the rest of s, if s begins / ends with p
            (Ty::Str, "strip_prefix", 1) | (Ty::Str, "strip_suffix", 1) => {
                let (a, at) = self.expr(args[0], env, Some(&Ty::Str))?;
                if at != Ty::Str {
                    return self.err(sp, format!("`{name}` with a pattern that is not a string"));
                }
                let h = self.ensure_str_strip(name == "strip_prefix");
                Ok((app(&h, vec![a, recv]), Ty::Option(Box::new(Ty::Str))))
            }
            // `xs.skip_while(|x| ..)` / `xs.take_while(|x| ..)` / `xs.skip(n)`
            (Ty::List(inner), "skip_while", 1) | (Ty::List(inner), "take_while", 1) => {
                let (f, t) = self.closure1(args[0], inner, env, Some(&Ty::Bool))?;
                if t != Ty::Bool {
                    return self.err(sp, format!("`{name}` with a closure that does not return a boolean"));
                }
                let h = self.ensure_list_while(name == "take_while");
                Ok((app(&h, vec![f, recv]), rt.clone()))
            }
            (Ty::List(_), "skip", 1) => {
                let (a, at) = self.expr(args[0], env, Some(&Ty::N))?;
                if at != Ty::N {
                    return self.err(sp, "`skip` with a count that is not an unsigned integer");
                }
                Ok((app("List.skipn", vec![app("N.to_nat", vec![a]), recv]), rt.clone()))
            }
            // `xs.contains(&x)` on a list of strings
            (Ty::List(inner), "contains", 1) if **inner == Ty::Str => {
                let (a, at) = self.expr(args[0], env, Some(&Ty::Str))?;
                if at != Ty::Str {
                    return self.err(sp, "`contains` with an argument that is not a string");
                }
                Ok((app("List.existsb", vec![app("String.eqb", vec![a]), recv]), Ty::Bool))
            }
            // `s.starts_with("lit")`: the literal is a prefix of s (Coq's String.prefix)
            (Ty::Str, "starts_with", 1) if matches!(args[0], Expr::Lit(syn::ExprLit { lit: Lit::Str(_), .. })) => {
                let (a, _) = self.expr(args[0], env, Some(&Ty::Str))?;
                Ok((app("String.prefix", vec![a, recv]), Ty::Bool))
            }
            // `s.split_once('c')`: (before, after) the first occurrence of the ASCII character c
            (Ty::Str, "split_once", 1) => {
                let c = match args[0] {
                    Expr::Lit(syn::ExprLit { lit: Lit::Char(c), .. }) if c.value().is_ascii() && !c.value().is_ascii_control() => c.value(),
                    _ => return self.err(sp, "`split_once` with a pattern other than a printable ASCII character literal"),
                };
                let h = self.ensure_str_split_once();
                // (the constructor of Coq's ascii, least significant bit first: independent of notation scopes)
                let code = c as u32;
                let bits: Vec<&str> = (0..8).map(|i| if (code >> i) & 1 == 1 { "true" } else { "false" }).collect();
                let lit = format!("(Ascii.Ascii {})", bits.join(" "));
                Ok((app(&h, vec![raw(lit), recv]), Ty::Option(Box::new(Ty::Tuple(vec![Ty::Str, Ty::Str])))))
            }
            (Ty::Option(_), "is_some", 0) => Ok((
                G::Match(Box::new(recv), vec![("Some _".into(), raw("true")), ("None".into(), raw("false"))]),
                Ty::Bool,
            )),
            (Ty::Option(_), "is_none", 0) => Ok((
                G::Match(Box::new(recv), vec![("Some _".into(), raw("false")), ("None".into(), raw("true"))]),
                Ty::Bool,
            )),
            (Ty::Option(inner), "unwrap_or", 1) => {
                let (a, ta) = self.expr(args[0], env, Some(inner))?;
                let t = if **inner == Ty::Never { ta } else { (**inner).clone() };
                Ok((G::Match(Box::new(recv), vec![("Some o".into(), raw("o")), ("None".into(), a)]), t))
            }
            (Ty::Option(inner), "unwrap_or_else", 1) => {
                let body = self.closure0(args[0])?;
                if contains_return_expr(body) {
                    return self.err(body.span(), "`return` inside a closure argument");
                }
                let (a, ta) = self.tail_value(body, env, Some(inner))?;
                let t = if **inner == Ty::Never { ta } else { (**inner).clone() };
                Ok((G::Match(Box::new(recv), vec![("Some o".into(), raw("o")), ("None".into(), a)]), t))
            }
            // `opt.and_then(|x| e)` / `opt.map(|x| e)` / `opt.is_some_and(|x| e)`: a match on the option (fifth round)
            (Ty::Option(inner), "and_then", 1) | (Ty::Option(inner), "map", 1) | (Ty::Option(inner), "is_some_and", 1) => {
                let h = match (name.as_str(), hint) {
                    ("and_then", Some(h @ Ty::Option(_))) => Some(h.clone()),
                    ("map", Some(Ty::Option(h))) => Some((**h).clone()),
                    ("is_some_and", _) => Some(Ty::Bool),
                    _ => None,
                };
                let c = match args[0] {
                    Expr::Closure(c) if c.inputs.len() == 1 && c.asyncness.is_none() => c,
                    _ => return self.err(sp, format!("`{name}` with an argument that is not a closure with one parameter")),
                };
                let mut env2 = env.clone();
                let pat = match &c.inputs[0] {
                    Pat::Type(pt) => &*pt.pat,
                    p => p,
                };
                let binder = self.pattern(pat, inner, &mut env2)?;
                if contains_return_expr(&c.body) || contains_try_expr(&c.body) {
                    return self.err(c.body.span(), "`return` / `?` inside a closure argument");
                }
                env2.vars.clear();
                env2.local_state = None;
                env2.mutating = false;
                env2.events_enum = None;
                let (b, bt) = self.tail_value(&c.body, &env2, h.as_ref())?;
                match name.as_str() {
                    "and_then" => match &bt {
                        Ty::Option(_) => Ok((G::Match(Box::new(recv), vec![(format!("Some {binder}"), b), ("None".into(), raw("None"))]), bt.clone())),
                        _ => self.err(sp, "`and_then` with a closure that does not return an option"),
                    },
                    "map" => Ok((
                        G::Match(Box::new(recv), vec![(format!("Some {binder}"), app("Some", vec![b])), ("None".into(), raw("None"))]),
                        Ty::Option(Box::new(bt)),
                    )),
                    _ => {
                        if bt != Ty::Bool {
                            return self.err(sp, "`is_some_and` with a closure that does not return a boolean");
                        }
                        Ok((G::Match(Box::new(recv), vec![(format!("Some {binder}"), b), ("None".into(), raw("false"))]), Ty::Bool))
                    }
                }
            }
            // `opt.ok_or_else(|| e)` / `opt.ok_or(e)`: Some v -> Ok v, None -> Err e
            (Ty::Option(inner), "ok_or_else", 1) | (Ty::Option(inner), "ok_or", 1) => {
                let body = if name == "ok_or" { args[0] } else { self.closure0(args[0])? };
                if contains_return_expr(body) || contains_try_expr(body) {
                    return self.err(body.span(), "`return` / `?` inside a closure argument");
                }
                let eh = match hint {
                    Some(Ty::Result(_, b)) => Some((**b).clone()),
                    _ => None,
                };
                let mut env2 = env.clone();
                env2.events_enum = None;
                let (a, ta) = self.tail_value(body, &env2, eh.as_ref())?;
                Ok((
                    G::Match(Box::new(recv), vec![("Some o".into(), raw("inl o")), ("None".into(), app("inr", vec![a]))]),
                    Ty::Result(inner.clone(), Box::new(ta)),
                ))
            }
            // `map.get(key)` on a map with string keys (a list of pairs): the value of the first pair with that key
            (Ty::List(inner), "get", 1) if matches!(&**inner, Ty::Tuple(kv) if kv.len() == 2 && kv[0] == Ty::Str) => {
                let vt = match &**inner {
                    Ty::Tuple(kv) => kv[1].clone(),
                    _ => unreachable!(),
                };
                let (k, kt) = self.expr(args[0], env, Some(&Ty::Str))?;
                if kt != Ty::Str {
                    return self.err(sp, "`get` with a key that is not a string");
                }
                let h = self.ensure_str_assoc();
                Ok((app(&h, vec![k, recv]), Ty::Option(Box::new(vt))))
            }
            (Ty::Option(inner), "or", 1) | (Ty::Option(inner), "or_else", 1) => {
                let body = if name == "or" { args[0] } else { self.closure0(args[0])? };
                if contains_return_expr(body) {
                    return self.err(body.span(), "`return` inside a closure argument");
                }
                let (a, ta) = self.tail_value(body, env, Some(&rt))?;
                let t = if **inner == Ty::Never { ta } else { rt.clone() };
                Ok((G::Match(Box::new(recv), vec![("Some o".into(), raw("Some o")), ("None".into(), a)]), t))
            }
            (Ty::Enum(tn), _, _) | (Ty::Struct(tn), _, _) => {
                let key = format!("{tn}::{name}");
                let fi = self.ensure_fn(&key, sp)?;
                if !fi.has_self {
                    return self.err(sp, format!("`{key}` is not a method"));
                }
                if fi.mutating {
                    return self.err(sp, format!("call of the mutating `{key}` in an expression"));
                }
                let mut gs = vec![recv];
                gs.extend(self.call_args(args, &fi.params, env, sp)?);
                gs.extend(self.hand_on_opaque(&key, &fi, sp)?);
                Ok((app(&fi.coq, gs), fi.ret.clone()))
            }
            _ => self.err(sp, format!("unsupported method `{name}` on a value of type {}", rt.coq())),
        }
    }

    /// the innermost function being translated (`Type::method` / `function`)
    fn cur_fn_key(&self) -> Option<String> {
        self.in_progress.iter().rev().find_map(|t| t.strip_prefix("fn ").map(|s| s.to_owned()))
    }

    /// `str_split_once c s`: the translation of `s.split_once(c)` for an ASCII character c (bytes of a UTF-8 string:
    /// an ASCII byte never occurs inside a multi-byte sequence)
    fn ensure_str_split_once(&mut self) -> String {
        let f = "str_split_once".to_owned();
        if !self.helpers.contains(&f) {
            self.helpers.insert(f.clone());
            let text = "Definition str_split_once (c : Ascii.ascii) : string -> option (string * string) :=\n  fix go (s : string) : option (string * string) :=\n    match s with\n    | EmptyString => None\n    | String a r =>\n        if Ascii.eqb a c then Some (EmptyString, r)\n        else match go r with\n             | Some (k, v) => Some (String a k, v)\n             | None => None\n             end\n    end.".to_owned();
            self.emit(&f, text, "str::split_once(char): before / after the first occurrence".to_owned());
        }
        f
    }

    /// `str_strip_prefix p s` / `str_strip_suffix p s`: the translation of `s.strip_prefix(p)` / `s.strip_suffix(p)`
    fn ensure_str_strip(&mut self, prefix: bool) -> String {
        let f = if prefix { "str_strip_prefix" } else { "str_strip_suffix" }.to_owned();
        if !self.helpers.contains(&f) {
            self.helpers.insert(f.clone());
            let text = if prefix {
                "Definition str_strip_prefix : string -> string -> option string :=\n  fix go (p s : string) : option string :=\n    match p with\n    | EmptyString => Some s\n    | String a p' =>\n        match s with\n        | EmptyString => None\n        | String b s' => if Ascii.eqb a b then go p' s' else None\n        end\n    end."
            } else {
                "Definition str_strip_suffix (p : string) : string -> option string :=\n  fix go (s : string) : option string :=\n    if String.eqb s p then Some EmptyString\n    else match s with\n         | EmptyString => None\n         | String a r =>\n             match go r with\n             | Some k => Some (String a k)\n             | None => None\n             end\n         end."
            };
            self.emit(&f, text.to_owned(), format!("str::{}: the rest of the string, if it {} with the pattern", if prefix { "strip_prefix" } else { "strip_suffix" }, if prefix { "begins" } else { "ends" }));
        }
        f
    }

    /// `list_take_while f xs` / `list_skip_while f xs`: the longest prefix whose elements satisfy f / what follows it
    fn ensure_list_while(&mut self, take: bool) -> String {
        let f = if take { "list_take_while" } else { "list_skip_while" }.to_owned();
        if !self.helpers.contains(&f) {
            self.helpers.insert(f.clone());
            let text = if take {
                "Definition list_take_while {A : Type} (f : A -> bool) : list A -> list A :=\n  fix go (xs : list A) : list A :=\n    match xs with\n    | nil => nil\n    | cons x r => if f x then cons x (go r) else nil\n    end."
            } else {
                "Definition list_skip_while {A : Type} (f : A -> bool) : list A -> list A :=\n  fix go (xs : list A) : list A :=\n    match xs with\n    | nil => nil\n    | cons x r => if f x then go r else xs\n    end."
            };
            self.emit(&f, text.to_owned(), format!("Iterator::{}", if take { "take_while" } else { "skip_while" }));
        }
        f
    }

    /// `str_assoc k m`: the translation of `m.get(k)` for a map with string keys, rendered as a list of pairs (the value
    /// of the first pair whose key is k; the keys of a map are distinct)
    fn ensure_str_assoc(&mut self) -> String {
        let f = "str_assoc".to_owned();
        if !self.helpers.contains(&f) {
            self.helpers.insert(f.clone());
            let text = "Definition str_assoc {V : Type} (k : string) : list (string * V) -> option V :=\n  fix go (m : list (string * V)) : option V :=\n    match m with\n    | nil => None\n    | cons (k', v) r => if String.eqb k' k then Some v else go r\n    end.".to_owned();
            self.emit(&f, text, "map.get(key) on a map with string keys: the value stored under the key".to_owned());
        }
        f
    }

    /// a method call the spec declares as a probe (see `Probe`): its value is an input `p_<name>` of the function
    /// being translated
    fn try_probe(&mut self, m: &syn::ExprMethodCall, env: &Env) -> R<Option<(G, Ty)>> {
        if self.spec.probes.is_empty() {
            return Ok(None);
        }
        let cur = match self.cur_fn_key() {
            Some(k) => k,
            None => return Ok(None),
        };
        let method = m.method.to_string();
        let cands: Vec<Probe> =
            self.spec.probes.iter().filter(|p| p.method == method && p.in_fn.iter().any(|f| *f == cur)).cloned().collect();
        if cands.is_empty() {
            return Ok(None);
        }
        let recv_text = norm(strip_refs(&m.receiver));
        let args_text = m.args.iter().map(|a| norm(a)).collect::<Vec<_>>().join(",");
        let sp = m.span();
        for p in &cands {
            let mut recv_g: Option<(G, Ty)> = None;
            let hit = match (&p.recv, &p.recv_type) {
                (Some(r), _) => r.replace(' ', "") == recv_text,
                (None, Some(rt)) => match self.expr(&m.receiver, env, None) {
                    Ok((g, t)) => {
                        let ok = matches!(&t, Ty::Token(n) | Ty::Enum(n) | Ty::Struct(n) if n == rt);
                        if ok {
                            recv_g = Some((g, t));
                        }
                        ok
                    }
                    Err(_) => false,
                },
                _ => false,
            };
            if !hit {
                continue;
            }
            if let Expr::Path(rp) = strip_refs(&m.receiver) {
                if let Some(b) = rp.path.get_ident().and_then(|i| env.lookup(&i.to_string())) {
                    if let Some(why) = &b.poisoned {
                        if why.starts_with("bound under another name") {
                            return self.err(sp, format!("the receiver `{recv_text}` of the probe `{}` is {why}", p.name));
                        }
                    }
                }
            }
            let vt: Type = match syn::parse_str(&p.ty) {
                Ok(t) => t,
                Err(e) => return self.err(sp, format!("probe `{}`: type `{}`: {e}", p.name, p.ty)),
            };
            let vt = self.ty(&vt, env.self_ty.as_deref())?;
            let key = format!("probe:{}", p.name);
            let site = format!("{key}@{args_text}");
            let pname = format!("p_{}", p.name);
            let full_ty = match &recv_g {
                Some((_, rt)) => Ty::Fun(Box::new(rt.clone()), Box::new(vt.clone())),
                None => vt.clone(),
            };
            let prev = self.opaque.iter().find(|(k, _, _)| k.starts_with(&format!("{key}@"))).map(|(k, _, _)| k.clone());
            match prev {
                Some(k) if k != site && !k.contains("@via ") => {
                    return self.err(sp, format!("the probe `{}` is asked with different arguments (`{}` and `{}`)", p.name, &k[key.len() + 1..], args_text));
                }
                Some(_) => {}
                None => {
                    self.opaque.push((site, pname.clone(), full_ty));
                    self.notes.push(match &p.recv {
                        Some(r) => format!(
                            "probe: the value of `{r}.{method}({args_text})` in {cur} is the input `{pname}` of the generated function (sites with the same receiver text, method and arguments share it; the callee is not translated)"
                        ),
                        None => format!(
                            "probe: the value of `<{}>.{method}({args_text})` in {cur} is the input function `{pname}` applied to the receiver (the callee is not translated)",
                            p.recv_type.clone().unwrap_or_default()
                        ),
                    });
                }
            }
            return Ok(Some(match recv_g {
                Some((g, _)) => (app(&pname, vec![g]), vt),
                None => (raw(pname), vt),
            }));
        }
        Ok(None)
    }

    /// `self.m(args)` declared under opaque_calls: its value is an input of the function being
    /// translated (a parameter added to it)
    fn try_opaque_call(&mut self, m: &syn::ExprMethodCall, env: &Env) -> R<Option<(G, Ty)>> {
        if self.spec.opaque_calls.is_empty() {
            return Ok(None);
        }
        let tn = match self.expr(&m.receiver, env, None) {
            Ok((_, Ty::Struct(n))) | Ok((_, Ty::Enum(n))) | Ok((_, Ty::Token(n))) => n,
            _ => return Ok(None),
        };
        let key = format!("{tn}::{}", m.method);
        if !self.spec.opaque_calls.iter().any(|k| *k == key) {
            return Ok(None);
        }
        self.opaque_input(&key, m.span()).map(Some)
    }

    /// the value of a call listed under opaque_calls: an extra parameter of the function being
    /// translated, typed by the callee's declared return type; the arguments are not looked at
    fn opaque_input(&mut self, key: &str, sp: Span) -> R<(G, Ty)> {
        let site = format!("{key}@{}:{}", sp.start().line, sp.start().column);
        if let Some((_, n, t)) = self.opaque.iter().find(|(k, _, _)| *k == site) {
            // the same call site, translated a second time
            return Ok((raw(n.clone()), t.clone()));
        }
        if let Some((_, n, t)) = self.opaque.iter().find(|(k, _, _)| k.starts_with(&format!("{key}@"))) {
            if self.spec.opaque_consts.iter().any(|k| k == key) {
                // one constant of the run, however often it is asked for
                return Ok((raw(n.clone()), t.clone()));
            }
            return self.err(sp, format!("the opaque call `{key}` occurs more than once in one function"));
        }
        let u = self.u;
        let (file, sig): (usize, &Signature) = match key.split_once("::") {
            Some((t, m)) => match one(u.methods.get(&(t.to_owned(), m.to_owned())), &format!("method {key}")) {
                Ok(a) => (a.file, &a.item.sig),
                Err(msg) => return self.err(sp, msg),
            },
            None => match one(u.fns.get(key), &format!("function {key}")) {
                Ok(a) => (a.file, &a.item.sig),
                Err(msg) => return self.err(sp, msg),
            },
        };
        let rt = match &sig.output {
            ReturnType::Type(_, t) => (**t).clone(),
            ReturnType::Default => return self.err(sp, format!("the opaque call `{key}` returns nothing")),
        };
        let saved = std::mem::replace(&mut self.cur_file, u.files[file].clone());
        let owner = key.split_once("::").map(|(t, _)| t.to_owned());
        let ty = self.ty(&rt, owner.as_deref());
        self.cur_file = saved;
        let ty = ty?;
        let name = format!("o_{}", key.rsplit("::").next().unwrap());
        self.opaque.push((site, name.clone(), ty.clone()));
        self.notes.push(format!(
            "opaque call: the value of `{key}(..)` is an input `{name}` of the function that calls it (its arguments and its body are not translated)"
        ));
        Ok((raw(name), ty))
    }

    /// the callee has opaque inputs: they become inputs of the function being translated as well and
    /// are handed on (an input that is not a declared constant of the run may be asked for once only)
    fn hand_on_opaque(&mut self, key: &str, fi: &FnInfo, sp: Span) -> R<Vec<G>> {
        if fi.untranslated {
            return self.err(sp, format!("`{key}` has untranslated parameters and cannot be called from a translated function"));
        }
        let mut out = Vec::new();
        for (okey, n, t) in &fi.opaque {
            let is_const = self.spec.opaque_consts.iter().any(|k| k == okey) || okey == "unreachable!" || okey.starts_with("probe:");
            let present = self.opaque.iter().any(|(k, _, _)| k.starts_with(&format!("{okey}@")));
            if present && !is_const {
                return self.err(sp, format!("the opaque call `{okey}` is reached more than once (through `{key}`)"));
            }
            if !present {
                self.opaque.push((format!("{okey}@via {key}"), n.clone(), t.clone()));
            }
            out.push(raw(n.clone()));
        }
        Ok(out)
    }

    fn struct_lit(&mut self, s: &syn::ExprStruct, env: &Env) -> R<(G, Ty)> {
        let sp = s.span();
        if s.rest.is_some() {
            return self.err(sp, "struct literal with `..base`");
        }
        let field_of = |fv: &syn::FieldValue| match &fv.member {
            Member::Named(i) => i.to_string(),
            Member::Unnamed(i) => i.index.to_string(),
        };
        if let Some(Resolved::Variant(en, v)) = self.resolve_path(&s.path, env)? {
            let mut gs: Vec<Option<G>> = vec![None; v.fields.len()];
            let mut seen = vec![false; v.fields.len()];
            for fv in &s.fields {
                let name = field_of(fv);
                let idx = v.fields.iter().position(|f| f.name.as_deref() == Some(name.as_str()));
                let idx = match idx {
                    Some(i) => i,
                    None => return self.err(fv.span(), format!("no field `{name}` in {en}::{}", v.name)),
                };
                seen[idx] = true;
                if let Some(t) = &v.fields[idx].ty {
                    gs[idx] = Some(self.expr(&fv.expr, env, Some(t))?.0);
                }
            }
            if seen.iter().any(|s| !s) {
                return self.err(sp, "struct literal does not give every field");
            }
            return Ok((self.variant_term(&en, &v, gs), Ty::Enum(en)));
        }
        // a plain record
        let tname = match s.path.segments.last().map(|x| x.ident.to_string()) {
            Some(n) if n == "Self" => env.self_ty.clone().unwrap_or_default(),
            Some(n) => n,
            None => return self.err(sp, "struct literal"),
        };
        match self.named_ty(&tname, sp)? {
            Ty::Struct(_) => {}
            _ => return self.err(sp, format!("struct literal of `{tname}`")),
        }
        let ri = self.rec_info(&tname).clone();
        if ri.view {
            return self.err(sp, format!("construction of the view `{tname}`"));
        }
        let mut parts = vec![raw(format!("mk_{tname}"))];
        for (f, _, t) in &ri.fields {
            let fv = s.fields.iter().find(|fv| field_of(fv) == *f);
            match fv {
                Some(fv) => parts.push(self.expr(&fv.expr, env, Some(t))?.0),
                None => return self.err(sp, format!("struct literal does not give `{f}`")),
            }
        }
        Ok((G::App(parts), Ty::Struct(tname)))
    }

    /// pure expression (no `return` inside)
    fn expr(&mut self, e: &Expr, env: &Env, hint: Option<&Ty>) -> R<(G, Ty)> {
        let sp = e.span();
        if let Some(Ty::Omitted) = hint {
            // a value of a type the spec leaves out: not looked at
            return Ok((raw("tt"), Ty::Omitted));
        }
        if let Expr::Field(_) | Expr::MethodCall(_) = e {
            // a declared free variable of a request (`runner_opts.no_tests`, `settings.retries()`)
            if let Some(b) = env.lookup(&norm(e)) {
                return Ok((raw(b.coq.clone()), b.ty.clone()));
            }
        }
        match e {
            Expr::Paren(p) => self.expr(&p.expr, env, hint),
            Expr::Group(p) => self.expr(&p.expr, env, hint),
            Expr::Reference(r) => self.expr(&r.expr, env, hint),
            Expr::Unary(u) => match u.op {
                UnOp::Deref(_) => self.expr(&u.expr, env, hint),
                UnOp::Not(_) => {
                    let (g, t) = self.expr(&u.expr, env, Some(&Ty::Bool))?;
                    if t != Ty::Bool {
                        return self.err(sp, "`!` on a non-boolean");
                    }
                    Ok((app("negb", vec![g]), Ty::Bool))
                }
                _ => self.err(sp, "unary minus"),
            },
            Expr::Lit(l) => self.lit(&l.lit, hint, sp),
            Expr::Path(p) if p.qself.is_none() => {
                if let Some(id) = p.path.get_ident() {
                    let n = id.to_string();
                    if let Some(b) = env.lookup(&n) {
                        if let Some(why) = &b.poisoned {
                            return self.err(sp, format!("`{n}` is used here but could not be translated: {why}"));
                        }
                        return Ok((raw(b.coq.clone()), b.ty.clone()));
                    }
                    if n == "None" {
                        let t = match hint {
                            Some(Ty::Option(t)) => (**t).clone(),
                            _ => Ty::Never,
                        };
                        return Ok((raw("None"), Ty::Option(Box::new(t))));
                    }
                }
                {
                    let segs: Vec<String> = p.path.segments.iter().map(|s| s.ident.to_string()).collect();
                    if segs.len() >= 2 && segs[segs.len() - 2] == "Duration" && segs[segs.len() - 1] == "ZERO" {
                        return Ok((raw("0%N"), Ty::Duration));
                    }
                }
                match self.resolve_path(&p.path, env)? {
                    Some(Resolved::Variant(en, v)) => {
                        if v.fields.iter().any(|f| f.ty.is_some()) || !v.fields.is_empty() {
                            return self.err(sp, "variant constructor used as a function value");
                        }
                        Ok((raw(format!("{en}_{}", v.name)), Ty::Enum(en)))
                    }
                    Some(Resolved::Const(t, c)) => self.ensure_const(&t, &c, sp),
                    Some(Resolved::Excluded(en, v)) => {
                        self.err(sp, format!("`{en}::{v}` is built here but left out by enum_subset"))
                    }
                    None => self.err(sp, format!("unknown name `{}`", norm(&p.path))),
                }
            }
            Expr::Binary(b) => self.binary(b, env, hint),
            Expr::Call(c) => self.call(c, env, hint),
            Expr::MethodCall(m) => self.method_call(m, env, hint),
            Expr::Field(f) => {
                if let Some(r) = self.try_view_path(e, env) {
                    return Ok(r);
                }
                let (g, t) = self.expr(&f.base, env, None)?;
                let fname = match &f.member {
                    Member::Named(i) => i.to_string(),
                    Member::Unnamed(_) => return self.err(sp, "tuple field access"),
                };
                match &t {
                    Ty::Struct(sn) => {
                        let ri = self.rec_info(sn);
                        match ri.fields.iter().find(|(o, _, _)| *o == fname) {
                            Some((_, proj, ft)) => Ok((app(proj, vec![g]), ft.clone())),
                            None if ri.view => {
                                self.err(sp, format!("`{fname}` is not among the declared observers of the view `{sn}`"))
                            }
                            None => self.err(sp, format!("no field `{fname}` in `{sn}`")),
                        }
                    }
                    _ => self.err(sp, format!("field access on a value of type {}", t.coq())),
                }
            }
            Expr::Struct(s) => self.struct_lit(s, env),
            Expr::Tuple(t) => {
                if t.elems.is_empty() {
                    return Ok((raw("tt"), Ty::Unit));
                }
                let hs: Vec<Option<Ty>> = match hint {
                    Some(Ty::Tuple(ts)) if ts.len() == t.elems.len() => ts.iter().cloned().map(Some).collect(),
                    _ => vec![None; t.elems.len()],
                };
                let mut gs = Vec::new();
                let mut ts = Vec::new();
                for (x, h) in t.elems.iter().zip(hs.iter()) {
                    let (g, ty) = self.expr(x, env, h.as_ref())?;
                    gs.push(g.render(0));
                    ts.push(ty);
                }
                Ok((raw(format!("({})", gs.join(", "))), Ty::Tuple(ts)))
            }
            Expr::Cast(c) => {
                let (g, t) = self.expr(&c.expr, env, None)?;
                let to = self.ty(&c.ty, env.self_ty.as_deref())?;
                if t == Ty::N && to == Ty::N {
                    Ok((g, Ty::N))
                } else {
                    self.err(sp, "cast other than between unsigned integer types")
                }
            }
            Expr::Macro(m) => self.macro_expr(&m.mac, env, hint, sp),
            Expr::Index(ix) => match &*ix.index {
                // `&xs[..]`: the whole slice
                Expr::Range(r) if r.start.is_none() && r.end.is_none() => self.expr(&ix.expr, env, hint),
                _ => self.err(sp, format!("unsupported expression `{}`", {
                    let s = norm(e);
                    if s.len() > 80 { format!("{}...", &s[..80]) } else { s }
                })),
            },
            Expr::Array(a) if a.elems.is_empty() => {
                let t = match hint {
                    Some(Ty::List(t)) => (**t).clone(),
                    _ => Ty::Never,
                };
                Ok((raw("nil"), Ty::List(Box::new(t))))
            }
            // `[a, b]` / `&[a, b]`: the list of the values (fifth round; glue family only)
            Expr::Array(a) if self.spec.module.is_some() => {
                let eh = match hint {
                    Some(Ty::List(t)) => Some((**t).clone()),
                    _ => None,
                };
                let mut gs = Vec::new();
                let mut et: Option<Ty> = eh;
                for x in &a.elems {
                    let (g, t) = self.expr(x, env, et.as_ref())?;
                    if let Some(prev) = &et {
                        if *prev != t && *prev != Ty::Never {
                            return self.err(sp, "array literal with elements of different types");
                        }
                    }
                    et = Some(t);
                    gs.push(g);
                }
                let mut out = raw("nil");
                for g in gs.into_iter().rev() {
                    out = app("cons", vec![g, out]);
                }
                Ok((out, Ty::List(Box::new(et.unwrap_or(Ty::Never)))))
            }
            Expr::If(_) | Expr::Match(_) | Expr::Block(_) => {
                if contains_return_expr(e) {
                    return self.err(sp, "`return` inside an expression that is not in tail position");
                }
                if env.events_enum.is_some() {
                    // not a leaf of the closure: a plain value
                    let mut e2 = env.clone();
                    e2.events_enum = None;
                    return self.tail_value(e, &e2, hint);
                }
                self.tail_value(e, env, hint)
            }
            Expr::Return(_) => self.err(sp, "`return` inside an expression that is not in tail position"),
            // `f(..).await`: the value the future yields (glue family: used for opaque calls of async functions)
            Expr::Await(a) if self.spec.module.is_some() => self.expr(&a.base, env, hint),
            Expr::Try(t) => {
                // `e?` nested in the value of a `let` (see `tail_bind`): a fresh name, bound by a hoisted match
                if self.try_slots.is_none() {
                    return self.err(sp, "`?` in a position that is outside the subset (only `e?;`, `let p = e?;` and operands of the value of a `let`)");
                }
                let eb = match &env.ret {
                    Some(Ty::Result(_, b)) => (**b).clone(),
                    _ => return self.err(sp, "`?` in a function that does not return a Result"),
                };
                let eh = Ty::Result(Box::new(hint.cloned().unwrap_or(Ty::Never)), Box::new(eb.clone()));
                let (g, t) = self.expr(&t.expr, env, Some(&eh))?;
                let a = match &t {
                    Ty::Result(a, b) if **b == eb => (**a).clone(),
                    Ty::Result(..) => return self.err(sp, "`?` whose error type is not the error type of the function"),
                    _ => return self.err(sp, format!("`?` on a value of type {}", t.coq())),
                };
                let slots = self.try_slots.as_mut().unwrap();
                let n = format!("q{}", slots.len());
                slots.push((n.clone(), g));
                Ok((raw(n), a))
            }
            _ => self.err(sp, format!("unsupported expression `{}`", {
                let s = norm(e);
                if s.len() > 80 { format!("{}...", &s[..80]) } else { s }
            })),
        }
    }

    fn macro_expr(&mut self, mac: &syn::Macro, env: &Env, hint: Option<&Ty>, sp: Span) -> R<(G, Ty)> {
        let name = mac.path.segments.last().map(|s| s.ident.to_string()).unwrap_or_default();
        if matches!(name.as_str(), "unreachable" | "panic" | "unimplemented") {
            // a panic is not modelled: the value at such a position is an arbitrary input of the function
            let t = match hint.cloned().or_else(|| env.ret.clone()) {
                Some(t) if t != Ty::Never => t,
                _ => return self.err(sp, format!("`{name}!` where the expected type is not known")),
            };
            let pname = "o_unreachable".to_owned();
            if let Some((_, _, t0)) = self.opaque.iter().find(|(k, _, _)| k.starts_with("unreachable!@")) {
                if *t0 != t {
                    return self.err(sp, format!("`{name}!` at two positions of different types in one function"));
                }
            } else {
                self.opaque.push((format!("unreachable!@{}", sp.start().line), pname.clone(), t.clone()));
                self.notes.push(format!(
                    "{}:{}: `{name}!(..)`: a panic is not modelled; the value at this position is the input `o_unreachable` of the generated function (lemmas hold for every such value)",
                    self.cur_file,
                    sp.start().line
                ));
            }
            return Ok((raw(pname), t));
        }
        if matches!(name.as_str(), "format" | "vec") {
            if let Some(Ty::Omitted) = hint {
                return Ok((raw("tt"), Ty::Omitted));
            }
        }
        if name != "matches" {
            return self.err(sp, format!("unsupported macro `{name}!`"));
        }
        let mm: MatchesMacro = match mac.parse_body() {
            Ok(m) => m,
            Err(e) => return self.err(sp, format!("cannot parse matches!: {e}")),
        };
        let (s, st) = self.expr(&mm.expr, env, None)?;
        let mut e2 = env.clone();
        let pat = self.pattern(&mm.pat, &st, &mut e2)?;
        let body = match &mm.guard {
            Some(g) => self.expr(g, &e2, Some(&Ty::Bool))?.0,
            None => raw("true"),
        };
        let mut arms = vec![(pat, body)];
        if !self.is_irrefutable(&mm.pat, env) {
            arms.push(("_".into(), raw("false")));
        }
        Ok((G::Match(Box::new(s), arms), Ty::Bool))
    }
}
