//! Implementation-side evaluator for the `backoff` correspondence checks (props/C07.py):
//! the real `BackoffIter`, `apply_jitter` and the `retries` deserializer through hook H3.
//! Durations travel as decimal strings of nanoseconds.
use nextest_runner::{
    config::{verif_retry_policy, RetryPolicy},
    runner::verif_executor,
};
use serde_json::{json, Value};
use std::time::Duration;

fn dur_of(v: &Value) -> Duration {
    let ns: u128 = match v {
        Value::String(s) => s.parse().expect("nanoseconds"),
        other => other.as_u64().expect("nanoseconds") as u128,
    };
    Duration::new((ns / 1_000_000_000) as u64, (ns % 1_000_000_000) as u32)
}

fn ns(d: Duration) -> Value {
    json!(d.as_nanos().to_string())
}

fn policy_of(case: &Value) -> RetryPolicy {
    let count = case["count"].as_u64().expect("count") as usize;
    let delay = dur_of(&case["delay"]);
    let jitter = case["jitter"].as_bool().unwrap_or(false);
    match case["kind"].as_str().expect("kind") {
        "fixed" => RetryPolicy::Fixed {
            count,
            delay,
            jitter,
        },
        "exp" => RetryPolicy::Exponential {
            count,
            delay,
            jitter,
            max_delay: if case["max_delay"].is_null() {
                None
            } else {
                Some(dur_of(&case["max_delay"]))
            },
        },
        other => panic!("unknown policy kind {other}"),
    }
}

fn policy_json(p: RetryPolicy) -> Value {
    match p {
        RetryPolicy::Fixed {
            count,
            delay,
            jitter,
        } => json!(["fixed", count, ns(delay), jitter, Value::Null]),
        RetryPolicy::Exponential {
            count,
            delay,
            jitter,
            max_delay,
        } => json!(["exp", count, ns(delay), jitter, max_delay.map(ns)]),
    }
}

pub fn run(case: &Value) -> Value {
    match case["op"].as_str().unwrap_or("") {
        // BackoffIter::new(policy) followed by `take` calls of next(); null = None
        "delays" => {
            let take = case["take"].as_u64().expect("take") as usize;
            let v: Vec<Value> = verif_executor::backoff_delays(policy_of(case), take)
                .into_iter()
                .map(|d| d.map(ns).unwrap_or(Value::Null))
                .collect();
            json!({ "count": policy_of(case).count(), "delays": v })
        }
        // next_delay_and_jitter `take` times: [[ns, jitter_flag], ...]
        "base" => {
            let take = case["take"].as_u64().expect("take") as usize;
            let v: Vec<Value> = verif_executor::backoff_base_delays(policy_of(case), take)
                .into_iter()
                .map(|(d, j)| json!([ns(d), j]))
                .collect();
            json!(v)
        }
        // apply_jitter(d) n times
        "jitter" => {
            let n = case["n"].as_u64().expect("n") as usize;
            let v: Vec<Value> = verif_executor::jitter_draws(dur_of(&case["delay"]), n)
                .into_iter()
                .map(ns)
                .collect();
            json!(v)
        }
        // deserialize_retry_policy (with validation) on `retries = ...`
        "parse" => {
            match verif_retry_policy::parse_retries_toml(case["toml"].as_str().expect("toml")) {
                Ok(Some(p)) => json!({ "ok": policy_json(p) }),
                Ok(None) => json!({ "ok": Value::Null }),
                Err(e) => json!({ "err": e }),
            }
        }
        // what `--retries N` / NEXTEST_RETRIES builds (cargo-nextest: new_without_delay)
        "cli" => {
            let n = case["count"].as_u64().expect("count") as usize;
            json!({ "ok": policy_json(RetryPolicy::new_without_delay(n)) })
        }
        other => json!({ "error": format!("unknown op {other}") }),
    }
}
