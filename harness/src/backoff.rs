//! Implementation-side evaluator for the `backoff` correspondence checks (props/C07.py):
//! the real `BackoffIter`, `apply_jitter` and the `retries` deserializer through hook H3.
//! Durations travel as decimal strings of nanoseconds.
use camino::Utf8PathBuf;
use nextest_filtering::{CompiledExpr, EvalContext, ParseContext};
use nextest_metadata::{BuildPlatform, RustBinaryId};
use nextest_runner::{
    cargo_config::{CargoConfigs, EnvironmentMap},
    config::{verif_retry_policy, NextestConfig, RetryPolicy, TestThreads},
    double_spawn::DoubleSpawnInfo,
    input::InputHandlerKind,
    list::{RustBuildMeta, RustTestArtifact, TestExecuteContext, TestList},
    platform::BuildPlatforms,
    reporter::events::{ExecutionDescription, TestEventKind},
    reuse_build::PathMapper,
    runner::{verif_executor, TestRunnerBuilder},
    signal::SignalHandlerKind,
    target_runner::TargetRunner,
    test_filter::{FilterBound, RunIgnored, TestFilterBuilder},
};
use serde_json::{json, Value};
use std::{collections::BTreeSet, time::Duration};

fn dur_of(v: &Value) -> Duration {
    let ns: u128 = match v {
        Value::String(s) => s.parse().expect("nanoseconds"),
        other => other.as_u64().expect("nanoseconds") as u128,
    };
    Duration::new((ns / 1_000_000_000) as u64, (ns % 1_000_000_000) as u32)
}

fn ns(d: Duration) -> Value {
    json!(d.as_nanos().to_string())
}

fn policy_of(case: &Value) -> RetryPolicy {
    let count = case["count"].as_u64().expect("count") as usize;
    let delay = dur_of(&case["delay"]);
    let jitter = case["jitter"].as_bool().unwrap_or(false);
    match case["kind"].as_str().expect("kind") {
        "fixed" => RetryPolicy::Fixed {
            count,
            delay,
            jitter,
        },
        "exp" => RetryPolicy::Exponential {
            count,
            delay,
            jitter,
            max_delay: if case["max_delay"].is_null() {
                None
            } else {
                Some(dur_of(&case["max_delay"]))
            },
        },
        other => panic!("unknown policy kind {other}"),
    }
}

fn policy_json(p: RetryPolicy) -> Value {
    match p {
        RetryPolicy::Fixed {
            count,
            delay,
            jitter,
        } => json!(["fixed", count, ns(delay), jitter, Value::Null]),
        RetryPolicy::Exponential {
            count,
            delay,
            jitter,
            max_delay,
        } => json!(["exp", count, ns(delay), jitter, max_delay.map(ns)]),
    }
}

/// Runs the real `TestRunner` (public API, direct spawn, no-op signal and input handlers) over
/// scripted test binaries prepared by the check in `case["dir"]`:
/// `dir/.config/nextest.toml`, and per binary `dir/<bin>` (an executable script that lists
/// `dir/<bin>.list` and, to run test `t` on attempt `k`, executes `dir/<bin>.<t>.<k>` or
/// `dir/<bin>.<t>.default`). Reports, per test, every attempt as nextest reported it.
fn run_scenario(case: &Value) -> Value {
    let dir = Utf8PathBuf::from(case["dir"].as_str().expect("dir"));
    let graph = crate::common::graph();
    let pcx = ParseContext::new(graph);
    let config = match NextestConfig::from_sources(
        dir.clone(),
        &pcx,
        None,
        [],
        &BTreeSet::new(),
    ) {
        Ok(c) => c,
        Err(e) => return json!({ "error": format!("config: {e:?}") }),
    };
    let build_platforms = BuildPlatforms::new_with_no_target().expect("host platform");
    // the selected profile (the built-in default-miri and custom profiles inherit from default)
    let profile_name = case["profile"].as_str().unwrap_or("default").to_owned();
    let profile = match config.profile(&profile_name) {
        Ok(p) => p.apply_build_platforms(&build_platforms),
        Err(e) => return json!({ "error": format!("profile: {e:?}") }),
    };
    let package = graph
        .metadata(&crate::common::package_id("a"))
        .expect("package in fixture graph");
    let bins = crate::common::strs(&case["bins"]);
    let artifacts: Vec<RustTestArtifact<'_>> = bins
        .iter()
        .map(|b| RustTestArtifact {
            binary_id: RustBinaryId::new(b),
            package,
            binary_path: dir.join(b),
            binary_name: b.clone(),
            kind: crate::common::kind_of("lib"),
            non_test_binaries: BTreeSet::new(),
            cwd: dir.clone(),
            build_platform: BuildPlatform::Target,
        })
        .collect();
    let rust_build_meta =
        RustBuildMeta::new(dir.join("target"), build_platforms).map_paths(&PathMapper::noop());
    let double_spawn = DoubleSpawnInfo::disabled();
    let target_runner = TargetRunner::empty();
    let ctx = TestExecuteContext {
        profile_name: &profile_name,
        double_spawn: &double_spawn,
        target_runner: &target_runner,
    };
    let all = CompiledExpr::ALL;
    let ecx = EvalContext {
        default_filter: &all,
    };
    let cargo_configs =
        CargoConfigs::new_with_isolation(Vec::<String>::new(), &dir, &dir, Vec::new())
            .expect("cargo configs");
    let env = EnvironmentMap::new(&cargo_configs);
    let filter = TestFilterBuilder::default_set(RunIgnored::Default);
    let test_list = match TestList::new(
        &ctx,
        artifacts,
        rust_build_meta,
        &filter,
        dir.clone(),
        env,
        &ecx,
        FilterBound::All,
        2,
    ) {
        Ok(l) => l,
        Err(e) => return json!({ "error": format!("list: {e:?}") }),
    };
    // binaries that must fail to start: made non-executable after listing
    for b in crate::common::strs(&case["chmod_after_list"]) {
        use std::os::unix::fs::PermissionsExt;
        std::fs::set_permissions(dir.join(&b), std::fs::Permissions::from_mode(0o644))
            .expect("chmod");
    }
    let mut builder = TestRunnerBuilder::default();
    builder.set_test_threads(TestThreads::Count(
        case["threads"].as_u64().unwrap_or(4) as usize
    ));
    if !case["force_retries"].is_null() {
        builder.set_retries(policy_of(&case["force_retries"]));
    }
    let runner = builder
        .build(
            &test_list,
            &profile,
            Vec::new(),
            SignalHandlerKind::Noop,
            InputHandlerKind::Noop,
            DoubleSpawnInfo::disabled(),
            TargetRunner::empty(),
        )
        .expect("runner");
    let mut events: Vec<Value> = Vec::new();
    let res = runner.execute(|event| match event.kind {
        TestEventKind::TestAttemptFailedWillRetry {
            test_instance,
            run_status,
            delay_before_next_attempt,
            ..
        } => events.push(json!({
            "ev": "will_retry", "bin": test_instance.suite_info.binary_id.as_str(),
            "test": test_instance.name, "attempt": run_status.retry_data.attempt,
            "total": run_status.retry_data.total_attempts,
            "result": crate::classify::enc(run_status.result),
            "delay": ns(delay_before_next_attempt),
        })),
        TestEventKind::TestRetryStarted {
            test_instance,
            retry_data,
        } => events.push(json!({
            "ev": "retry_started", "bin": test_instance.suite_info.binary_id.as_str(),
            "test": test_instance.name, "attempt": retry_data.attempt,
            "total": retry_data.total_attempts,
        })),
        TestEventKind::TestFinished {
            test_instance,
            run_statuses,
            ..
        } => {
            let kind = match run_statuses.describe() {
                ExecutionDescription::Success { .. } => 0,
                ExecutionDescription::Flaky { .. } => 1,
                ExecutionDescription::Failure { .. } => 2,
            };
            let attempts: Vec<Value> = run_statuses
                .iter()
                .map(|s| {
                    json!({
                        "attempt": s.retry_data.attempt, "total": s.retry_data.total_attempts,
                        "result": crate::classify::enc(s.result),
                        "delay_before_start": ns(s.delay_before_start),
                        "time_taken_ms": s.time_taken.as_millis() as u64,
                        "is_slow": s.is_slow,
                    })
                })
                .collect();
            events.push(json!({
                "ev": "finished", "bin": test_instance.suite_info.binary_id.as_str(),
                "test": test_instance.name, "describe": kind, "attempts": attempts,
                "last_result": crate::classify::enc(run_statuses.last_status().result),
            }))
        }
        _ => {}
    });
    match res {
        Ok(stats) => json!({ "events": events, "finished_count": stats.finished_count,
                             "passed": stats.passed, "flaky": stats.flaky, "failed": stats.failed,
                             "exec_failed": stats.exec_failed, "timed_out": stats.timed_out,
                             "leaky": stats.leaky }),
        Err(e) => json!({ "error": format!("execute: {e:?}"), "events": events }),
    }
}

pub fn run(case: &Value) -> Value {
    match case["op"].as_str().unwrap_or("") {
        "run" => run_scenario(case),
        // BackoffIter::new(policy) followed by `take` calls of next(); null = None
        "delays" => {
            let take = case["take"].as_u64().expect("take") as usize;
            let v: Vec<Value> = verif_executor::backoff_delays(policy_of(case), take)
                .into_iter()
                .map(|d| d.map(ns).unwrap_or(Value::Null))
                .collect();
            json!({ "count": policy_of(case).count(), "delays": v })
        }
        // next_delay_and_jitter `take` times: [[ns, jitter_flag], ...]
        "base" => {
            let take = case["take"].as_u64().expect("take") as usize;
            let v: Vec<Value> = verif_executor::backoff_base_delays(policy_of(case), take)
                .into_iter()
                .map(|(d, j)| json!([ns(d), j]))
                .collect();
            json!(v)
        }
        // apply_jitter(d) n times
        "jitter" => {
            let n = case["n"].as_u64().expect("n") as usize;
            let v: Vec<Value> = verif_executor::jitter_draws(dur_of(&case["delay"]), n)
                .into_iter()
                .map(ns)
                .collect();
            json!(v)
        }
        // deserialize_retry_policy (with validation) on `retries = ...`
        "parse" => {
            match verif_retry_policy::parse_retries_toml(case["toml"].as_str().expect("toml")) {
                Ok(Some(p)) => json!({ "ok": policy_json(p) }),
                Ok(None) => json!({ "ok": Value::Null }),
                Err(e) => json!({ "err": e }),
            }
        }
        // what `--retries N` / NEXTEST_RETRIES builds (cargo-nextest: new_without_delay)
        "cli" => {
            let n = case["count"].as_u64().expect("count") as usize;
            json!({ "ok": policy_json(RetryPolicy::new_without_delay(n)) })
        }
        other => json!({ "error": format!("unknown op {other}") }),
    }
}
