//! Implementation-side evaluator for the correspondence checks. Each subcommand reads one JSON
//! case per line on stdin and writes one JSON result per line on stdout. Panics inside a case are
//! caught and reported as {"panic": msg}.
mod common;
mod partition;
mod filter;
mod filterset;
mod dispatcher;
mod classify;
mod backoff;
mod fq;
mod shellwords;
mod command;
mod overrides;
mod scripts;
mod reader;
mod archive;
mod timers;
mod junit;

use std::io::{BufRead, Write};

fn main() {
    let args: Vec<String> = std::env::args().collect();
    let sub = args.get(1).map(String::as_str).unwrap_or("");
    let f: fn(&serde_json::Value) -> serde_json::Value = match sub {
        "partition" => partition::run,
        "filter" => filter::run,
        "filterset" => filterset::run,
        "dispatcher" => dispatcher::run,
        "classify" => classify::run,
        "backoff" => backoff::run,
        "fq" => fq::run,
        "shellwords" => shellwords::run,
        "command" => command::run,
        "overrides" => overrides::run,
        "scripts" => scripts::run,
        "reader" => reader::run,
        "archive" => archive::run,
        "timers" => timers::run,
        "junit" => junit::run,
        _ => {
            eprintln!("unknown subcommand {sub:?}");
            std::process::exit(2);
        }
    };
    std::panic::set_hook(Box::new(|_| {}));
    let stdin = std::io::stdin();
    let stdout = std::io::stdout();
    let mut out = std::io::BufWriter::new(stdout.lock());
    for line in stdin.lock().lines() {
        let line = line.expect("stdin");
        if line.trim().is_empty() {
            continue;
        }
        let case: serde_json::Value = serde_json::from_str(&line).expect("case json");
        let res = std::panic::catch_unwind(|| f(&case)).unwrap_or_else(|e| {
            let msg = e
                .downcast_ref::<String>()
                .cloned()
                .or_else(|| e.downcast_ref::<&str>().map(|s| s.to_string()))
                .unwrap_or_else(|| "panic".to_string());
            serde_json::json!({ "panic": msg })
        });
        writeln!(out, "{}", res).unwrap();
    }
}
