//! op "runner": nextest's own wiring of the scheduler, exercised through the public API only.
//! A real `TestRunner` (TestRunnerBuilder::build + execute) runs scripted test binaries (a shell
//! script that lists the tests the scenario names and, per invocation, appends a start line with
//! the three NEXTEST_TEST_* variables, sleeps, appends an end line). What is checked on the result
//! (props/C08.py, props/C14.py) is computed from the script's own log only.
use camino::{Utf8Path, Utf8PathBuf};
use nextest_filtering::{CompiledExpr, EvalContext, ParseContext};
use nextest_metadata::{BuildPlatform, RustBinaryId};
use nextest_runner::{
    cargo_config::{CargoConfigs, EnvironmentMap},
    config::{NextestConfig, RetryPolicy, TestThreads, ToolConfigFile},
    double_spawn::DoubleSpawnInfo,
    input::InputHandlerKind,
    list::{RustBuildMeta, RustTestArtifact, TestExecuteContext, TestList},
    platform::BuildPlatforms,
    reporter::events::TestEventKind,
    reuse_build::PathMapper,
    runner::TestRunnerBuilder,
    signal::SignalHandlerKind,
    target_runner::TargetRunner,
    test_filter::{FilterBound, RunIgnored, TestFilterBuilder},
    test_output::CaptureStrategy,
};
use serde_json::{json, Value};
use std::{
    collections::{BTreeSet, BTreeMap},
    fmt::Write as _,
    os::unix::fs::PermissionsExt,
    sync::atomic::{AtomicU64, Ordering},
};

static COUNTER: AtomicU64 = AtomicU64::new(0);

fn sh_quote(s: &str) -> String {
    format!("'{}'", s.replace('\'', "'\\''"))
}

pub fn run_runner(case: &Value) -> Value {
    let n = COUNTER.fetch_add(1, Ordering::SeqCst);
    let root = Utf8PathBuf::from(format!(
        "{}/verif-fq-{}-{}",
        std::env::temp_dir().display(),
        std::process::id(),
        n
    ));
    let _ = std::fs::remove_dir_all(&root);
    std::fs::create_dir_all(&root).expect("scenario dir");
    let res = std::panic::catch_unwind(std::panic::AssertUnwindSafe(|| run_in(case, &root)));
    let _ = std::fs::remove_dir_all(&root);
    match res {
        Ok(v) => v,
        Err(e) => {
            let msg = e
                .downcast_ref::<String>()
                .cloned()
                .or_else(|| e.downcast_ref::<&str>().map(|s| s.to_string()))
                .unwrap_or_else(|| "panic".to_string());
            json!({ "panic": msg })
        }
    }
}

fn run_in(case: &Value, root: &Utf8Path) -> Value {
    let log_path = root.join("puppet.log");
    std::fs::write(&log_path, "").unwrap();

    // ---- config file
    let mut toml = String::new();
    writeln!(toml, "[profile.default]").unwrap();
    if let Some(tt) = case["test_threads"].as_u64() {
        writeln!(toml, "test-threads = {tt}").unwrap();
    }
    writeln!(toml, "retries = {}", case["retries"].as_u64().unwrap_or(0)).unwrap();
    writeln!(toml, "fail-fast = false").unwrap();
    if let Some(groups) = case["groups"].as_object() {
        for (name, max) in groups {
            writeln!(toml, "[test-groups.{name}]\nmax-threads = {}", max.as_u64().unwrap()).unwrap();
        }
    }
    let mut artifacts = Vec::new();
    let package = crate::common::graph()
        .metadata(&crate::common::package_id("a"))
        .expect("package in fixture graph");
    for (bi, b) in case["binaries"].as_array().unwrap().iter().enumerate() {
        let dir = root.join(format!("bin{bi}"));
        std::fs::create_dir_all(&dir).unwrap();
        let mut listing = String::new();
        let mut arms = String::new();
        for t in b["tests"].as_array().unwrap() {
            let name = t["name"].as_str().unwrap();
            writeln!(listing, "{name}: test").unwrap();
            writeln!(
                arms,
                "  {}) d={}; fail_until={};;",
                sh_quote(name),
                t["sleep_ms"].as_u64().unwrap_or(40) as f64 / 1000.0,
                t["fail_until"].as_u64().unwrap_or(0)
            )
            .unwrap();
            let mut ov = String::new();
            if let Some(p) = t["prio"].as_i64() {
                if p != 0 {
                    writeln!(ov, "priority = {p}").unwrap();
                }
            }
            match &t["threads_required"] {
                Value::Number(x) => writeln!(ov, "threads-required = {x}").unwrap(),
                Value::String(s) => writeln!(ov, "threads-required = \"{s}\"").unwrap(),
                _ => {}
            }
            if let Some(g) = t["group"].as_str() {
                writeln!(ov, "test-group = \"{g}\"").unwrap();
            }
            if !ov.is_empty() {
                write!(
                    toml,
                    "[[profile.default.overrides]]\nfilter = 'test(={name})'\n{ov}"
                )
                .unwrap();
            }
        }
        std::fs::write(dir.join("tests.list"), listing).unwrap();
        let id = b["id"].as_str().unwrap();
        let script = format!(
            "#!/bin/sh\nD={dir}\nif [ \"$1\" = \"--list\" ]; then\n  case \"$*\" in *--ignored*) exit 0;; esac\n  cat \"$D/tests.list\"\n  exit 0\nfi\nname=\"$2\"\nd=0.04; fail_until=0\ncase \"$name\" in\n{arms}esac\necho \"S {bid} $name $(date +%s%N) ${{NEXTEST_TEST_GLOBAL_SLOT-unset}} ${{NEXTEST_TEST_GROUP-unset}} ${{NEXTEST_TEST_GROUP_SLOT-unset}} ${{__NEXTEST_ATTEMPT-0}}\" >> {log}\nsleep $d\necho \"E {bid} $name $(date +%s%N) ${{__NEXTEST_ATTEMPT-0}}\" >> {log}\nif [ \"${{__NEXTEST_ATTEMPT-1}}\" -le \"$fail_until\" ]; then exit 1; fi\nexit 0\n",
            dir = sh_quote(dir.as_str()),
            arms = arms,
            bid = id,
            log = sh_quote(log_path.as_str()),
        );
        let path = dir.join("puppet");
        std::fs::write(&path, script).unwrap();
        std::fs::set_permissions(&path, std::fs::Permissions::from_mode(0o755)).unwrap();
        artifacts.push(RustTestArtifact {
            binary_id: RustBinaryId::new(id),
            package,
            binary_path: path,
            binary_name: format!("bin{bi}"),
            kind: crate::common::kind_of("lib"),
            non_test_binaries: BTreeSet::new(),
            cwd: root.to_owned(),
            build_platform: BuildPlatform::Target,
        });
    }
    let config_path = root.join("nextest.toml");
    std::fs::write(&config_path, &toml).unwrap();

    let pcx = ParseContext::new(crate::common::graph());
    let config = match NextestConfig::from_sources(
        root.to_owned(),
        &pcx,
        Some(config_path.as_path()),
        std::iter::empty::<&ToolConfigFile>(),
        &BTreeSet::new(),
    ) {
        Ok(c) => c,
        Err(e) => return json!({ "config_error": format!("{e:?}"), "toml": toml }),
    };
    let build_platforms = BuildPlatforms::new_with_no_target().unwrap();
    let profile = config
        .profile(NextestConfig::DEFAULT_PROFILE)
        .expect("default profile")
        .apply_build_platforms(&build_platforms);

    let double_spawn = DoubleSpawnInfo::disabled();
    let target_runner = TargetRunner::empty();
    let ctx = TestExecuteContext {
        profile_name: NextestConfig::DEFAULT_PROFILE,
        double_spawn: &double_spawn,
        target_runner: &target_runner,
    };
    let all = CompiledExpr::ALL;
    let ecx = EvalContext {
        default_filter: &all,
    };
    let cargo_configs =
        CargoConfigs::new_with_isolation(Vec::<Utf8PathBuf>::new(), root, root, Vec::new()).unwrap();
    let env = EnvironmentMap::new(&cargo_configs);
    let rust_build_meta = RustBuildMeta::new(root.join("target"), build_platforms.clone())
        .map_paths(&PathMapper::noop());
    let filter = TestFilterBuilder::default_set(RunIgnored::Default);
    let test_list = match TestList::new(
        &ctx,
        artifacts,
        rust_build_meta,
        &filter,
        root.to_owned(),
        env,
        &ecx,
        FilterBound::All,
        2,
    ) {
        Ok(l) => l,
        Err(e) => return json!({ "list_error": format!("{e:?}") }),
    };

    let mut builder = TestRunnerBuilder::default();
    match case["capture"].as_str().unwrap_or("split") {
        "none" => builder.set_capture_strategy(CaptureStrategy::None),
        "combined" => builder.set_capture_strategy(CaptureStrategy::Combined),
        _ => builder.set_capture_strategy(CaptureStrategy::Split),
    };
    if let Some(tt) = case["cli_test_threads"].as_u64() {
        builder.set_test_threads(TestThreads::Count(tt as usize));
    }
    if let Some(r) = case["cli_retries"].as_u64() {
        builder.set_retries(RetryPolicy::new_without_delay(r as usize));
    }
    let runner = match builder.build(
        &test_list,
        &profile,
        vec![],
        SignalHandlerKind::Noop,
        InputHandlerKind::Noop,
        double_spawn.clone(),
        TargetRunner::empty(),
    ) {
        Ok(r) => r,
        Err(e) => return json!({ "build_error": format!("{e:?}") }),
    };
    let mut started: Vec<Value> = Vec::new();
    let mut finished: BTreeMap<String, u64> = BTreeMap::new();
    let stats = runner.execute(|event| match event.kind {
        TestEventKind::TestStarted { test_instance, .. } => {
            started.push(json!([
                test_instance.suite_info.binary_id.as_str(),
                test_instance.name
            ]));
        }
        TestEventKind::TestFinished {
            test_instance,
            run_statuses,
            ..
        } => {
            finished.insert(
                format!(
                    "{} {}",
                    test_instance.suite_info.binary_id.as_str(),
                    test_instance.name
                ),
                run_statuses.len() as u64,
            );
        }
        _ => {}
    });
    let stats = match stats {
        Ok(s) => json!({ "initial": s.initial_run_count, "finished": s.finished_count,
                         "passed": s.passed, "failed": s.failed, "flaky": s.flaky }),
        Err(e) => json!({ "execute_error": format!("{e:?}") }),
    };
    let log = std::fs::read_to_string(&log_path).unwrap_or_default();
    let lines: Vec<&str> = log.lines().collect();
    json!({ "started": started, "attempts": finished, "stats": stats, "puppet": lines })
}
