//! Implementation-side evaluator for the `filter` correspondence checks (props/C04.py).
//!
//! op "case": one filter configuration applied to 1..n binaries through the public API
//!   (`TestFilterBuilder::new(..)`, `filter_binary_match`, `build().filter_match(..)`), the
//!   whole-list path through hook H4 (`verif_test_list::process_output`), and the truth tables of
//!   every filterset involved (`matches_test` / `matches_binary`), which the check hands to the
//!   Coq model as its abstract expression stage.
//! op "cli": the real clap definition of the filter options + `merge_test_binary_args` +
//!   `make_test_filter_builder` (hook `verif_dispatch` in cargo-nextest/src/dispatch.rs).
use crate::common::*;
use cargo_nextest::verif_dispatch::{self, VerifArgsError};
use nextest_filtering::{
    CompiledExpr, EvalContext, Filterset, FiltersetKind, ParseContext, TestQuery,
};
use nextest_runner::{
    list::{verif_test_list, RustTestArtifact},
    partition::PartitionerBuilder,
    test_filter::{
        BinaryMismatchReason, FilterBinaryMatch, FilterBound, RunIgnored, TestFilterBuilder,
        TestFilterPatterns,
    },
};
use serde_json::{json, Value};
use std::collections::BTreeSet;

fn partitioner(p: &Value) -> Option<PartitionerBuilder> {
    if p.is_null() {
        return None;
    }
    let shard = p["m"].as_u64()?;
    let total_shards = p["n"].as_u64()?;
    match p["kind"].as_str()? {
        "count" => Some(PartitionerBuilder::Count {
            shard,
            total_shards,
        }),
        "hash" => Some(PartitionerBuilder::Hash {
            shard,
            total_shards,
        }),
        _ => None,
    }
}

fn run_ignored(s: &str) -> RunIgnored {
    match s {
        "only" => RunIgnored::Only,
        "all" => RunIgnored::All,
        _ => RunIgnored::Default,
    }
}

fn opt_code(o: Option<bool>) -> u64 {
    match o {
        Some(false) => 0,
        Some(true) => 1,
        None => 2,
    }
}

fn bin_code(m: FilterBinaryMatch) -> u64 {
    match m {
        FilterBinaryMatch::Definite => 0,
        FilterBinaryMatch::Possible => 1,
        FilterBinaryMatch::Mismatch {
            reason: BinaryMismatchReason::Expression,
        } => 2,
        FilterBinaryMatch::Mismatch {
            reason: BinaryMismatchReason::DefaultSet,
        } => 3,
    }
}

fn patterns_of(case: &Value) -> TestFilterPatterns {
    let mut patterns = TestFilterPatterns::new(strs(&case["pre"]));
    for op in case["ops"].as_array().map(|a| a.as_slice()).unwrap_or(&[]) {
        let arg = op[1].as_str().unwrap().to_owned();
        match op[0].as_str().unwrap() {
            "sub" => patterns.add_substring_pattern(arg),
            "exact" => patterns.add_exact_pattern(arg),
            "skip" => patterns.add_skip_pattern(arg),
            "skipexact" => patterns.add_skip_exact_pattern(arg),
            other => panic!("unknown pattern op {other}"),
        }
    }
    patterns
}

fn artifact_of(b: &Value) -> RustTestArtifact<'static> {
    artifact(
        b["pkg"].as_str().unwrap(),
        b["id"].as_str().unwrap(),
        b["name"].as_str().unwrap(),
        b["kind"].as_str().unwrap(),
        b["platform"].as_str().unwrap(),
    )
}

fn listing(names: &Value) -> String {
    strs(names)
        .iter()
        .map(|n| format!("{n}: test\n"))
        .collect::<String>()
}

fn calls_of(b: &Value) -> Vec<(String, bool)> {
    b["calls"]
        .as_array()
        .map(|a| {
            a.iter()
                .map(|c| (c[0].as_str().unwrap().to_owned(), c[1].as_bool().unwrap()))
                .collect()
        })
        .unwrap_or_default()
}

fn run_case(case: &Value) -> Value {
    let pcx = ParseContext::new(graph());
    let mut sets = Vec::new();
    for e in strs(&case["filtersets"]) {
        match Filterset::parse(e.clone(), &pcx, FiltersetKind::Test) {
            Ok(f) => sets.push(f),
            Err(_) => return json!({ "error": format!("filterset does not parse: {e}") }),
        }
    }
    let default_src = case["default"].as_str().unwrap_or("all()").to_owned();
    let default = match Filterset::parse(default_src.clone(), &pcx, FiltersetKind::DefaultFilter) {
        Ok(f) => f.compiled,
        Err(_) => return json!({ "error": format!("default filter does not parse: {default_src}") }),
    };
    let default: CompiledExpr = default;
    let ecx = EvalContext {
        default_filter: &default,
    };
    let bound = match case["bound"].as_str().unwrap_or("all") {
        "default" => FilterBound::DefaultSet,
        _ => FilterBound::All,
    };
    let builder = match TestFilterBuilder::new(
        run_ignored(case["ri"].as_str().unwrap_or("default")),
        partitioner(&case["partition"]),
        patterns_of(case),
        sets.clone(),
    ) {
        Ok(b) => b,
        Err(e) => return json!({ "error": format!("builder: {e}") }),
    };

    let mut out = Vec::new();
    for b in case["binaries"].as_array().unwrap() {
        let art = artifact_of(b);
        let calls = calls_of(b);
        // every name this binary is asked about
        let mut names: BTreeSet<String> = calls.iter().map(|(n, _)| n.clone()).collect();
        names.extend(strs(&b["non_ignored"]));
        names.extend(strs(&b["ignored"]));
        let names: Vec<String> = names.into_iter().collect();

        // truth tables of the expression stage, from the real evaluator
        let bq = art.to_binary_query();
        let ebs: Vec<u64> = sets
            .iter()
            .map(|s| opt_code(s.matches_binary(&bq, &ecx)))
            .collect();
        let db = opt_code(default.matches_binary(&bq, &ecx));
        let ets: Vec<Vec<u64>> = sets
            .iter()
            .map(|s| {
                names
                    .iter()
                    .map(|n| {
                        s.matches_test(
                            &TestQuery {
                                binary_query: art.to_binary_query(),
                                test_name: n,
                            },
                            &ecx,
                        ) as u64
                    })
                    .collect()
            })
            .collect();
        let dt: Vec<u64> = names
            .iter()
            .map(|n| {
                default.matches_test(
                    &TestQuery {
                        binary_query: art.to_binary_query(),
                        test_name: n,
                    },
                    &ecx,
                ) as u64
            })
            .collect();

        // binary level
        let bin = bin_code(builder.filter_binary_match(&art, &ecx, bound));

        // test level: one TestFilter, a sequence of calls
        let mut tf = builder.build();
        let call_codes: Vec<u64> = calls
            .iter()
            .map(|(n, ign)| mismatch_code(tf.filter_match(&art, n, &ecx, bound, *ign)))
            .collect();

        // whole-list path
        let list = if b["non_ignored"].is_null() && b["ignored"].is_null() {
            Value::Null
        } else {
            match verif_test_list::process_output(
                artifact_of(b),
                &builder,
                &ecx,
                bound,
                &listing(&b["non_ignored"]),
                &listing(&b["ignored"]),
            ) {
                Ok(v) => json!(v
                    .into_iter()
                    .map(|(n, ign, fm)| json!([n, ign as u64, mismatch_code(fm)]))
                    .collect::<Vec<_>>()),
                Err(e) => json!({ "error": e.to_string() }),
            }
        };
        out.push(json!({
            "names": names, "ebs": ebs, "db": db, "ets": ets, "dt": dt,
            "bin": bin, "calls": call_codes, "list": list,
        }));
    }
    json!(out)
}

fn sorted(it: impl IntoIterator<Item = String>) -> Vec<String> {
    let mut v: Vec<String> = it.into_iter().collect();
    v.sort();
    v
}

fn run_cli(case: &Value) -> Value {
    let argv = strs(&case["argv"]);
    match verif_dispatch::merged_test_filter(&argv) {
        Err(VerifArgsError::Clap(_)) => json!({ "err": "clap" }),
        Err(VerifArgsError::TestBinaryArgs(reason, args)) => {
            json!({ "err": reason, "args": args })
        }
        Err(VerifArgsError::Other(e)) => json!({ "err": "other", "detail": e }),
        Ok(m) => {
            let ri = match m.run_ignored {
                None => 0,
                Some(RunIgnored::Default) => 1,
                Some(RunIgnored::Only) => 2,
                Some(RunIgnored::All) => 3,
            };
            let pats = match m.patterns {
                TestFilterPatterns::SkipOnly {
                    skip_patterns,
                    skip_exact_patterns,
                } => json!({ "variant": "skiponly", "subs": [], "exacts": [],
                             "skips": skip_patterns, "skip_exacts": sorted(skip_exact_patterns) }),
                TestFilterPatterns::Patterns {
                    patterns,
                    exact_patterns,
                    skip_patterns,
                    skip_exact_patterns,
                } => json!({ "variant": "patterns", "subs": patterns,
                             "exacts": sorted(exact_patterns), "skips": skip_patterns,
                             "skip_exacts": sorted(skip_exact_patterns) }),
            };
            // the builder that cargo-nextest would use, applied to the given tests
            let all = CompiledExpr::ALL;
            let ecx = EvalContext {
                default_filter: &all,
            };
            let art = artifact("a", "crate_a", "crate_a", "lib", "target");
            let mut tf = m.builder.build();
            let codes: Vec<u64> = calls_of(case)
                .iter()
                .map(|(n, ign)| {
                    mismatch_code(tf.filter_match(&art, n, &ecx, FilterBound::All, *ign))
                })
                .collect();
            json!({ "ri": ri, "pats": pats, "calls": codes })
        }
    }
}

pub fn run(case: &Value) -> Value {
    match case["op"].as_str().unwrap_or("") {
        "case" => run_case(case),
        "cli" => run_cli(case),
        other => json!({ "error": format!("unknown op {other}") }),
    }
}
