//! Implementation-side evaluator for the `classify` correspondence checks (props/C03.py):
//! the real `create_execution_result`, `ExecutionStatuses::describe` and the `detect_fd_leaks`
//! loop through hook H3.
//!
//! Result encoding (same as `enc_result` in the Coq prelude of props/C03.py):
//! Pass=[0] Leak=[1] Fail=[2, has_signal, signal, leaked] ExecFail=[3] Timeout=[4].
use nextest_runner::{
    reporter::events::{verif_events, verif_events::Described, AbortStatus, ExecutionResult},
    runner::verif_executor,
};
use serde_json::{json, Value};
use std::{
    io::Write,
    os::fd::OwnedFd,
    time::{Duration, Instant},
};

pub(crate) fn enc(r: ExecutionResult) -> Value {
    match r {
        ExecutionResult::Pass => json!([0]),
        ExecutionResult::Leak => json!([1]),
        ExecutionResult::Fail {
            abort_status,
            leaked,
        } => match abort_status {
            Some(AbortStatus::UnixSignal(s)) => json!([2, 1, s, leaked as u64]),
            None => json!([2, 0, 0, leaked as u64]),
        },
        ExecutionResult::ExecFail => json!([3]),
        ExecutionResult::Timeout => json!([4]),
    }
}

fn dec(v: &Value) -> ExecutionResult {
    let a: Vec<i64> = v
        .as_array()
        .expect("result")
        .iter()
        .map(|x| x.as_i64().expect("number"))
        .collect();
    match a[0] {
        0 => ExecutionResult::Pass,
        1 => ExecutionResult::Leak,
        2 => ExecutionResult::Fail {
            abort_status: (a[1] != 0).then_some(AbortStatus::UnixSignal(a[2] as i32)),
            leaked: a[3] != 0,
        },
        3 => ExecutionResult::ExecFail,
        4 => ExecutionResult::Timeout,
        other => panic!("unknown result code {other}"),
    }
}

fn leak_probe(case: &Value) -> Value {
    let unit = Duration::from_millis(case["unit_ms"].as_u64().expect("unit_ms"));
    let timeout = unit * case["timeout"].as_u64().expect("timeout") as u32;
    // events: [[t, "data" | "eof" | "req"], ...] with t in units, ascending
    let mut fd_events: Vec<(Duration, bool)> = Vec::new();
    let mut reqs: Vec<Duration> = Vec::new();
    for e in case["events"].as_array().expect("events") {
        let t = unit * e[0].as_u64().expect("t") as u32;
        match e[1].as_str().expect("kind") {
            "data" => fd_events.push((t, false)),
            "eof" => fd_events.push((t, true)),
            "req" => reqs.push(t),
            other => panic!("unknown event {other}"),
        }
    }
    let (reader, writer) = std::io::pipe().expect("pipe");
    let file = std::fs::File::from(OwnedFd::from(reader));
    let (done_tx, done_rx) = std::sync::mpsc::channel::<()>();
    let rt = tokio::runtime::Builder::new_current_thread()
        .enable_all()
        .build()
        .expect("runtime");
    let t0 = Instant::now();
    let holder = std::thread::spawn(move || {
        let mut writer = Some(writer);
        for (t, eof) in fd_events {
            if let Some(rest) = t.checked_sub(t0.elapsed()) {
                // stop early if the probe has already returned
                if done_rx.recv_timeout(rest).is_ok() {
                    return;
                }
            }
            if eof {
                writer = None;
            } else if let Some(w) = writer.as_mut() {
                let _ = w.write_all(b"x");
            }
        }
        // hold whatever is still open until the probe has returned
        let _ = done_rx.recv();
        drop(writer);
    });
    let (leaked, elapsed) =
        rt.block_on(verif_executor::detect_fd_leaks_probe(file, timeout, reqs));
    let _ = done_tx.send(());
    let _ = holder.join();
    drop(rt);
    json!([leaked as u64, elapsed.as_millis() as u64])
}

pub fn run(case: &Value) -> Value {
    match case["op"].as_str().unwrap_or("") {
        // create_execution_result(ExitStatus::from_raw(raw), errors, leaked)
        "cer" => enc(verif_executor::create_execution_result_raw(
            case["raw"].as_i64().expect("raw") as i32,
            case["err"].as_bool().expect("err"),
            case["leaked"].as_bool().expect("leaked"),
        )),
        // ExecutionStatuses::new(..).describe() / last_status()
        "describe" => {
            let results: Vec<ExecutionResult> = case["results"]
                .as_array()
                .expect("results")
                .iter()
                .map(dec)
                .collect();
            let (d, last_attempt, last_result) = verif_events::describe_results(&results);
            let d = match d {
                Described::Success { single } => json!([0, single, 0, []]),
                Described::Flaky { last, prior } => json!([1, last, 0, prior]),
                Described::Failure {
                    first,
                    last,
                    retries,
                } => json!([2, last, first, retries]),
            };
            json!({ "describe": d, "last_attempt": last_attempt, "last_result": enc(last_result),
                    "is_success": last_result.is_success() })
        }
        "is_success" => json!(dec(&case["result"]).is_success()),
        "leak" => leak_probe(case),
        other => json!({ "error": format!("unknown op {other}") }),
    }
}
