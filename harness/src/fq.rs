//! Implementation-side evaluator for the `fq` correspondence checks (props/C08.py, props/C14.py).
//!
//! op "run": drives the REAL `future_queue_grouped` stream of the `future-queue` crate nextest
//! links, single-threaded, with a hand-rolled poll loop (no runtime: nothing runs between two
//! polls that the script did not ask for). Each item's future waits on a oneshot channel the
//! harness fires in a scripted order. Logged, in order:
//!   ["p"]                      poll_next is called
//!   ["s", id, gslot, grslot]   the item's closure was called with its FutureQueueContext
//!                              (grslot = -1 when the context has no group slot)
//!   ["c", id]                  the item's future resolved (inside the poll that pops it, or at
//!                              the end of the previous poll when the stream peeked at it)
//!   ["o", id]                  poll_next returned this item's output
//!   ["w", cur]                 current_global_weight() after the stream went Pending
//!   ["e"]                      poll_next returned None
//!   ["x", msg]                 poll_next panicked (debug_assert / unknown group)
//! ops "binid_cmp", "prio_cmp", "threads_required", "prio_sort": nextest's own wiring through its
//! public API (RustBinaryId's Ord, TestPriority's Ord, ThreadsRequired::compute).
#[path = "fq_runner.rs"]
mod fq_runner;

use future_queue::{FutureQueueContext, StreamExt as _};
use futures::{channel::oneshot, stream, Stream, StreamExt as _};
use serde_json::{json, Value};
use std::{
    cell::RefCell,
    panic::{catch_unwind, AssertUnwindSafe},
    pin::Pin,
    rc::Rc,
    sync::{
        atomic::{AtomicBool, Ordering},
        Arc,
    },
    task::{Context, Poll, Wake, Waker},
};

struct Flag(AtomicBool);
impl Wake for Flag {
    fn wake(self: Arc<Self>) {
        self.0.store(true, Ordering::SeqCst);
    }
}

struct Shared {
    log: Vec<Value>,
    /// started, not yet returned, in start order
    running: Vec<u64>,
}

/// poll until the stream is Pending without having woken itself
fn drive<S: Stream<Item = u64>>(
    q: &mut Pin<Box<S>>,
    shared: &Rc<RefCell<Shared>>,
    flag: &Arc<Flag>,
    waker: &Waker,
    ended: &mut bool,
    panicked: &mut Option<String>,
    cur: &dyn Fn(&S) -> usize,
) {
    let mut budget = 10_000;
    while !*ended && panicked.is_none() && budget > 0 {
        budget -= 1;
        shared.borrow_mut().log.push(json!(["p"]));
        flag.0.store(false, Ordering::SeqCst);
        let mut cx = Context::from_waker(waker);
        let r = catch_unwind(AssertUnwindSafe(|| q.as_mut().poll_next(&mut cx)));
        match r {
            Ok(Poll::Ready(Some(id))) => {
                let mut s = shared.borrow_mut();
                s.log.push(json!(["o", id]));
                s.running.retain(|x| *x != id);
            }
            Ok(Poll::Ready(None)) => {
                shared.borrow_mut().log.push(json!(["e"]));
                *ended = true;
            }
            Ok(Poll::Pending) => {
                if !flag.0.load(Ordering::SeqCst) {
                    break;
                }
            }
            Err(e) => {
                let msg = e
                    .downcast_ref::<String>()
                    .cloned()
                    .or_else(|| e.downcast_ref::<&str>().map(|s| s.to_string()))
                    .unwrap_or_else(|| "panic".to_string());
                shared.borrow_mut().log.push(json!(["x", msg.clone()]));
                *panicked = Some(msg);
            }
        }
    }
    if !*ended && panicked.is_none() {
        let c = cur(&**q);
        shared.borrow_mut().log.push(json!(["w", c]));
    }
}

fn run_queue(case: &Value) -> Value {
    let gmax = case["gmax"].as_u64().unwrap() as usize;
    let groups: Vec<(u64, usize)> = case["groups"]
        .as_array()
        .unwrap()
        .iter()
        .map(|g| (g[0].as_u64().unwrap(), g[1].as_u64().unwrap() as usize))
        .collect();
    // item = [weight, group or null, immediately-ready flag]
    let items: Vec<(usize, Option<u64>, bool)> = case["items"]
        .as_array()
        .unwrap()
        .iter()
        .map(|it| {
            (
                it[0].as_u64().unwrap() as usize,
                it[1].as_u64(),
                it[2].as_u64().unwrap_or(0) != 0,
            )
        })
        .collect();
    let script: Vec<Vec<(u64, u64)>> = case["script"]
        .as_array()
        .map(|a| {
            a.iter()
                .map(|b| {
                    b.as_array()
                        .unwrap()
                        .iter()
                        .map(|s| (s[0].as_u64().unwrap(), s[1].as_u64().unwrap()))
                        .collect()
                })
                .collect()
        })
        .unwrap_or_default();

    let shared = Rc::new(RefCell::new(Shared {
        log: Vec::new(),
        running: Vec::new(),
    }));
    let mut senders: Vec<Option<oneshot::Sender<()>>> = Vec::new();
    let mut source = Vec::new();
    for (i, (w, g, imm)) in items.iter().enumerate() {
        let (tx, rx) = oneshot::channel::<()>();
        if *imm {
            let _ = tx.send(());
            senders.push(None);
        } else {
            senders.push(Some(tx));
        }
        source.push((i as u64, *w, *g, rx));
    }
    let sh2 = shared.clone();
    let src = stream::iter(source).map(move |(id, w, g, rx)| {
        let sh = sh2.clone();
        let f = move |cx: FutureQueueContext| {
            {
                let mut s = sh.borrow_mut();
                s.log.push(json!([
                    "s",
                    id,
                    cx.global_slot(),
                    cx.group_slot().map(|x| x as i64).unwrap_or(-1)
                ]));
                s.running.push(id);
            }
            let sh = sh.clone();
            async move {
                let _ = rx.await;
                // the "test" ends here, inside the poll that pops it
                sh.borrow_mut().log.push(json!(["c", id]));
                id
            }
        };
        (w, g, f)
    });
    let mut q = Box::pin(src.future_queue_grouped(gmax, groups));

    let flag = Arc::new(Flag(AtomicBool::new(false)));
    let waker = Waker::from(flag.clone());
    let mut ended = false;
    let mut panicked: Option<String> = None;

    drive(&mut q, &shared, &flag, &waker, &mut ended, &mut panicked, &|s| s.current_global_weight());

    let fire = |sel: (u64, u64), senders: &mut Vec<Option<oneshot::Sender<()>>>| -> bool {
        let cand: Vec<u64> = shared
            .borrow()
            .running
            .iter()
            .copied()
            .filter(|id| senders[*id as usize].is_some())
            .collect();
        if cand.is_empty() {
            return false;
        }
        let pick = match sel.0 {
            1 => *cand.last().unwrap(),
            2 => cand
                .iter()
                .copied()
                .find(|id| items[*id as usize].1 == Some(sel.1))
                .unwrap_or(cand[0]),
            _ => cand[(sel.1 as usize) % cand.len()],
        };
        let tx = senders[pick as usize].take().unwrap();
        let _ = tx.send(());
        true
    };

    for batch in &script {
        if ended || panicked.is_some() {
            break;
        }
        let mut any = false;
        for sel in batch {
            any |= fire(*sel, &mut senders);
        }
        if any {
            drive(&mut q, &shared, &flag, &waker, &mut ended, &mut panicked, &|s| s.current_global_weight());
        }
    }
    // let every started future complete (start order) so that each run is a complete run
    let mut guard = 0;
    while !ended && panicked.is_none() && guard < 10_000 {
        guard += 1;
        if !fire((0, 0), &mut senders) {
            break;
        }
        drive(&mut q, &shared, &flag, &waker, &mut ended, &mut panicked, &|s| s.current_global_weight());
    }
    let outcome = if let Some(m) = &panicked {
        format!("panic: {m}")
    } else if ended {
        "end".to_string()
    } else {
        "stuck".to_string()
    };
    let log = std::mem::take(&mut shared.borrow_mut().log);
    json!({ "log": log, "outcome": outcome, "max": q.max_global_weight() })
}

fn ord_code(o: std::cmp::Ordering) -> i64 {
    match o {
        std::cmp::Ordering::Less => -1,
        std::cmp::Ordering::Equal => 0,
        std::cmp::Ordering::Greater => 1,
    }
}

pub fn run(case: &Value) -> Value {
    match case["op"].as_str().unwrap_or("") {
        "run" => run_queue(case),
        // RustBinaryId's Ord on all pairs of the given ids
        "binid_cmp" => {
            let ids: Vec<nextest_metadata::RustBinaryId> = crate::common::strs(&case["ids"])
                .iter()
                .map(|s| nextest_metadata::RustBinaryId::new(s))
                .collect();
            let m: Vec<Vec<i64>> = ids
                .iter()
                .map(|a| ids.iter().map(|b| ord_code(a.cmp(b))).collect())
                .collect();
            json!(m)
        }
        // TestPriority: new (range check) and Ord on all pairs
        "prio_cmp" => {
            let ps: Vec<i64> = case["prios"]
                .as_array()
                .unwrap()
                .iter()
                .map(|p| p.as_i64().unwrap())
                .collect();
            let vals: Vec<Option<nextest_runner::config::TestPriority>> = ps
                .iter()
                .map(|p| nextest_runner::config::TestPriority::new(*p as i8).ok())
                .collect();
            let valid: Vec<u64> = vals.iter().map(|v| v.is_some() as u64).collect();
            let m: Vec<Vec<i64>> = vals
                .iter()
                .map(|a| {
                    vals.iter()
                        .map(|b| match (a, b) {
                            (Some(a), Some(b)) => ord_code(a.cmp(b)),
                            _ => 9,
                        })
                        .collect()
                })
                .collect();
            json!({ "valid": valid, "cmp": m })
        }
        // ThreadsRequired::compute(test_threads); kind: "count" n | "num-test-threads"
        "threads_required" => {
            use nextest_runner::config::ThreadsRequired;
            let tt = case["test_threads"].as_u64().unwrap() as usize;
            let tr = match case["kind"].as_str().unwrap() {
                "count" => ThreadsRequired::Count(case["n"].as_u64().unwrap() as usize),
                "num-test-threads" => ThreadsRequired::NumTestThreads,
                _ => ThreadsRequired::NumCpus,
            };
            json!(tr.compute(tt))
        }
        // what TestPriorityQueue::new does with public pieces only: BTreeMap<RustBinaryId, _> x
        // BTreeMap<String, _> iteration order, then Vec::sort_by_key (stable) on TestPriority.
        "prio_sort" => {
            use nextest_metadata::RustBinaryId;
            use nextest_runner::config::TestPriority;
            use std::collections::BTreeMap;
            let mut suites: BTreeMap<RustBinaryId, BTreeMap<String, (i64, u64)>> = BTreeMap::new();
            for (k, t) in case["tests"].as_array().unwrap().iter().enumerate() {
                suites
                    .entry(RustBinaryId::new(t[0].as_str().unwrap()))
                    .or_default()
                    .insert(t[1].as_str().unwrap().to_owned(), (t[2].as_i64().unwrap(), k as u64));
            }
            let mut v: Vec<(TestPriority, u64)> = suites
                .values()
                .flat_map(|s| s.values())
                .map(|(p, k)| (TestPriority::new(*p as i8).expect("priority in range"), *k))
                .collect();
            v.sort_by_key(|x| x.0);
            json!(v.iter().map(|x| x.1).collect::<Vec<_>>())
        }
        "runner" => fq_runner::run_runner(case),
        other => json!({ "error": format!("unknown op {other}") }),
    }
}
