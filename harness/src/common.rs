use camino::Utf8PathBuf;
use guppy::{graph::PackageGraph, PackageId};
use nextest_metadata::{BuildPlatform, RustBinaryId, RustTestBinaryKind};
use nextest_runner::list::RustTestArtifact;
use std::{collections::BTreeSet, sync::OnceLock};

pub fn graph() -> &'static PackageGraph {
    static G: OnceLock<PackageGraph> = OnceLock::new();
    G.get_or_init(|| {
        let repo = std::env::var("VERIF_REPO").unwrap_or_else(|_| "/repo".to_owned());
        // VERIF_GRAPH_JSON: an alternative cargo-metadata document (e.g. the fixture with one package
        // turned into a non-member path dependency)
        let path = std::env::var("VERIF_GRAPH_JSON")
            .unwrap_or_else(|_| format!("{repo}/fixtures/tests-workspace-metadata.json"));
        let json = std::fs::read_to_string(path).expect("fixture metadata");
        PackageGraph::from_json(json).expect("package graph")
    })
}

/// crate_a .. crate_g
pub fn package_id(letter: &str) -> PackageId {
    PackageId::new(format!(
        "crate_{letter} 0.1.0 (path+file:///home/fakeuser/tests-workspace/crate-{letter})"
    ))
}

pub fn kind_of(s: &str) -> RustTestBinaryKind {
    RustTestBinaryKind::new(s.to_owned())
}

pub fn platform_of(s: &str) -> BuildPlatform {
    match s {
        "host" => BuildPlatform::Host,
        _ => BuildPlatform::Target,
    }
}

pub fn artifact(
    pkg_letter: &str,
    binary_id: &str,
    binary_name: &str,
    kind: &str,
    platform: &str,
) -> RustTestArtifact<'static> {
    let package = graph()
        .metadata(&package_id(pkg_letter))
        .expect("package in fixture graph");
    RustTestArtifact {
        binary_id: RustBinaryId::new(binary_id),
        package,
        binary_path: Utf8PathBuf::from("/fake/binary"),
        binary_name: binary_name.to_owned(),
        kind: kind_of(kind),
        non_test_binaries: BTreeSet::new(),
        cwd: Utf8PathBuf::from("/fake/cwd"),
        build_platform: platform_of(platform),
    }
}

pub fn strs(v: &serde_json::Value) -> Vec<String> {
    v.as_array()
        .map(|a| a.iter().map(|x| x.as_str().unwrap().to_owned()).collect())
        .unwrap_or_default()
}

pub fn mismatch_code(fm: nextest_metadata::FilterMatch) -> u64 {
    use nextest_metadata::{FilterMatch, MismatchReason};
    match fm {
        FilterMatch::Matches => 0,
        FilterMatch::Mismatch { reason } => match reason {
            MismatchReason::Ignored => 1,
            MismatchReason::String => 2,
            MismatchReason::Expression => 3,
            MismatchReason::Partition => 4,
            MismatchReason::DefaultFilter => 5,
            _ => 99,
        },
    }
}
