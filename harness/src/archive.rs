//! Implementation-side evaluator for the `archive` correspondence checks (C19, see props/C19.py).
//! Everything here goes through the public API of nextest-runner:
//!   archive      archive_to_file on a BinaryList built from a summary + a config file
//!   extract      ReuseBuildInfo::extract_archive into a given directory
//!   list_tar     raw entry list of a .tar.zst (tar + zstd crates; used to look *inside* an archive)
//!   components   camino's Utf8Path::components / std::str::from_utf8 on a byte string
//!   include      parsing of `archive.include` through NextestConfig::from_sources
//!   mapper       PathMapper as observed through RustTestArtifact::from_binary_list / map_paths
use crate::common::graph;
use camino::{Utf8Component, Utf8Path, Utf8PathBuf};
use nextest_filtering::ParseContext;
use nextest_metadata::BinaryListSummary;
use nextest_runner::{
    config::{ArchiveIncludeOnMissing, NextestConfig, RecursionDepth},
    errors::{ArchiveCreateError, ArchiveExtractError, ArchiveReadError},
    list::{BinaryList, RustTestArtifact},
    redact::Redactor,
    reuse_build::{
        archive_to_file, ArchiveEvent, ArchiveFormat, ExtractDestination, LibdirMapper, PathMapper,
        ReuseBuildInfo,
    },
};
use serde_json::{json, Value};
use std::{io, sync::Arc};

pub fn run(case: &Value) -> Value {
    match case["op"].as_str().unwrap_or("") {
        "archive" => op_archive(case),
        "extract" => op_extract(case),
        "list_tar" => op_list_tar(case),
        "components" => op_components(case),
        "include" => op_include(case),
        "mapper" => op_mapper(case),
        other => json!({ "error": format!("unknown op {other}") }),
    }
}

fn unhex(s: &str) -> Vec<u8> {
    (0..s.len() / 2)
        .map(|i| u8::from_str_radix(&s[2 * i..2 * i + 2], 16).unwrap())
        .collect()
}

fn hex(b: &[u8]) -> String {
    b.iter().map(|x| format!("{x:02x}")).collect()
}

fn cargo_metadata_json() -> String {
    let repo = std::env::var("VERIF_REPO").unwrap_or_else(|_| "/repo".to_owned());
    std::fs::read_to_string(format!("{repo}/fixtures/tests-workspace-metadata.json"))
        .expect("fixture metadata")
}

fn depth_code(d: RecursionDepth) -> Value {
    match d {
        RecursionDepth::Finite(n) => json!(n),
        RecursionDepth::Infinite => json!("infinite"),
    }
}

fn load_config(toml: &str, dir: &Utf8Path) -> Result<NextestConfig, String> {
    let cfg = dir.join("c19-nextest.toml");
    std::fs::write(&cfg, toml).map_err(|e| e.to_string())?;
    let pcx = ParseContext::new(graph());
    let r = NextestConfig::from_sources(
        // a workspace root without .config/nextest.toml
        dir.to_owned(),
        &pcx,
        Some(&cfg),
        [],
        &Default::default(),
    )
    .map_err(|e| format!("{e:?}"));
    let _ = std::fs::remove_file(&cfg);
    r
}

fn event_code(ev: &ArchiveEvent<'_>) -> Option<Value> {
    Some(match ev {
        ArchiveEvent::ExtraPathMissing { path, warn } => json!(["missing", path.as_str(), warn]),
        ArchiveEvent::DirectoryAtDepthZero { path } => json!(["dir-depth0", path.as_str()]),
        ArchiveEvent::RecursionDepthExceeded { path, .. } => json!(["depth", path.as_str()]),
        ArchiveEvent::UnknownFileType { path, .. } => json!(["unknown", path.as_str()]),
        ArchiveEvent::LinkedPathNotFound { path, .. } => json!(["linked-missing", path.as_str()]),
        ArchiveEvent::StdlibPathError { .. } => json!(["stdlib-error"]),
        ArchiveEvent::ArchiveStarted { .. } => json!(["started"]),
        ArchiveEvent::Archived { file_count, .. } => json!(["archived", file_count]),
        _ => return None,
    })
}

/// {"op":"archive","summary":{..BinaryListSummary..},"config":"toml","out":"/x/y.tar.zst",
///  "scratch":"/dir for the config file","fail_event_at":k?}
fn op_archive(case: &Value) -> Value {
    let summary: BinaryListSummary = match serde_json::from_value(case["summary"].clone()) {
        Ok(s) => s,
        Err(e) => return json!({ "error": format!("summary: {e}") }),
    };
    let binary_list = match BinaryList::from_summary(summary) {
        Ok(b) => b,
        Err(e) => return json!({ "error": format!("from_summary: {e}") }),
    };
    let scratch = Utf8PathBuf::from(case["scratch"].as_str().unwrap());
    let config = match load_config(case["config"].as_str().unwrap_or(""), &scratch) {
        Ok(c) => c,
        Err(e) => return json!({ "config_error": e }),
    };
    let profile = config
        .profile("default")
        .expect("default profile")
        .apply_build_platforms(&binary_list.rust_build_meta.build_platforms);
    let out = Utf8PathBuf::from(case["out"].as_str().unwrap());
    let fail_at = case["fail_event_at"].as_u64();
    let mut events = Vec::new();
    let mut n = 0u64;
    let meta = cargo_metadata_json();
    let res = archive_to_file(
        profile,
        &binary_list,
        &meta,
        graph(),
        &PathMapper::noop(),
        ArchiveFormat::TarZst,
        case["zstd_level"].as_i64().unwrap_or(1) as i32,
        &out,
        |ev| {
            n += 1;
            if Some(n) == fail_at {
                return Err(io::Error::new(io::ErrorKind::Other, "injected reporter failure"));
            }
            if let Some(c) = event_code(&ev) {
                events.push(c);
            }
            Ok(())
        },
        Redactor::noop(),
    );
    match res {
        Ok(()) => json!({ "ok": true, "events": events }),
        Err(e) => {
            let kind = match &e {
                ArchiveCreateError::CreateBinaryList(_) => "create-binary-list",
                ArchiveCreateError::MissingExtraPath { .. } => "missing-extra-path",
                ArchiveCreateError::InputFileRead { .. } => "input-file-read",
                ArchiveCreateError::DirEntryRead { .. } => "dir-entry-read",
                ArchiveCreateError::OutputArchiveIo(_) => "output-archive-io",
                ArchiveCreateError::ReporterIo(_) => "reporter-io",
                _ => "other",
            };
            json!({ "ok": false, "err": kind, "msg": format!("{e:?}"), "events": events })
        }
    }
}

fn read_err_code(e: &ArchiveReadError) -> &'static str {
    match e {
        ArchiveReadError::Io(_) => "io",
        ArchiveReadError::NonUtf8Path(_) => "non-utf8",
        ArchiveReadError::NoTargetPrefix(_) => "no-target-prefix",
        ArchiveReadError::InvalidComponent { .. } => "invalid-component",
        ArchiveReadError::ChecksumRead { .. } => "checksum-read",
        ArchiveReadError::InvalidChecksum { .. } => "invalid-checksum",
        ArchiveReadError::MetadataFileNotFound(_) => "metadata-not-found",
        ArchiveReadError::MetadataDeserializeError { .. } => "metadata-deserialize",
        ArchiveReadError::PackageGraphConstructError { .. } => "package-graph",
        // the variant added by the F19 repair (matched by name so that the harness also builds
        // against a tree without it)
        other if format!("{other:?}").starts_with("LinkEntry") => "link-entry",
        _ => "read-other",
    }
}

/// {"op":"extract","archive":path,"dest":dir,"overwrite":bool}
fn op_extract(case: &Value) -> Value {
    let archive = Utf8PathBuf::from(case["archive"].as_str().unwrap());
    let dest = Utf8PathBuf::from(case["dest"].as_str().unwrap());
    let overwrite = case["overwrite"].as_bool().unwrap_or(false);
    let mut started = false;
    let res = ReuseBuildInfo::extract_archive(
        &archive,
        ArchiveFormat::TarZst,
        ExtractDestination::Destination {
            dir: dest,
            overwrite,
        },
        |ev| {
            if let ArchiveEvent::ExtractStarted { .. } = ev {
                started = true;
            }
            Ok(())
        },
        None,
    );
    match res {
        Ok(info) => {
            let bl = &info.binaries_metadata().expect("binaries metadata").binary_list;
            let bins: Vec<Value> = bl
                .rust_binaries
                .iter()
                .map(|b| json!([b.id.as_str(), b.path.as_str()]))
                .collect();
            json!({ "ok": true,
                    "target_dir_remap": info.target_dir_remap().map(|p| p.as_str().to_owned()),
                    "orig_target_dir": bl.rust_build_meta.target_directory.as_str(),
                    "binaries": bins })
        }
        Err(e) => {
            let (kind, path) = match &e {
                ArchiveExtractError::Read(r) => (read_err_code(r), None),
                ArchiveExtractError::DestinationExists(_) => ("destination-exists", None),
                ArchiveExtractError::DestDirCanonicalization { .. } => ("dest-canonicalize", None),
                ArchiveExtractError::WriteFile { path, .. } => ("write-file", Some(path.to_string())),
                ArchiveExtractError::RustBuildMeta(_) => ("rust-build-meta", None),
                ArchiveExtractError::ReporterIo(_) => ("reporter-io", None),
                ArchiveExtractError::TempDirCreate(_) => ("tempdir", None),
                _ => ("other", None),
            };
            json!({ "ok": false, "err": kind, "path": path, "msg": format!("{e:?}") })
        }
    }
}

/// {"op":"list_tar","archive":path,"data":bool} -> entries in archive order
fn op_list_tar(case: &Value) -> Value {
    let path = case["archive"].as_str().unwrap();
    let want_data = case["data"].as_bool().unwrap_or(true);
    let file = match std::fs::File::open(path) {
        Ok(f) => f,
        Err(e) => return json!({ "error": format!("open: {e}") }),
    };
    let dec = match zstd::Decoder::new(file) {
        Ok(d) => d,
        Err(e) => return json!({ "error": format!("zstd: {e}") }),
    };
    let mut ar = tar::Archive::new(dec);
    let entries = match ar.entries() {
        Ok(e) => e,
        Err(e) => return json!({ "error": format!("entries: {e}") }),
    };
    let mut out = Vec::new();
    for e in entries {
        let mut e = match e {
            Ok(e) => e,
            Err(err) => return json!({ "error": format!("entry: {err}"), "entries": out }),
        };
        let p = e.path_bytes().to_vec();
        let ty = e.header().entry_type().as_byte();
        let size = e.header().size().unwrap_or(0);
        let mut data = Vec::new();
        if let Err(err) = io::Read::read_to_end(&mut e, &mut data) {
            return json!({ "error": format!("data: {err}"), "entries": out });
        }
        out.push(json!({
            "path": String::from_utf8_lossy(&p),
            "path_hex": hex(&p),
            "type": (ty as char).to_string(),
            "size": size,
            "data": if want_data { Value::String(hex(&data)) } else { Value::Null },
            "len": data.len(),
        }));
    }
    json!({ "entries": out })
}

/// {"op":"components","hex":bytes} -> {"utf8":bool,"components":[[kind,text]..],
///   "starts_with_target":bool}
fn op_components(case: &Value) -> Value {
    let raw = unhex(case["hex"].as_str().unwrap());
    let s = match std::str::from_utf8(&raw) {
        Ok(s) => s,
        Err(_) => return json!({ "utf8": false }),
    };
    let p = Utf8Path::new(s);
    let comps: Vec<Value> = p
        .components()
        .map(|c| match c {
            Utf8Component::Prefix(_) => json!([9, c.as_str()]),
            Utf8Component::RootDir => json!([0, ""]),
            Utf8Component::CurDir => json!([1, ""]),
            Utf8Component::ParentDir => json!([2, ""]),
            Utf8Component::Normal(n) => json!([3, n]),
        })
        .collect();
    json!({ "utf8": true, "components": comps, "starts_with_target": p.starts_with("target") })
}

/// {"op":"include","config":toml,"scratch":dir}
fn op_include(case: &Value) -> Value {
    let scratch = Utf8PathBuf::from(case["scratch"].as_str().unwrap());
    let config = match load_config(case["config"].as_str().unwrap_or(""), &scratch) {
        Ok(c) => c,
        Err(e) => return json!({ "ok": false, "msg": e }),
    };
    let bp = nextest_runner::platform::BuildPlatforms::new_with_no_target().expect("host platform");
    let profile = config
        .profile("default")
        .expect("default profile")
        .apply_build_platforms(&bp);
    let incs: Vec<Value> = profile
        .archive_config()
        .include
        .iter()
        .map(|i| {
            json!({
                "joined": i.join_path(Utf8Path::new("target")).as_str(),
                "depth": depth_code(i.depth()),
                "on_missing": match i.on_missing() {
                    ArchiveIncludeOnMissing::Ignore => "ignore",
                    ArchiveIncludeOnMissing::Warn => "warn",
                    ArchiveIncludeOnMissing::Error => "error",
                },
            })
        })
        .collect();
    json!({ "ok": true, "include": incs })
}

/// {"op":"mapper","summary":..,"orig_ws":..,"ws_remap":dir?,"orig_target":..,"target_remap":dir?}
/// -> per binary (id, mapped binary path, mapped cwd) and the mapped target directory
fn op_mapper(case: &Value) -> Value {
    let summary: BinaryListSummary = match serde_json::from_value(case["summary"].clone()) {
        Ok(s) => s,
        Err(e) => return json!({ "error": format!("summary: {e}") }),
    };
    let binary_list = match BinaryList::from_summary(summary) {
        Ok(b) => Arc::new(b),
        Err(e) => return json!({ "error": format!("from_summary: {e}") }),
    };
    let ws_remap = case["ws_remap"].as_str().map(Utf8PathBuf::from);
    let target_remap = case["target_remap"].as_str().map(Utf8PathBuf::from);
    let mapper = match PathMapper::new(
        case["orig_ws"].as_str().unwrap(),
        ws_remap.as_deref(),
        case["orig_target"].as_str().unwrap(),
        target_remap.as_deref(),
        LibdirMapper::default(),
    ) {
        Ok(m) => m,
        Err(e) => return json!({ "error": format!("mapper: {e}") }),
    };
    let meta = binary_list.rust_build_meta.map_paths(&mapper);
    let arts = match RustTestArtifact::from_binary_list(graph(), binary_list.clone(), &meta, &mapper, None)
    {
        Ok(a) => a,
        Err(e) => return json!({ "error": format!("artifacts: {e}") }),
    };
    let out: Vec<Value> = arts
        .iter()
        .map(|a| json!([a.binary_id.as_str(), a.binary_path.as_str(), a.cwd.as_str()]))
        .collect();
    json!({ "target_directory": meta.target_directory.as_str(), "artifacts": out })
}
