//! Implementation-side evaluator for the `overrides` correspondence check (props/C06.py).
//!
//! A case carries TOML text for the repository config and 0..n tool configs, a profile name, a
//! host/target platform choice and a list of test queries over the fixture package graph. The
//! files are written into a fresh temp dir and loaded exactly the way cargo-nextest does
//! (`NextestConfig::from_sources(root, pcx, None, &tool_config_files, &experimental)`, then
//! `.profile(name)`, `.apply_build_platforms(..)`, `.settings_for(query)`), public API only.
//! For every query all per-test settings come back as plain data. The case also names a menu
//! of filterset strings and platform specs; their truth values (real `Filterset::matches_test`
//! with the profile's own eval context, real `TargetSpec::eval`) are returned so that the model can
//! take them as oracle tables.
use crate::common::*;
use camino::Utf8PathBuf;
use nextest_filtering::{BinaryQuery, Filterset, FiltersetKind, ParseContext, TestQuery};
use nextest_runner::{
    cargo_config::{TargetDefinitionLocation, TargetTriple, TargetTripleSource},
    config::{NextestConfig, RetryPolicy, TestGroup, ThreadsRequired, ToolConfigFile},
    platform::{BuildPlatforms, HostPlatform, PlatformLibdir, TargetPlatform},
    reporter::TestOutputDisplay,
};
use serde_json::{json, Value};
use std::{
    collections::BTreeSet,
    sync::atomic::{AtomicU64, Ordering},
};
use target_spec::{Platform, TargetFeatures, TargetSpec};

static COUNTER: AtomicU64 = AtomicU64::new(0);

struct TempDir(Utf8PathBuf);
impl Drop for TempDir {
    fn drop(&mut self) {
        let _ = std::fs::remove_dir_all(&self.0);
    }
}

fn platform(triple: &str) -> Platform {
    Platform::new(triple.to_owned(), TargetFeatures::Unknown).expect("known triple")
}

fn libdir() -> PlatformLibdir {
    PlatformLibdir::Available(Utf8PathBuf::from("/fake/libdir"))
}

fn build_platforms(host: &str, target: Option<&str>) -> BuildPlatforms {
    BuildPlatforms {
        host: HostPlatform {
            platform: platform(host),
            libdir: libdir(),
        },
        target: target.map(|t| TargetPlatform {
            triple: TargetTriple {
                platform: platform(t),
                source: TargetTripleSource::CliOption,
                location: TargetDefinitionLocation::Builtin,
            },
            libdir: libdir(),
        }),
    }
}

/// nanoseconds of a `Duration`'s `Debug` rendering (`60s`, `1.5s`, `100ms`, `3µs`, `7ns`).
/// Only used for `SlowTimeout`, whose fields have no public accessor.
fn debug_duration_ns(s: &str) -> Option<u128> {
    let s = s.trim();
    let (num, mult): (&str, u128) = if let Some(x) = s.strip_suffix("ms") {
        (x, 1_000_000)
    } else if let Some(x) = s.strip_suffix("µs") {
        (x, 1_000)
    } else if let Some(x) = s.strip_suffix("ns") {
        (x, 1)
    } else if let Some(x) = s.strip_suffix('s') {
        (x, 1_000_000_000)
    } else {
        return None;
    };
    let (int, frac) = match num.split_once('.') {
        Some((i, f)) => (i, f),
        None => (num, ""),
    };
    let mut v: u128 = int.parse::<u128>().ok()?.checked_mul(mult)?;
    let mut scale = mult;
    for ch in frac.chars() {
        let d = ch.to_digit(10)? as u128;
        if scale % 10 != 0 {
            return None;
        }
        scale /= 10;
        v += d * scale;
    }
    Some(v)
}

/// `SlowTimeout { period: 60s, terminate_after: Some(2), grace_period: 10s }` -> plain data
fn slow_timeout_json(dbg: &str) -> Value {
    let field = |name: &str| -> Option<String> {
        let start = dbg.find(&format!("{name}: "))? + name.len() + 2;
        let rest = &dbg[start..];
        let mut depth = 0i32;
        let mut end = rest.len();
        for (i, ch) in rest.char_indices() {
            match ch {
                '(' | '{' => depth += 1,
                ')' | '}' if depth > 0 => depth -= 1,
                ',' | '}' if depth == 0 => {
                    end = i;
                    break;
                }
                _ => {}
            }
        }
        Some(rest[..end].trim().to_owned())
    };
    let period = field("period").and_then(|s| debug_duration_ns(&s));
    let grace = field("grace_period").and_then(|s| debug_duration_ns(&s));
    let term = field("terminate_after").and_then(|s| {
        if s == "None" {
            Some(Value::Null)
        } else {
            s.strip_prefix("Some(")
                .and_then(|x| x.strip_suffix(')'))
                .and_then(|x| x.parse::<u64>().ok())
                .map(|n| json!(n))
        }
    });
    match (period, grace, term) {
        (Some(p), Some(g), Some(t)) => {
            json!({ "period_ns": p.to_string(), "terminate_after": t, "grace_ns": g.to_string() })
        }
        _ => json!({ "unparsed": dbg }),
    }
}

fn retry_json(p: RetryPolicy) -> Value {
    match p {
        RetryPolicy::Fixed {
            count,
            delay,
            jitter,
        } => json!({ "backoff": "fixed", "count": count, "delay_ns": delay.as_nanos().to_string(),
                     "jitter": jitter, "max_delay_ns": Value::Null }),
        RetryPolicy::Exponential {
            count,
            delay,
            jitter,
            max_delay,
        } => json!({ "backoff": "exponential", "count": count,
                     "delay_ns": delay.as_nanos().to_string(), "jitter": jitter,
                     "max_delay_ns": max_delay.map(|d| d.as_nanos().to_string()) }),
    }
}

fn display_json(d: TestOutputDisplay) -> &'static str {
    match d {
        TestOutputDisplay::Immediate => "immediate",
        TestOutputDisplay::ImmediateFinal => "immediate-final",
        TestOutputDisplay::Final => "final",
        TestOutputDisplay::Never => "never",
    }
}

fn spec_eval(spec: &str, p: &Platform) -> Value {
    match TargetSpec::new(spec.to_owned()) {
        // "unknown results are mapped to true" (MaybeTargetSpec::eval)
        Ok(s) => json!(s.eval(p).unwrap_or(true)),
        Err(e) => json!({ "spec_error": e.to_string() }),
    }
}

pub fn run(case: &Value) -> Value {
    let n = COUNTER.fetch_add(1, Ordering::SeqCst);
    let root = Utf8PathBuf::from(format!(
        "{}/verif-overrides-{}-{}",
        std::env::temp_dir().display(),
        std::process::id(),
        n
    ));
    let _guard = TempDir(root.clone());
    std::fs::create_dir_all(root.join(".config")).expect("temp dir");
    if let Some(text) = case["repo"].as_str() {
        std::fs::write(root.join(".config/nextest.toml"), text).expect("write repo config");
    }
    let mut tool_files = Vec::new();
    for (i, t) in case["tools"].as_array().into_iter().flatten().enumerate() {
        let path = root.join(format!(".config/tool{i}.toml"));
        std::fs::write(&path, t["toml"].as_str().expect("tool toml")).expect("write tool config");
        tool_files.push(ToolConfigFile {
            tool: t["name"].as_str().expect("tool name").to_owned(),
            config_file: path,
        });
    }

    let graph = graph();
    let pcx = ParseContext::new(graph);
    // cargo-nextest passes the experimental features of the version-only config; none are set here
    let experimental = BTreeSet::new();
    let config = match NextestConfig::from_sources(&root, &pcx, None, &tool_files, &experimental) {
        Ok(c) => c,
        Err(e) => {
            use std::error::Error;
            let mut msg = e.to_string();
            let mut src = e.source();
            while let Some(s) = src {
                msg.push_str(" :: ");
                msg.push_str(&s.to_string());
                src = s.source();
            }
            let kind: String = format!("{:?}", e.kind()).chars().take(1500).collect();
            return json!({ "error": "config", "message": msg.replace(root.as_str(), "<root>"),
                           "kind": kind.replace(root.as_str(), "<root>") });
        }
    };
    let host = case["host"].as_str().expect("host");
    let target = case["target"].as_str();
    let bp = build_platforms(host, target);
    let early = match config.profile(case["profile"].as_str().expect("profile")) {
        Ok(p) => p,
        Err(_) => return json!({ "error": "profile-not-found" }),
    };
    let profile = early.apply_build_platforms(&bp);
    let ecx = profile.filterset_ecx();

    let filters: Vec<(String, Result<Filterset, String>)> = strs(&case["filters"])
        .into_iter()
        .map(|f| {
            let parsed = Filterset::parse(f.clone(), &pcx, FiltersetKind::Test)
                .map_err(|e| format!("{e:?}"));
            (f, parsed)
        })
        .collect();

    let mut settings_out = Vec::new();
    let mut filter_rows: Vec<Vec<Value>> = filters.iter().map(|_| Vec::new()).collect();
    for q in case["queries"].as_array().into_iter().flatten() {
        let package_id = package_id(q["pkg"].as_str().unwrap());
        let binary_id = nextest_metadata::RustBinaryId::new(q["binary_id"].as_str().unwrap());
        let kind = kind_of(q["kind"].as_str().unwrap());
        let query = TestQuery {
            binary_query: BinaryQuery {
                package_id: &package_id,
                binary_id: &binary_id,
                binary_name: q["binary_name"].as_str().unwrap(),
                kind: &kind,
                platform: match q["platform"].as_str().unwrap() {
                    "host" => guppy::graph::cargo::BuildPlatform::Host,
                    _ => guppy::graph::cargo::BuildPlatform::Target,
                },
            },
            test_name: q["test"].as_str().unwrap(),
        };
        let s = profile.settings_for(&query);
        settings_out.push(json!({
            "priority": s.priority().to_i8(),
            "threads_required": match s.threads_required() {
                ThreadsRequired::Count(n) => json!(n),
                ThreadsRequired::NumCpus => json!("num-cpus"),
                ThreadsRequired::NumTestThreads => json!("num-test-threads"),
            },
            "run_extra_args": s.run_extra_args(),
            "retries": retry_json(s.retries()),
            "slow_timeout": slow_timeout_json(&format!("{:?}", s.slow_timeout())),
            "leak_timeout_ns": s.leak_timeout().as_nanos().to_string(),
            "test_group": match s.test_group() {
                TestGroup::Global => "@global".to_owned(),
                TestGroup::Custom(g) => g.to_string(),
            },
            "success_output": display_json(s.success_output()),
            "failure_output": display_json(s.failure_output()),
            "junit_store_success_output": s.junit_store_success_output(),
            "junit_store_failure_output": s.junit_store_failure_output(),
        }));
        for ((_, parsed), row) in filters.iter().zip(filter_rows.iter_mut()) {
            row.push(match parsed {
                Ok(f) => json!(f.matches_test(&query, &ecx)),
                Err(e) => json!({ "filter_error": e }),
            });
        }
    }

    let host_p = platform(host);
    let target_p = target.map(platform);
    let specs: Vec<Value> = strs(&case["specs"])
        .iter()
        .map(|s| {
            json!([
                spec_eval(s, &host_p),
                target_p.as_ref().map(|t| spec_eval(s, t)).unwrap_or(Value::Null)
            ])
        })
        .collect();

    json!({ "settings": settings_out, "filters": filter_rows, "specs": specs })
}
