//! Implementation-side evaluator for the `scripts` correspondence checks (props/C18.py).
//!
//! ops:
//! * `scripts`   — parse a caller-supplied nextest.toml (experimental setup-scripts enabled) over
//!   the fixture package graph, pick a profile, apply caller-chosen build platforms and run the
//!   real `SetupScripts::new_with_queries` / `SetupScript::is_enabled` /
//!   `SetupScriptExecuteData::apply` through hook H6 (`config::verif_scripts`).
//! * `parse_env` — the real `parse_env_file` on caller-supplied bytes (hook H6,
//!   `runner::verif_script_helpers`).
//! * `final_stats` — the public `RunStats::summarize_final` on caller-supplied setup-script
//!   counters (everything else zero).
use crate::common::*;
use camino::Utf8PathBuf;
use nextest_filtering::{BinaryQuery, ParseContext, TestQuery};
use nextest_metadata::RustBinaryId;
use nextest_runner::{
    cargo_config::{TargetDefinitionLocation, TargetTriple, TargetTripleSource},
    config::{verif_scripts, ConfigExperimental, NextestConfig, ToolConfigFile},
    platform::{BuildPlatforms, HostPlatform, PlatformLibdir, TargetPlatform},
    reporter::events::{FinalRunStats, RunStats, RunStatsFailureKind},
    runner::verif_script_helpers,
};
use serde_json::{json, Value};
use std::collections::{BTreeMap, BTreeSet};
use target_spec::{Platform, TargetFeatures};

fn platform(triple: &str) -> Platform {
    Platform::new(triple.to_owned(), TargetFeatures::Unknown).expect("known triple")
}

fn build_platforms(host: &str, target: Option<&str>) -> BuildPlatforms {
    BuildPlatforms {
        host: HostPlatform {
            platform: platform(host),
            libdir: PlatformLibdir::Available(Utf8PathBuf::from("/fake/host/libdir")),
        },
        target: target.map(|t| TargetPlatform {
            triple: TargetTriple {
                platform: platform(t),
                source: TargetTripleSource::Env,
                location: TargetDefinitionLocation::Builtin,
            },
            libdir: PlatformLibdir::Available(Utf8PathBuf::from("/fake/target/libdir")),
        }),
    }
}

fn unique_path(tag: &str) -> Utf8PathBuf {
    use std::sync::atomic::{AtomicU64, Ordering};
    static N: AtomicU64 = AtomicU64::new(0);
    let dir = std::env::temp_dir();
    let p = dir.join(format!(
        "verif-scripts-{}-{}-{}.toml",
        std::process::id(),
        tag,
        N.fetch_add(1, Ordering::Relaxed)
    ));
    Utf8PathBuf::try_from(p).expect("utf-8 temp dir")
}

fn scripts(case: &Value) -> Value {
    let graph = graph();
    let pcx = ParseContext::new(graph);
    let path = unique_path("repo");
    std::fs::write(&path, case["toml"].as_str().unwrap()).expect("write config");
    let tool_path = case["tool_toml"].as_str().map(|t| {
        let p = unique_path("tool");
        std::fs::write(&p, t).expect("write tool config");
        p
    });
    let tool_files: Vec<ToolConfigFile> = tool_path
        .iter()
        .map(|p| ToolConfigFile {
            tool: "my-tool".to_owned(),
            config_file: p.clone(),
        })
        .collect();
    let experimental: BTreeSet<_> = [ConfigExperimental::SetupScripts].into_iter().collect();
    let config = NextestConfig::from_sources(
        graph.workspace().root(),
        &pcx,
        Some(&path),
        &tool_files,
        &experimental,
    );
    let _ = std::fs::remove_file(&path);
    if let Some(p) = &tool_path {
        let _ = std::fs::remove_file(p);
    }
    let config = match config {
        Ok(c) => c,
        Err(e) => {
            let mut msg = e.to_string();
            let mut src = std::error::Error::source(&e);
            while let Some(s) = src {
                msg.push_str(": ");
                msg.push_str(&s.to_string());
                src = s.source();
            }
            msg.push_str(&format!(" [{:?}]", e.kind()));
            return json!({ "config_error": msg });
        }
    };
    let profile = match config.profile(case["profile"].as_str().unwrap_or("default")) {
        Ok(p) => p,
        Err(e) => return json!({ "config_error": e.to_string() }),
    };
    let bp = build_platforms(
        case["host"].as_str().unwrap_or("x86_64-unknown-linux-gnu"),
        case["target"].as_str(),
    );
    let profile = profile.apply_build_platforms(&bp);

    // queries: owned parts first, then borrowed views
    struct Owned {
        pkg: guppy::PackageId,
        binary_id: RustBinaryId,
        kind: nextest_metadata::RustTestBinaryKind,
        binary_name: String,
        platform: guppy::graph::cargo::BuildPlatform,
        test: String,
    }
    let owned: Vec<Owned> = case["queries"]
        .as_array()
        .unwrap()
        .iter()
        .map(|q| Owned {
            pkg: package_id(q["pkg"].as_str().unwrap()),
            binary_id: RustBinaryId::new(q["binary_id"].as_str().unwrap()),
            kind: kind_of(q["kind"].as_str().unwrap()),
            binary_name: q["binary_name"].as_str().unwrap().to_owned(),
            platform: match q["platform"].as_str().unwrap() {
                "host" => guppy::graph::cargo::BuildPlatform::Host,
                _ => guppy::graph::cargo::BuildPlatform::Target,
            },
            test: q["test"].as_str().unwrap().to_owned(),
        })
        .collect();
    let queries: Vec<TestQuery<'_>> = owned
        .iter()
        .map(|o| TestQuery {
            binary_query: BinaryQuery {
                package_id: &o.pkg,
                binary_id: &o.binary_id,
                kind: &o.kind,
                binary_name: &o.binary_name,
                platform: o.platform,
            },
            test_name: &o.test,
        })
        .collect();
    let selected: Vec<usize> = case["selected"]
        .as_array()
        .unwrap()
        .iter()
        .map(|x| x.as_u64().unwrap() as usize)
        .collect();
    let mut env_maps: BTreeMap<String, BTreeMap<String, String>> = BTreeMap::new();
    if let Some(m) = case["env_maps"].as_object() {
        for (sid, kv) in m {
            let mut inner = BTreeMap::new();
            for (k, v) in kv.as_object().unwrap() {
                inner.insert(k.clone(), v.as_str().unwrap().to_owned());
            }
            env_maps.insert(sid.clone(), inner);
        }
    }

    let view = verif_scripts::evaluate(&profile, &queries, &selected, &env_maps);
    json!({
        "defined": view.defined,
        "rules": view.rules.iter().map(|r| json!({
            "setup": r.setup,
            "host_eval": r.host_eval,
            "host_test_eval": r.host_test_eval,
            "target_eval": r.target_eval,
            "has_filter": r.has_filter,
            "filter_matches": r.filter_matches,
            "is_enabled": r.is_enabled,
        })).collect::<Vec<_>>(),
        "enabled": view.enabled,
        "enabled_for": view.enabled_for,
        "applied": view.applied.iter().map(|e| {
            e.iter().map(|(k, v)| json!([k, v])).collect::<Vec<_>>()
        }).collect::<Vec<_>>(),
    })
}

fn parse_env(case: &Value) -> Value {
    let bytes: Vec<u8> = case["bytes"]
        .as_array()
        .unwrap()
        .iter()
        .map(|b| b.as_u64().unwrap() as u8)
        .collect();
    match verif_script_helpers::parse_env_bytes(&bytes) {
        Ok(map) => json!({
            "ok": map.iter().map(|(k, v)| json!([k, v])).collect::<Vec<_>>()
        }),
        Err(kind) => json!({ "err": kind }),
    }
}

fn final_stats(case: &Value) -> Value {
    let n = |k: &str| case[k].as_u64().unwrap_or(0) as usize;
    let stats = RunStats {
        setup_scripts_initial_count: n("initial"),
        setup_scripts_finished_count: n("finished"),
        setup_scripts_passed: n("passed"),
        setup_scripts_failed: n("failed"),
        setup_scripts_exec_failed: n("exec_failed"),
        setup_scripts_timed_out: n("timed_out"),
        initial_run_count: n("tests_initial"),
        finished_count: n("tests_finished"),
        passed: n("tests_finished"),
        ..RunStats::default()
    };
    // 1 = Failed(SetupScript), 2 = Cancelled(SetupScript), 0 = decided by the tests
    match stats.summarize_final() {
        FinalRunStats::Failed(RunStatsFailureKind::SetupScript) => json!(1),
        FinalRunStats::Cancelled(RunStatsFailureKind::SetupScript) => json!(2),
        _ => json!(0),
    }
}

pub fn run(case: &Value) -> Value {
    match case["op"].as_str().unwrap_or("") {
        "scripts" => scripts(case),
        "parse_env" => parse_env(case),
        "final_stats" => final_stats(case),
        "exit_code" => json!(nextest_metadata::NextestExitCode::SETUP_SCRIPT_FAILED),
        other => json!({ "error": format!("unknown op {other}") }),
    }
}
