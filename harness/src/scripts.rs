//! Implementation-side evaluator for the `scripts` correspondence checks (props/C18.py).
//!
//! ops:
//! * `scripts`   — parse a caller-supplied nextest.toml (experimental setup-scripts enabled) over
//!   the fixture package graph, pick a profile, apply caller-chosen build platforms and run the
//!   real `SetupScripts::new_with_queries` / `SetupScript::is_enabled` /
//!   `SetupScriptExecuteData::apply` through hook H6 (`config::verif_scripts`).
//! * `parse_env` — the real `parse_env_file` on caller-supplied bytes (hook H6,
//!   `runner::verif_script_helpers`).
//! * `final_stats` — the public `RunStats::summarize_final` on caller-supplied setup-script
//!   counters (everything else zero).
//! * `run` — a real run of the real runner (public API only: `TestList::new`,
//!   `TestRunnerBuilder::build`, `TestRunner::execute`) over scripted setup scripts and scripted
//!   test binaries (shell scripts) that log what they see: event order, invocation log, the
//!   environment received by every test process, final statistics.
use crate::common::*;
use camino::Utf8PathBuf;
use nextest_filtering::{BinaryQuery, ParseContext, TestQuery};
use nextest_metadata::RustBinaryId;
use nextest_runner::{
    cargo_config::{TargetDefinitionLocation, TargetTriple, TargetTripleSource},
    config::{verif_scripts, ConfigExperimental, NextestConfig, ToolConfigFile},
    platform::{BuildPlatforms, HostPlatform, PlatformLibdir, TargetPlatform},
    reporter::events::{FinalRunStats, RunStats, RunStatsFailureKind},
    runner::verif_script_helpers,
};
use serde_json::{json, Value};
use std::collections::{BTreeMap, BTreeSet};
use target_spec::{Platform, TargetFeatures};

fn platform(triple: &str) -> Platform {
    Platform::new(triple.to_owned(), TargetFeatures::Unknown).expect("known triple")
}

fn build_platforms(host: &str, target: Option<&str>) -> BuildPlatforms {
    BuildPlatforms {
        host: HostPlatform {
            platform: platform(host),
            libdir: PlatformLibdir::Available(Utf8PathBuf::from("/fake/host/libdir")),
        },
        target: target.map(|t| TargetPlatform {
            triple: TargetTriple {
                platform: platform(t),
                source: TargetTripleSource::Env,
                location: TargetDefinitionLocation::Builtin,
            },
            libdir: PlatformLibdir::Available(Utf8PathBuf::from("/fake/target/libdir")),
        }),
    }
}

fn unique_path(tag: &str) -> Utf8PathBuf {
    use std::sync::atomic::{AtomicU64, Ordering};
    static N: AtomicU64 = AtomicU64::new(0);
    let dir = std::env::temp_dir();
    let p = dir.join(format!(
        "verif-scripts-{}-{}-{}.toml",
        std::process::id(),
        tag,
        N.fetch_add(1, Ordering::Relaxed)
    ));
    Utf8PathBuf::try_from(p).expect("utf-8 temp dir")
}

fn scripts(case: &Value) -> Value {
    let graph = graph();
    let pcx = ParseContext::new(graph);
    let path = unique_path("repo");
    std::fs::write(&path, case["toml"].as_str().unwrap()).expect("write config");
    let tool_path = case["tool_toml"].as_str().map(|t| {
        let p = unique_path("tool");
        std::fs::write(&p, t).expect("write tool config");
        p
    });
    let tool_files: Vec<ToolConfigFile> = tool_path
        .iter()
        .map(|p| ToolConfigFile {
            tool: "my-tool".to_owned(),
            config_file: p.clone(),
        })
        .collect();
    let experimental: BTreeSet<_> = [ConfigExperimental::SetupScripts].into_iter().collect();
    let config = NextestConfig::from_sources(
        graph.workspace().root(),
        &pcx,
        Some(&path),
        &tool_files,
        &experimental,
    );
    let _ = std::fs::remove_file(&path);
    if let Some(p) = &tool_path {
        let _ = std::fs::remove_file(p);
    }
    let config = match config {
        Ok(c) => c,
        Err(e) => {
            let mut msg = e.to_string();
            let mut src = std::error::Error::source(&e);
            while let Some(s) = src {
                msg.push_str(": ");
                msg.push_str(&s.to_string());
                src = s.source();
            }
            msg.push_str(&format!(" [{:?}]", e.kind()));
            return json!({ "config_error": msg });
        }
    };
    let profile = match config.profile(case["profile"].as_str().unwrap_or("default")) {
        Ok(p) => p,
        Err(e) => return json!({ "config_error": e.to_string() }),
    };
    let bp = build_platforms(
        case["host"].as_str().unwrap_or("x86_64-unknown-linux-gnu"),
        case["target"].as_str(),
    );
    let profile = profile.apply_build_platforms(&bp);

    // queries: owned parts first, then borrowed views
    struct Owned {
        pkg: guppy::PackageId,
        binary_id: RustBinaryId,
        kind: nextest_metadata::RustTestBinaryKind,
        binary_name: String,
        platform: guppy::graph::cargo::BuildPlatform,
        test: String,
    }
    let owned: Vec<Owned> = case["queries"]
        .as_array()
        .unwrap()
        .iter()
        .map(|q| Owned {
            pkg: package_id(q["pkg"].as_str().unwrap()),
            binary_id: RustBinaryId::new(q["binary_id"].as_str().unwrap()),
            kind: kind_of(q["kind"].as_str().unwrap()),
            binary_name: q["binary_name"].as_str().unwrap().to_owned(),
            platform: match q["platform"].as_str().unwrap() {
                "host" => guppy::graph::cargo::BuildPlatform::Host,
                _ => guppy::graph::cargo::BuildPlatform::Target,
            },
            test: q["test"].as_str().unwrap().to_owned(),
        })
        .collect();
    let queries: Vec<TestQuery<'_>> = owned
        .iter()
        .map(|o| TestQuery {
            binary_query: BinaryQuery {
                package_id: &o.pkg,
                binary_id: &o.binary_id,
                kind: &o.kind,
                binary_name: &o.binary_name,
                platform: o.platform,
            },
            test_name: &o.test,
        })
        .collect();
    let selected: Vec<usize> = case["selected"]
        .as_array()
        .unwrap()
        .iter()
        .map(|x| x.as_u64().unwrap() as usize)
        .collect();
    let mut env_maps: BTreeMap<String, BTreeMap<String, String>> = BTreeMap::new();
    if let Some(m) = case["env_maps"].as_object() {
        for (sid, kv) in m {
            let mut inner = BTreeMap::new();
            for (k, v) in kv.as_object().unwrap() {
                inner.insert(k.clone(), v.as_str().unwrap().to_owned());
            }
            env_maps.insert(sid.clone(), inner);
        }
    }

    let view = verif_scripts::evaluate(&profile, &queries, &selected, &env_maps);
    json!({
        "defined": view.defined,
        "rules": view.rules.iter().map(|r| json!({
            "setup": r.setup,
            "host_eval": r.host_eval,
            "host_test_eval": r.host_test_eval,
            "target_eval": r.target_eval,
            "has_filter": r.has_filter,
            "filter_matches": r.filter_matches,
            "is_enabled": r.is_enabled,
        })).collect::<Vec<_>>(),
        "enabled": view.enabled,
        "enabled_for": view.enabled_for,
        "applied": view.applied.iter().map(|e| {
            e.iter().map(|(k, v)| json!([k, v])).collect::<Vec<_>>()
        }).collect::<Vec<_>>(),
    })
}

fn parse_env(case: &Value) -> Value {
    let bytes: Vec<u8> = case["bytes"]
        .as_array()
        .unwrap()
        .iter()
        .map(|b| b.as_u64().unwrap() as u8)
        .collect();
    match verif_script_helpers::parse_env_bytes(&bytes) {
        Ok(map) => json!({
            "ok": map.iter().map(|(k, v)| json!([k, v])).collect::<Vec<_>>()
        }),
        Err(kind) => json!({ "err": kind }),
    }
}

fn final_stats(case: &Value) -> Value {
    let n = |k: &str| case[k].as_u64().unwrap_or(0) as usize;
    let stats = RunStats {
        setup_scripts_initial_count: n("initial"),
        setup_scripts_finished_count: n("finished"),
        setup_scripts_passed: n("passed"),
        setup_scripts_failed: n("failed"),
        setup_scripts_exec_failed: n("exec_failed"),
        setup_scripts_timed_out: n("timed_out"),
        initial_run_count: n("tests_initial"),
        finished_count: n("tests_finished"),
        passed: n("tests_finished"),
        ..RunStats::default()
    };
    // 1 = Failed(SetupScript), 2 = Cancelled(SetupScript), 0 = decided by the tests
    match stats.summarize_final() {
        FinalRunStats::Failed(RunStatsFailureKind::SetupScript) => json!(1),
        FinalRunStats::Cancelled(RunStatsFailureKind::SetupScript) => json!(2),
        _ => json!(0),
    }
}

/// A real run. The case holds `toml` (with `@DIR@` standing for the scratch directory),
/// `profile`, `scripts` (`name`, `exit`, `env_bytes`, `sleep_ms`, `hang`, `leak`), `binaries` (`pkg`,
/// `binary_id`, `tests`), `test_threads`.
fn real_run(case: &Value) -> Value {
    let dir = unique_path("run").with_extension("d");
    std::fs::create_dir_all(&dir).expect("scratch dir");
    let out = real_run_in(case, &dir);
    let _ = std::fs::remove_dir_all(&dir);
    out
}

fn real_run_in(case: &Value, dir: &Utf8PathBuf) -> Value {
    use nextest_filtering::{CompiledExpr, EvalContext};
    use nextest_runner::{
        cargo_config::{CargoConfigs, EnvironmentMap},
        double_spawn::DoubleSpawnInfo,
        input::InputHandlerKind,
        list::{RustBuildMeta, RustTestArtifact, TestExecuteContext, TestList},
        reporter::events::TestEventKind,
        runner::TestRunnerBuilder,
        signal::SignalHandlerKind,
        target_runner::TargetRunner,
        test_filter::{FilterBound, RunIgnored, TestFilterBuilder},
    };
    use std::os::unix::fs::PermissionsExt;

    let dir = dir.clone();
    let log = dir.join("log");
    std::fs::write(&log, "").unwrap();

    // setup scripts
    for sc in case["scripts"].as_array().unwrap() {
        let name = sc["name"].as_str().unwrap();
        let bytes: Vec<u8> = sc["env_bytes"]
            .as_array()
            .map(|a| a.iter().map(|b| b.as_u64().unwrap() as u8).collect())
            .unwrap_or_default();
        std::fs::write(dir.join(format!("envsrc-{name}")), bytes).unwrap();
        let mut body = format!(
            "printf 'S {name} start\\n' >> '{log}'\ncat '{dir}/envsrc-{name}' >> \"$NEXTEST_ENV\"\n"
        );
        if sc["leak"].as_bool().unwrap_or(false) {
            // a background child that keeps the (captured) stdout open after the script exits
            body.push_str("sleep 1 2>/dev/null &\n");
        }
        if let Some(ms) = sc["sleep_ms"].as_u64() {
            body.push_str(&format!("sleep {}.{:03}\n", ms / 1000, ms % 1000));
        }
        if sc["hang"].as_bool().unwrap_or(false) {
            body.push_str("exec sleep 20\n");
        }
        body.push_str(&format!(
            "printf 'S {name} end\\n' >> '{log}'\nexit {}\n",
            sc["exit"].as_u64().unwrap_or(0)
        ));
        std::fs::write(dir.join(format!("script-{name}.sh")), body).unwrap();
    }

    // scripted test binaries
    let graph = graph();
    let mut artifacts = Vec::new();
    for b in case["binaries"].as_array().unwrap() {
        let id = b["binary_id"].as_str().unwrap();
        let listing: String = strs(&b["tests"])
            .iter()
            .map(|t| format!("{t}: test\n"))
            .collect();
        std::fs::write(dir.join(format!("listing-{id}")), listing).unwrap();
        let body = format!(
            "#!/bin/sh\nif [ \"$1\" = \"--list\" ]; then\n  case \"$*\" in *--ignored*) exit 0;; esac\n  \
             cat '{dir}/listing-{id}'\n  exit 0\nfi\nprintf 'T {id} %s\\n' \"$2\" >> '{log}'\n\
             env > \"{dir}/testenv-{id}-$2\"\nexit 0\n"
        );
        let path = dir.join(format!("bin-{id}"));
        std::fs::write(&path, body).unwrap();
        std::fs::set_permissions(&path, std::fs::Permissions::from_mode(0o755)).unwrap();
        let package = graph
            .metadata(&package_id(b["pkg"].as_str().unwrap()))
            .expect("package in fixture graph");
        artifacts.push(RustTestArtifact {
            binary_id: RustBinaryId::new(id),
            package,
            binary_path: path,
            binary_name: id.to_owned(),
            kind: kind_of("lib"),
            non_test_binaries: BTreeSet::new(),
            cwd: dir.clone(),
            build_platform: platform_of("target"),
        });
    }

    // configuration
    let pcx = ParseContext::new(graph);
    let config_path = dir.join("nextest.toml");
    std::fs::write(
        &config_path,
        case["toml"].as_str().unwrap().replace("@DIR@", dir.as_str()),
    )
    .unwrap();
    let experimental: BTreeSet<_> = [ConfigExperimental::SetupScripts].into_iter().collect();
    let no_tools: Vec<ToolConfigFile> = Vec::new();
    let config = match NextestConfig::from_sources(
        graph.workspace().root(),
        &pcx,
        Some(&config_path),
        &no_tools,
        &experimental,
    ) {
        Ok(c) => c,
        Err(e) => return json!({ "config_error": format!("{e} [{:?}]", e.kind()) }),
    };
    let profile_name = case["profile"].as_str().unwrap_or("default");
    let bp = build_platforms("x86_64-unknown-linux-gnu", None);
    let profile = config
        .profile(profile_name)
        .expect("profile")
        .apply_build_platforms(&bp);

    // test list
    let double_spawn = DoubleSpawnInfo::disabled();
    let target_runner = TargetRunner::empty();
    let ctx = TestExecuteContext {
        profile_name,
        double_spawn: &double_spawn,
        target_runner: &target_runner,
    };
    let ecx = EvalContext {
        default_filter: &CompiledExpr::ALL,
    };
    let configs =
        CargoConfigs::new_with_isolation(Vec::<String>::new(), &dir, &dir, Vec::new()).unwrap();
    let env = EnvironmentMap::new(&configs);
    let filter = TestFilterBuilder::default_set(RunIgnored::Default);
    let test_list = match TestList::new(
        &ctx,
        artifacts,
        RustBuildMeta::new(dir.join("target"), bp.clone())
            .map_paths(&nextest_runner::reuse_build::PathMapper::noop()),
        &filter,
        dir.clone(),
        env,
        &ecx,
        FilterBound::All,
        2,
    ) {
        Ok(l) => l,
        Err(e) => return json!({ "error": format!("test list: {e}") }),
    };

    let mut builder = TestRunnerBuilder::default();
    if let Some(n) = case["test_threads"].as_u64() {
        builder.set_test_threads(nextest_runner::config::TestThreads::Count(n as usize));
    }
    // "max_fail": 0 = --no-fail-fast (MaxFail::All), n > 0 = --max-fail n; absent = the profile's
    if let Some(n) = case["max_fail"].as_u64() {
        builder.set_max_fail(if n == 0 {
            nextest_runner::config::MaxFail::All
        } else {
            nextest_runner::config::MaxFail::Count(n as usize)
        });
    }
    let runner = builder
        .build(
            &test_list,
            &profile,
            vec![],
            SignalHandlerKind::Noop,
            InputHandlerKind::Noop,
            double_spawn.clone(),
            TargetRunner::empty(),
        )
        .expect("runner");

    let mut events: Vec<Value> = Vec::new();
    let mut final_stats: Option<RunStats> = None;
    let res = runner.execute(|event| match event.kind {
        TestEventKind::SetupScriptStarted { script_id, .. } => {
            events.push(json!(["script-started", script_id.to_string()]));
        }
        TestEventKind::SetupScriptFinished {
            script_id,
            run_status,
            ..
        } => {
            use nextest_runner::reporter::events::ExecutionResult as R;
            let code = match run_status.result {
                R::Pass => 0,
                R::Leak => 1,
                R::Fail { .. } => 2,
                R::ExecFail => 3,
                R::Timeout => 4,
            };
            events.push(json!([
                "script-finished",
                script_id.to_string(),
                code,
                run_status.env_map.is_some()
            ]));
        }
        TestEventKind::TestStarted { test_instance, .. } => {
            events.push(json!([
                "test-started",
                test_instance.suite_info.binary_id.as_str(),
                test_instance.name
            ]));
        }
        TestEventKind::TestFinished { test_instance, .. } => {
            events.push(json!([
                "test-finished",
                test_instance.suite_info.binary_id.as_str(),
                test_instance.name
            ]));
        }
        TestEventKind::RunBeginCancel { reason, .. } => {
            events.push(json!(["begin-cancel", format!("{reason:?}")]));
        }
        TestEventKind::RunFinished { run_stats, .. } => {
            final_stats = Some(run_stats);
        }
        _ => {}
    });
    if let Err(e) = res {
        return json!({ "error": format!("execute: {e:?}") });
    }

    let log_lines: Vec<String> = std::fs::read_to_string(&log)
        .unwrap_or_default()
        .lines()
        .map(|l| l.to_owned())
        .collect();
    let mut test_envs = serde_json::Map::new();
    for b in case["binaries"].as_array().unwrap() {
        let id = b["binary_id"].as_str().unwrap();
        for t in strs(&b["tests"]) {
            if let Ok(bytes) = std::fs::read(dir.join(format!("testenv-{id}-{t}"))) {
                let text = String::from_utf8_lossy(&bytes).into_owned();
                let vars: Vec<Value> = text
                    .lines()
                    .filter_map(|l| l.split_once('=').map(|(k, v)| json!([k, v])))
                    .collect();
                test_envs.insert(format!("{id} {t}"), Value::Array(vars));
            }
        }
    }
    let stats = final_stats.unwrap_or_default();
    let summary = match stats.summarize_final() {
        FinalRunStats::Success => "success",
        FinalRunStats::NoTestsRun => "no-tests-run",
        FinalRunStats::Failed(RunStatsFailureKind::SetupScript) => "failed-setup-script",
        FinalRunStats::Cancelled(RunStatsFailureKind::SetupScript) => "cancelled-setup-script",
        FinalRunStats::Failed(RunStatsFailureKind::Test { .. }) => "failed-test",
        FinalRunStats::Cancelled(RunStatsFailureKind::Test { .. }) => "cancelled-test",
    };
    json!({
        "events": events,
        "log": log_lines,
        "test_envs": test_envs,
        "summary": summary,
        "scripts_initial": stats.setup_scripts_initial_count,
        "scripts_finished": stats.setup_scripts_finished_count,
        "tests_initial": stats.initial_run_count,
        "tests_finished": stats.finished_count,
    })
}

pub fn run(case: &Value) -> Value {
    match case["op"].as_str().unwrap_or("") {
        "scripts" => scripts(case),
        "run" => real_run(case),
        "parse_env" => parse_env(case),
        "final_stats" => final_stats(case),
        "exit_code" => json!(nextest_metadata::NextestExitCode::SETUP_SCRIPT_FAILED),
        other => json!({ "error": format!("unknown op {other}") }),
    }
}
