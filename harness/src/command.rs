//! Implementation-side evaluator for the `command` correspondence checks (props/C15.py).
//!
//! Everything except the last step goes through nextest's public API: the cargo `[env]` table and
//! the target runner come from real config files / `--config` options read by
//! `CargoConfigs::new_with_isolation`, the package metadata from a real `PackageGraph`, the test
//! list from `TestList::new`; the command itself is built by the real
//! `TestInstance::make_command` (crate-private, reached through hook H5
//! `list::verif_command::make_command`).  With double-spawn on, the joined argument string is
//! additionally split with the real `shell_words::split`, which is what
//! `DoubleSpawnOpts::exec` in cargo-nextest does before `exec`.
use crate::common::strs;
use camino::Utf8PathBuf;
use guppy::{graph::PackageGraph, PackageId};
use nextest_filtering::{CompiledExpr, EvalContext};
use nextest_metadata::{
    BuildPlatform, FilterMatch, RustBinaryId, RustTestBinaryKind, RustTestCaseSummary,
};
use nextest_runner::{
    cargo_config::{CargoConfigs, EnvironmentMap},
    double_spawn::DoubleSpawnInfo,
    list::{
        verif_command, RustBuildMeta, RustTestArtifact, RustTestSuite, RustTestSuiteStatus,
        TestExecuteContext, TestInstance, TestList,
    },
    platform::BuildPlatforms,
    reuse_build::PathMapper,
    target_runner::TargetRunner,
    test_filter::{FilterBound, RunIgnored, TestFilterBuilder, TestFilterPatterns},
};
use serde_json::{json, Value};
use std::{
    collections::{BTreeMap, BTreeSet},
    ffi::OsString,
};

/// Sets process environment variables for the duration of a case and restores the previous state
/// afterwards (also on panic).
struct EnvGuard {
    saved: Vec<(String, Option<OsString>)>,
}

impl EnvGuard {
    fn set(pairs: &[(String, String)]) -> Self {
        let mut saved = Vec::new();
        for (k, v) in pairs {
            saved.push((k.clone(), std::env::var_os(k)));
            std::env::set_var(k, v);
        }
        Self { saved }
    }
}

impl Drop for EnvGuard {
    fn drop(&mut self) {
        for (k, old) in self.saved.drain(..).rev() {
            match old {
                Some(v) => std::env::set_var(&k, v),
                None => std::env::remove_var(&k),
            }
        }
    }
}

struct DirGuard(Utf8PathBuf);

impl Drop for DirGuard {
    fn drop(&mut self) {
        let _ = std::fs::remove_dir_all(&self.0);
    }
}

fn pairs(v: &Value) -> Vec<(String, String)> {
    v.as_array()
        .map(|a| {
            a.iter()
                .map(|p| {
                    (
                        p[0].as_str().unwrap().to_owned(),
                        p[1].as_str().unwrap().to_owned(),
                    )
                })
                .collect()
        })
        .unwrap_or_default()
}

fn os(s: OsString) -> String {
    s.into_string()
        .unwrap_or_else(|s| s.to_string_lossy().into_owned())
}

pub fn run(case: &Value) -> Value {
    match case["op"].as_str().unwrap_or("") {
        "make" => make(case),
        // which variable carries the dynamic library path on this platform, and what the harness
        // process itself inherited for a list of keys
        "probe" => {
            let keys = strs(&case["keys"]);
            json!({
                "seen": keys.iter().map(|k| json!([k, std::env::var_os(k).map(os)])).collect::<Vec<_>>(),
            })
        }
        other => json!({ "error": format!("unknown op {other}") }),
    }
}

fn make(case: &Value) -> Value {
    let root = Utf8PathBuf::from(case["root"].as_str().unwrap());
    assert!(root.is_absolute(), "root must be absolute");
    let _ = std::fs::remove_dir_all(&root);
    std::fs::create_dir_all(&root).expect("create root");
    let _dir_guard = DirGuard(root.clone());

    // config files, build script output, ... (relative to root)
    for (rel, content) in pairs(&case["files"]) {
        let p = root.join(rel);
        std::fs::create_dir_all(p.parent().unwrap()).expect("mkdir");
        std::fs::write(&p, content).expect("write file");
    }
    let config_cwd = root.join(case["config_cwd"].as_str().unwrap_or(""));
    std::fs::create_dir_all(&config_cwd).expect("mkdir cwd");

    // inherited environment of the nextest process: set before anything nextest does
    let inherited = pairs(&case["inherited"]);
    let _env_guard = EnvGuard::set(&inherited);
    let seen_inherited: Vec<Value> = inherited
        .iter()
        .map(|(k, _)| json!([k, std::env::var_os(k).map(os)]))
        .collect();

    // cargo configuration: real discovery, isolated below root
    let configs = match CargoConfigs::new_with_isolation(
        strs(&case["cli_configs"]),
        &config_cwd,
        &root,
        Vec::new(),
    ) {
        Ok(c) => c,
        Err(e) => return json!({ "error": format!("cargo configs: {e:?}") }),
    };
    let env = EnvironmentMap::new(&configs);

    let build_platforms = BuildPlatforms::new_with_no_target().expect("host platform");
    let target_runner = match TargetRunner::new(&configs, &build_platforms) {
        Ok(t) => t,
        Err(e) => return json!({ "error": format!("target runner: {e:?}") }),
    };

    // package metadata: a real guppy graph from caller-supplied `cargo metadata` JSON
    let graph = match PackageGraph::from_json(case["metadata"].as_str().unwrap()) {
        Ok(g) => g,
        Err(e) => return json!({ "error": format!("package graph: {e}") }),
    };
    let package_id = PackageId::new(case["package_id"].as_str().unwrap());
    let package = graph.metadata(&package_id).expect("package in graph");

    let target_dir = root.join("target");
    let mut rbm = RustBuildMeta::new(target_dir, build_platforms);
    if let Some(out_dir) = case["build_script_out_dir"].as_str() {
        rbm.build_script_out_dirs
            .insert(package_id.repr().to_owned(), Utf8PathBuf::from(out_dir));
    }
    for p in strs(&case["base_output_dirs"]) {
        rbm.base_output_directories.insert(Utf8PathBuf::from(p));
    }
    let rbm = rbm.map_paths(&PathMapper::noop());

    let double_spawn = if case["double_spawn"].as_bool().unwrap_or(false) {
        DoubleSpawnInfo::try_enable()
    } else {
        DoubleSpawnInfo::disabled()
    };
    let profile = case["profile"].as_str().unwrap_or("default").to_owned();
    let ctx = TestExecuteContext {
        profile_name: &profile,
        double_spawn: &double_spawn,
        target_runner: &target_runner,
    };

    let filter = TestFilterBuilder::new(
        RunIgnored::Default,
        None,
        TestFilterPatterns::default(),
        Vec::new(),
    )
    .expect("filter builder");
    let all = CompiledExpr::ALL;
    let ecx = EvalContext {
        default_filter: &all,
    };
    let test_list = match TestList::new(
        &ctx,
        Vec::<RustTestArtifact<'_>>::new(),
        rbm,
        &filter,
        root.clone(),
        env,
        &ecx,
        FilterBound::All,
        1,
    ) {
        Ok(t) => t,
        Err(e) => return json!({ "error": format!("test list: {e}") }),
    };

    let name = case["name"].as_str().unwrap().to_owned();
    let ignored = case["ignored"].as_bool().unwrap_or(false);
    let test_info = RustTestCaseSummary {
        ignored,
        filter_match: FilterMatch::Matches,
    };
    let mut test_cases = BTreeMap::new();
    test_cases.insert(name.clone(), test_info.clone());
    let non_test_binaries: BTreeSet<(String, Utf8PathBuf)> = pairs(&case["non_test_binaries"])
        .into_iter()
        .map(|(n, p)| (n, Utf8PathBuf::from(p)))
        .collect();
    let suite = RustTestSuite {
        binary_id: RustBinaryId::new("verif::bin"),
        binary_path: Utf8PathBuf::from(case["binary_path"].as_str().unwrap()),
        package,
        binary_name: "bin".to_owned(),
        kind: RustTestBinaryKind::new("lib".to_owned()),
        cwd: Utf8PathBuf::from(case["cwd"].as_str().unwrap()),
        build_platform: match case["platform"].as_str() {
            Some("host") => BuildPlatform::Host,
            _ => BuildPlatform::Target,
        },
        non_test_binaries,
        status: RustTestSuiteStatus::Listed { test_cases },
    };
    let instance = TestInstance {
        name: &name,
        suite_info: &suite,
        test_info: &test_info,
    };
    let extra = strs(&case["extra"]);

    let view = verif_command::make_command(&instance, &ctx, &test_list, &extra);

    let args: Vec<String> = view.args.into_iter().map(os).collect();
    // what the launcher does with its last positional argument
    let launcher = if double_spawn.current_exe().is_some() {
        match args.last().map(|a| shell_words::split(a)) {
            Some(Ok(ws)) => json!({ "ok": ws }),
            Some(Err(_)) => json!({ "err": "parse" }),
            None => json!({ "err": "no args" }),
        }
    } else {
        Value::Null
    };
    json!({
        "program": os(view.program),
        "args": args,
        "cwd": view.cwd.map(|p| os(p.into_os_string())),
        "envs": view.envs.into_iter().map(|(k, v)| json!([os(k), v.map(os)])).collect::<Vec<_>>(),
        "seen_inherited": seen_inherited,
        "launcher": launcher,
        "double_spawn_active": double_spawn.current_exe().is_some(),
    })
}
