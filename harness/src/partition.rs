use crate::common::*;
use nextest_filtering::{CompiledExpr, EvalContext, Filterset, FiltersetKind, ParseContext};
use nextest_runner::{
    list::verif_test_list,
    partition::PartitionerBuilder,
    test_filter::{FilterBound, RunIgnored, TestFilterBuilder, TestFilterPatterns},
};
use serde_json::{json, Value};

fn builder(case: &Value) -> Option<PartitionerBuilder> {
    let shard = case["m"].as_u64()?;
    let total_shards = case["n"].as_u64()?;
    match case["kind"].as_str()? {
        "count" => Some(PartitionerBuilder::Count {
            shard,
            total_shards,
        }),
        "hash" => Some(PartitionerBuilder::Hash {
            shard,
            total_shards,
        }),
        _ => None,
    }
}

pub fn run(case: &Value) -> Value {
    match case["op"].as_str().unwrap_or("") {
        // raw xxh64 of a byte string, as the crate nextest links
        "xxh" => {
            let bytes: Vec<u8> = case["bytes"]
                .as_array()
                .unwrap()
                .iter()
                .map(|b| b.as_u64().unwrap() as u8)
                .collect();
            json!(xxhash_rust::xxh64::xxh64(&bytes, 0).to_string())
        }
        // the public Partitioner API on a sequence of names
        "seq" => {
            let mut p = builder(case).expect("partitioner").build();
            let v: Vec<u64> = strs(&case["names"])
                .iter()
                .map(|n| p.test_matches(n) as u64)
                .collect();
            json!(v)
        }
        // PartitionerBuilder::from_str
        "parse" => {
            use std::str::FromStr;
            match PartitionerBuilder::from_str(case["s"].as_str().unwrap()) {
                Ok(PartitionerBuilder::Count {
                    shard,
                    total_shards,
                }) => json!([1, shard.to_string(), total_shards.to_string()]),
                Ok(PartitionerBuilder::Hash {
                    shard,
                    total_shards,
                }) => json!([2, shard.to_string(), total_shards.to_string()]),
                Ok(_) => json!([9]),
                Err(_) => json!([0]),
            }
        }
        // TestList::process_output through hook H4
        "list" => {
            let ri = match case["ri"].as_str().unwrap() {
                "only" => RunIgnored::Only,
                "all" => RunIgnored::All,
                _ => RunIgnored::Default,
            };
            // positional substring patterns (`pats`), --skip patterns (`skips`) and -E filtersets
            // (`exprs`, each a substring s given as `test(~s)`) may all be present at once
            let mut patterns = TestFilterPatterns::new(strs(&case["pats"]));
            for s in strs(&case["skips"]) {
                patterns.add_skip_pattern(s);
            }
            let pcx = ParseContext::new(graph());
            let mut sets = Vec::new();
            for e in strs(&case["exprs"]) {
                match Filterset::parse(format!("test(~{e})"), &pcx, FiltersetKind::Test) {
                    Ok(f) => sets.push(f),
                    Err(_) => return json!({ "error": format!("filterset does not parse: {e}") }),
                }
            }
            let filter = TestFilterBuilder::new(ri, builder(case), patterns, sets)
                .expect("filter builder");
            let all = CompiledExpr::ALL;
            let ecx = EvalContext {
                default_filter: &all,
            };
            let art = artifact("a", "crate_a", "crate_a", "lib", "target");
            let listing = |names: &Value| -> String {
                strs(names)
                    .iter()
                    .map(|n| format!("{n}: test\n"))
                    .collect::<String>()
            };
            match verif_test_list::process_output(
                art,
                &filter,
                &ecx,
                FilterBound::All,
                &listing(&case["non_ignored"]),
                &listing(&case["ignored"]),
            ) {
                Ok(v) => json!(v
                    .into_iter()
                    .map(|(n, ign, fm)| json!([n, ign as u64, mismatch_code(fm)]))
                    .collect::<Vec<_>>()),
                Err(e) => json!({ "error": e.to_string() }),
            }
        }
        other => json!({ "error": format!("unknown op {other}") }),
    }
}
