//! Implementation-side evaluator for the `reader` correspondence checks (see props/).
use serde_json::{json, Value};

pub fn run(case: &Value) -> Value {
    let _ = case;
    json!({ "error": "not implemented" })
}
