//! Implementation-side evaluator for the `reader` correspondence checks (C16, hook H7).
//!
//! mode "fused": the real `FusedBufReader<R>` over a scripted in-memory `AsyncRead`
//!   script items: ["c", hex] chunk | ["g", seed, size] seeded chunk | ["p"] Pending (self-waking)
//!                 | ["e"] zero-length read | ["x"] read error; an exhausted script reads as EOF.
//!   `calls` = number of `fill_buf().await` calls. Result: state after every call.
//! mode "split" / "combined": the real `ChildAccumulator` (`ChildFds::fill_buf`, select! over both
//!   readers; tokio pipes / tokio File) over OS pipes whose write ends the harness holds.
//!   ops: ["w", s, hex] | ["g", s, seed, size] write to stream s (0 stdout, 1 stderr)
//!        | ["c", s] close the write end of s | ["r", k] up to k fill_buf calls (only while a call
//!        can complete according to the harness's own byte count) | ["d"] drain (same, unbounded).
//!   Result: state after every fill_buf call, final (frozen) state.
use serde_json::{json, Value};
use std::{
    collections::VecDeque,
    io::{self, Write},
    pin::Pin,
    sync::OnceLock,
    task::{Context, Poll},
    time::Duration,
};
use tokio::io::{AsyncRead, ReadBuf};

/// a call that can complete does so at once; this only bounds a broken implementation
const HANG: Duration = Duration::from_secs(5);
/// after this many hung cases the remaining cases of the process are not run
static HANGS: std::sync::atomic::AtomicUsize = std::sync::atomic::AtomicUsize::new(0);

use nextest_runner::verif_imp::{VerifAccState, VerifAccumulator, VerifFusedReader, VERIF_CHUNK_SIZE};

/// xorshift64* byte stream, identical to e2e/puppet.py `prng_bytes` and Model/Capture.v `prng_bytes`.
pub fn prng_bytes(seed: u64, n: usize) -> Vec<u8> {
    let mut out = Vec::with_capacity(n + 8);
    let mut x = seed
        .wrapping_mul(2654435761)
        .wrapping_add(88172645463325252);
    if x == 0 {
        x = 1;
    }
    while out.len() < n {
        x ^= x >> 12;
        x ^= x << 25;
        x ^= x >> 27;
        out.extend_from_slice(&x.wrapping_mul(2685821657736338717).to_le_bytes());
    }
    out.truncate(n);
    out
}

fn unhex(s: &str) -> Vec<u8> {
    (0..s.len() / 2)
        .map(|i| u8::from_str_radix(&s[2 * i..2 * i + 2], 16).expect("hex"))
        .collect()
}

fn hex(b: &[u8]) -> String {
    b.iter().map(|x| format!("{x:02x}")).collect()
}

fn digest(b: &[u8]) -> Value {
    // (sum of bytes, sum of running sums): the cheap order-sensitive checksum the model computes
    let (mut s1, mut s2) = (0u128, 0u128);
    for &x in b {
        s1 += x as u128;
        s2 += s1;
    }
    let mut v = json!({
        "len": b.len(),
        "xxh64": xxhash_rust::xxh64::xxh64(b, 0).to_string(),
        "s1": s1.to_string(),
        "s2": s2.to_string(),
    });
    if b.len() <= 64 {
        v["hex"] = json!(hex(b));
    }
    v
}

// ---------------------------------------------------------------------------------- fused

enum Item {
    Chunk(Vec<u8>),
    Pending,
    Eof,
    Err,
}

struct Scripted {
    items: VecDeque<Item>,
    polls: usize,
    max_buf: usize,
}

impl AsyncRead for Scripted {
    fn poll_read(
        mut self: Pin<&mut Self>,
        cx: &mut Context<'_>,
        buf: &mut ReadBuf<'_>,
    ) -> Poll<io::Result<()>> {
        self.polls += 1;
        self.max_buf = self.max_buf.max(buf.remaining());
        match self.items.pop_front() {
            None | Some(Item::Eof) => Poll::Ready(Ok(())),
            Some(Item::Pending) => {
                cx.waker().wake_by_ref();
                Poll::Pending
            }
            Some(Item::Err) => Poll::Ready(Err(io::Error::other("verif: injected read error"))),
            Some(Item::Chunk(b)) => {
                let n = b.len().min(buf.remaining());
                buf.put_slice(&b[..n]);
                if n < b.len() {
                    self.items.push_front(Item::Chunk(b[n..].to_vec()));
                }
                Poll::Ready(Ok(()))
            }
        }
    }
}

fn parse_item(v: &Value) -> Item {
    match v[0].as_str().unwrap_or("") {
        "c" => Item::Chunk(unhex(v[1].as_str().unwrap_or(""))),
        "g" => Item::Chunk(prng_bytes(
            v[1].as_u64().unwrap_or(0),
            v[2].as_u64().unwrap_or(0) as usize,
        )),
        "p" => Item::Pending,
        "e" => Item::Eof,
        "x" => Item::Err,
        other => panic!("unknown script item {other:?}"),
    }
}

fn run_fused(case: &Value) -> Value {
    let items: VecDeque<Item> = case["script"]
        .as_array()
        .map(|a| a.iter().map(parse_item).collect())
        .unwrap_or_default();
    let calls = case["calls"].as_u64().unwrap_or(0);
    let rt = tokio::runtime::Builder::new_current_thread()
        .enable_all()
        .build()
        .expect("runtime");
    rt.block_on(async move {
        let mut r = VerifFusedReader::new(Scripted {
            items,
            polls: 0,
            max_buf: 0,
        });
        let mut trace = Vec::new();
        let mut hang = false;
        for _ in 0..calls {
            match tokio::time::timeout(HANG, r.fill_buf()).await {
                Ok(res) => trace.push(json!([r.acc().len(), r.is_done(), res.is_err()])),
                Err(_) => {
                    hang = true;
                    break;
                }
            }
        }
        json!({
            "trace": trace,
            "acc": digest(r.acc()),
            "done": r.is_done(),
            "hang": hang,
            "chunk_size": VERIF_CHUNK_SIZE,
        })
    })
}

// ---------------------------------------------------------------------------------- pipes

/// true if a fresh pipe takes 64 KiB without a reader (the Linux default capacity)
fn big_pipes() -> bool {
    static BIG: OnceLock<bool> = OnceLock::new();
    *BIG.get_or_init(|| {
        let Ok((r, mut w)) = io::pipe() else {
            return false;
        };
        let (tx, rx) = std::sync::mpsc::channel();
        std::thread::spawn(move || {
            let ok = w.write_all(&vec![0u8; 65536]).is_ok();
            let _ = tx.send(ok);
        });
        let ok = matches!(rx.recv_timeout(Duration::from_secs(3)), Ok(true));
        drop(r); // unblocks the writer with EPIPE if it is still blocked
        ok
    })
}

fn st_json(st: &VerifAccState) -> Value {
    let d = |o: &Option<Vec<u8>>| o.as_ref().map(|b| digest(b)).unwrap_or(Value::Null);
    json!({
        "stdout": d(&st.stdout), "stderr": d(&st.stderr), "combined": d(&st.combined),
        "stdout_done": st.stdout_done, "stderr_done": st.stderr_done,
        "combined_done": st.combined_done, "all_done": st.all_done, "errors": st.errors,
    })
}

fn step_json(op: usize, st: &VerifAccState) -> Value {
    let l = |o: &Option<Vec<u8>>| o.as_ref().map(|b| b.len());
    json!([op, l(&st.stdout), st.stdout_done, l(&st.stderr), st.stderr_done, l(&st.combined), st.combined_done])
}

fn run_pipes(case: &Value, combined: bool) -> Value {
    let capture = [
        case["capture"][0].as_bool().unwrap_or(true),
        case["capture"][1].as_bool().unwrap_or(true),
    ];
    let limit: usize = if big_pipes() { 65536 } else { 4096 };
    let ops = case["ops"].as_array().cloned().unwrap_or_default();
    let rt = tokio::runtime::Builder::new_current_thread()
        .enable_all()
        .build()
        .expect("runtime");
    let out = rt.block_on(async move {
        // writers[s]: the write end the "test process" holds for stream s
        let mut writers: [Option<io::PipeWriter>; 2] = [None, None];
        let mut acc = if combined {
            let (r, w) = io::pipe().expect("pipe");
            writers[1] = Some(w.try_clone().expect("dup"));
            writers[0] = Some(w);
            VerifAccumulator::new_combined(r.into())
        } else {
            let mut fds = [None, None];
            for s in 0..2 {
                if capture[s] {
                    let (r, w) = io::pipe().expect("pipe");
                    writers[s] = Some(w);
                    fds[s] = Some(std::os::fd::OwnedFd::from(r));
                }
            }
            let [o, e] = fds;
            VerifAccumulator::new_split(o, e).expect("from_std")
        };
        // the harness's own count: bytes written per pipe (combined: pipe 0)
        let mut written = [0usize; 2];
        let mut trace = Vec::new();
        let mut hang = false;
        let mut error: Option<String> = None;

        let can_progress = |st: &VerifAccState, written: &[usize; 2], writers: &[Option<io::PipeWriter>; 2]| {
            if combined {
                let got = st.combined.as_ref().map_or(0, |b| b.len());
                !st.combined_done.unwrap_or(true)
                    && (written[0] > got || (writers[0].is_none() && writers[1].is_none()))
            } else {
                let one = |acc: &Option<Vec<u8>>, done: Option<bool>, s: usize| {
                    acc.is_some()
                        && !done.unwrap_or(true)
                        && (written[s] > acc.as_ref().map_or(0, |b| b.len()) || writers[s].is_none())
                };
                one(&st.stdout, st.stdout_done, 0) || one(&st.stderr, st.stderr_done, 1)
            }
        };

        'ops: for (op_idx, op) in ops.iter().enumerate() {
            match op[0].as_str().unwrap_or("") {
                k @ ("w" | "g") => {
                    let s = op[1].as_u64().unwrap_or(0) as usize;
                    let data = if k == "w" {
                        unhex(op[2].as_str().unwrap_or(""))
                    } else {
                        prng_bytes(op[2].as_u64().unwrap_or(0), op[3].as_u64().unwrap_or(0) as usize)
                    };
                    let p = if combined { 0 } else { s };
                    let st = acc.state();
                    let got = if combined {
                        st.combined.as_ref().map_or(0, |b| b.len())
                    } else if s == 0 {
                        st.stdout.as_ref().map_or(0, |b| b.len())
                    } else {
                        st.stderr.as_ref().map_or(0, |b| b.len())
                    };
                    if written[p] - got.min(written[p]) + data.len() > limit {
                        error = Some("script overfills the pipe".into());
                        break 'ops;
                    }
                    if let Some(w) = writers[s].as_mut() {
                        if !data.is_empty() {
                            w.write_all(&data).expect("pipe write");
                        }
                        written[p] += data.len();
                    }
                }
                "c" => {
                    let s = op[1].as_u64().unwrap_or(0) as usize;
                    writers[s] = None;
                }
                k @ ("r" | "d") => {
                    let mut left = if k == "r" { op[1].as_u64().unwrap_or(0) } else { 1_000_000 };
                    while left > 0 && can_progress(&acc.state(), &written, &writers) {
                        left -= 1;
                        match tokio::time::timeout(HANG, acc.fill_buf()).await {
                            Ok(()) => trace.push(step_json(op_idx, &acc.state())),
                            Err(_) => {
                                hang = true;
                                break 'ops;
                            }
                        }
                    }
                }
                other => {
                    error = Some(format!("unknown op {other:?}"));
                    break 'ops;
                }
            }
        }
        let snapshot = st_json(&acc.state());
        // every write end is closed before the accumulator is dropped so that a blocking read
        // tokio's File may still have in flight (combined mode) returns
        writers = [None, None];
        let _ = &writers;
        let frozen = st_json(&acc.freeze());
        json!({
            "trace": trace, "final": snapshot, "frozen": frozen, "hang": hang, "error": error,
            "written": written, "chunk_size": VERIF_CHUNK_SIZE, "pipe_limit": limit,
        })
    });
    rt.shutdown_timeout(Duration::from_secs(5));
    out
}

pub fn run(case: &Value) -> Value {
    use std::sync::atomic::Ordering;
    if HANGS.load(Ordering::Relaxed) >= 3 {
        return json!({ "error": "skipped: three earlier cases hung", "hang": true });
    }
    let res = run_inner(case);
    if res["hang"].as_bool() == Some(true) {
        HANGS.fetch_add(1, Ordering::Relaxed);
    }
    res
}

fn run_inner(case: &Value) -> Value {
    match case["mode"].as_str().unwrap_or("") {
        "fused" => run_fused(case),
        "split" => run_pipes(case, false),
        "combined" => run_pipes(case, true),
        "prng" => json!({ "hex": hex(&prng_bytes(
            case["seed"].as_u64().unwrap_or(0), case["size"].as_u64().unwrap_or(0) as usize)) }),
        other => json!({ "error": format!("unknown mode {other:?}") }),
    }
}
