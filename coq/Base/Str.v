(* Strings are lists of Unicode scalar values (N); byte strings are lists of N < 256.
   Executable definitions only. *)
From Coq Require Export List NArith Bool Lia.
Export ListNotations.
Open Scope N_scope.

Definition str := list N.

Fixpoint str_eqb (a b : str) : bool :=
  match a, b with
  | [], [] => true
  | x :: a', y :: b' => (x =? y) && str_eqb a' b'
  | _, _ => false
  end.

(* lexicographic comparison on code points (= Rust's str Ord, since UTF-8 preserves
   code-point order) *)
Fixpoint str_cmp (a b : str) : comparison :=
  match a, b with
  | [], [] => Eq
  | [], _ :: _ => Lt
  | _ :: _, [] => Gt
  | x :: a', y :: b' =>
      match x ?= y with Eq => str_cmp a' b' | c => c end
  end.

Definition str_leb (a b : str) : bool :=
  match str_cmp a b with Gt => false | _ => true end.

Fixpoint is_prefix (p s : str) : bool :=
  match p, s with
  | [], _ => true
  | x :: p', y :: s' => (x =? y) && is_prefix p' s'
  | _ :: _, [] => false
  end.

(* p occurs as a contiguous substring of s *)
Fixpoint is_infix (p s : str) : bool :=
  is_prefix p s ||
  match s with
  | [] => false
  | _ :: s' => is_infix p s'
  end.

Fixpoint mem_str (x : str) (l : list str) : bool :=
  match l with
  | [] => false
  | y :: l' => str_eqb x y || mem_str x l'
  end.

(* UTF-8 encoding of one scalar value *)
Definition utf8_char (c : N) : list N :=
  if c <? 128 then [c]
  else if c <? 2048 then [192 + c / 64; 128 + c mod 64]
  else if c <? 65536 then [224 + c / 4096; 128 + (c / 64) mod 64; 128 + c mod 64]
  else [240 + c / 262144; 128 + (c / 4096) mod 64; 128 + (c / 64) mod 64; 128 + c mod 64].

Definition utf8 (s : str) : list N := flat_map utf8_char s.

(* insertion sort by str_leb (stable) *)
Fixpoint insert_str (x : str) (l : list str) : list str :=
  match l with
  | [] => [x]
  | y :: l' => if str_leb x y then x :: l else y :: insert_str x l'
  end.

Definition sort_str (l : list str) : list str := fold_right insert_str [] l.
