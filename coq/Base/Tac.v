(* Arithmetic automation setup shared by the proof files. *)
From Coq Require Export Lia ZArith NArith ZifyBool ZifyNat ZifyN.
Ltac Zify.zify_post_hook ::= Z.div_mod_to_equations.
