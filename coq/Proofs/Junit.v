(* Lemmas about the three consumers of the event stream (C17). *)
From NextestModel Require Import Base.Str Model.Junit Proofs.StrFacts.
From NextestModel Require Import Base.Tac.
Open Scope N_scope.

(* ================================================================= statistics *)

(* the counting identity of the property, plus the same for setup scripts *)
Definition part_inv (s : stats) : Prop :=
  passed s + failed s + exec_failed s + timed_out s = finished_count s
  /\ flaky s <= passed s /\ leaky s <= passed s /\ passed_slow s <= passed s
  /\ failed_slow s <= failed s
  /\ ss_passed s + ss_failed s + ss_exec_failed s + ss_timed_out s = ss_finished_count s.

Definition zero_stats : stats := mk_stats 0 0 0 0 0 0 0 0 0 0 0 0 0 0 0 0 0.

(* what one event adds to the statistics *)
Definition event_delta (e : jevent) : stats :=
  match e with
  | JTestFinished _ _ first rest _ _ => test_finished_delta first rest
  | JScriptFinished _ r _ _ => script_finished_delta r
  | JTestSkipped => skipped_delta
  | JOther => zero_stats
  end.

Lemma stats_add_zero s : stats_add s zero_stats = s.
Proof. destruct s; unfold stats_add; cbn; rewrite !N.add_0_r; reflexivity. Qed.

Lemma stats_step_delta s e : stats_step s e = stats_add s (event_delta e).
Proof. destruct e; cbn [stats_step event_delta]; try reflexivity. now rewrite stats_add_zero. Qed.

Lemma part_inv_add a b : part_inv a -> part_inv b -> part_inv (stats_add a b).
Proof. unfold part_inv; destruct a, b; cbn; lia. Qed.

Lemma part_inv_zero : part_inv zero_stats.
Proof. unfold part_inv; cbn; lia. Qed.

Lemma part_inv_initial n : part_inv (initial_stats n).
Proof. unfold part_inv; cbn; lia. Qed.

Lemma part_inv_test_delta first rest : part_inv (test_finished_delta first rest).
Proof.
  unfold test_finished_delta.
  destruct (ja_res (last_attempt first rest)), (ja_slow (last_attempt first rest)), rest;
    unfold part_inv; cbn; lia.
Qed.

Lemma part_inv_script_delta r : part_inv (script_finished_delta r).
Proof. destruct r; unfold part_inv; cbn; lia. Qed.

Lemma part_inv_event_delta e : part_inv (event_delta e).
Proof.
  destruct e; cbn [event_delta].
  - apply part_inv_test_delta.
  - apply part_inv_script_delta.
  - unfold part_inv; cbn; lia.
  - apply part_inv_zero.
Qed.

Lemma part_inv_fold evs : forall s, part_inv s -> part_inv (stats_fold s evs).
Proof.
  induction evs as [|e evs IH]; intros s H; cbn [stats_fold fold_left]; [exact H|].
  apply IH. rewrite stats_step_delta. apply part_inv_add; [exact H|apply part_inv_event_delta].
Qed.

Lemma stats_partition_lemma n evs : part_inv (run_stats n evs).
Proof. apply part_inv_fold, part_inv_initial. Qed.

(* linear functionals of the statistics *)
Definition linear (X : stats -> N) : Prop := forall a b, X (stats_add a b) = X a + X b.

Fixpoint sumN (l : list N) : N := match l with [] => 0 | x :: r => x + sumN r end.

Lemma linear_fold X : linear X ->
  forall evs s, X (stats_fold s evs) = X s + sumN (map (fun e => X (event_delta e)) evs).
Proof.
  intros HX; induction evs as [|e evs IH]; intros s; cbn [stats_fold fold_left map sumN].
  - lia.
  - change (fold_left stats_step evs (stats_step s e)) with (stats_fold (stats_step s e) evs).
    rewrite IH, stats_step_delta, HX. lia.
Qed.

Lemma linear_initial_run_count : linear initial_run_count.
Proof. intros a b; reflexivity. Qed.
Lemma linear_finished_count : linear finished_count.
Proof. intros a b; reflexivity. Qed.
Lemma linear_ss_finished_count : linear ss_finished_count.
Proof. intros a b; reflexivity. Qed.
Lemma linear_flaky : linear flaky.
Proof. intros a b; reflexivity. Qed.
Lemma linear_failed_count : linear failed_count.
Proof. intros a b; unfold failed_count; cbn; lia. Qed.
Lemma linear_failed_script_count : linear failed_script_count.
Proof. intros a b; unfold failed_script_count; cbn; lia. Qed.
Lemma linear_sum X Y : linear X -> linear Y -> linear (fun s => X s + Y s).
Proof. intros HX HY a b; rewrite HX, HY; lia. Qed.

Lemma initial_run_count_event_delta e : initial_run_count (event_delta e) = 0.
Proof.
  destruct e; cbn [event_delta]; try reflexivity.
  - unfold test_finished_delta.
    destruct (ja_res (last_attempt first rest)); reflexivity.
  - destruct res; reflexivity.
Qed.

Lemma initial_run_count_constant n evs : initial_run_count (run_stats n evs) = n.
Proof.
  unfold run_stats. rewrite (linear_fold _ linear_initial_run_count).
  cbn [initial_stats initial_run_count].
  assert (H : sumN (map (fun e => initial_run_count (event_delta e)) evs) = 0).
  { induction evs as [|e evs IH]; cbn [map sumN]; [reflexivity|].
    rewrite initial_run_count_event_delta, IH; reflexivity. }
  rewrite H; lia.
Qed.

Lemma finished_count_test_delta first rest : finished_count (test_finished_delta first rest) = 1.
Proof. unfold test_finished_delta. destruct (ja_res (last_attempt first rest)); reflexivity. Qed.

Lemma finished_count_is_number_of_finished_events n evs :
  finished_count (run_stats n evs) = len (finished_ids evs).
Proof.
  unfold run_stats. rewrite (linear_fold _ linear_finished_count).
  cbn [initial_stats finished_count]. unfold len.
  induction evs as [|e evs IH]; cbn [map sumN finished_ids]; [reflexivity|].
  destruct e; cbn [event_delta finished_ids length].
  - rewrite finished_count_test_delta. lia.
  - destruct res; cbn; lia.
  - cbn; lia.
  - cbn; lia.
Qed.

(* finished <= selected: every selected test finishes at most once (C02 proves this of the
   dispatcher; here it is the hypothesis NoDup) and only selected tests finish *)
Lemma finished_le_selected (sel : list (str * str)) evs :
  NoDup (finished_ids evs) -> incl (finished_ids evs) sel ->
  finished_count (run_stats (len sel) evs) <= initial_run_count (run_stats (len sel) evs).
Proof.
  intros Hnd Hincl. rewrite finished_count_is_number_of_finished_events, initial_run_count_constant.
  unfold len. pose proof (NoDup_incl_length Hnd Hincl). lia.
Qed.

Lemma stats_eqb_eq a b : stats_eqb a b = true -> a = b.
Proof.
  unfold stats_eqb. destruct a, b; cbn.
  rewrite !andb_true_iff, !N.eqb_eq. intuition (subst; reflexivity).
Qed.

Lemma stats_eqb_refl a : stats_eqb a a = true.
Proof. unfold stats_eqb. rewrite !N.eqb_refl. reflexivity. Qed.

(* ================================================================= describe / convert *)

Lemma skey_eqb_eq a b : skey_eqb a b = true <-> a = b.
Proof.
  destruct a, b; cbn [skey_eqb]; try (split; [discriminate|intros H; discriminate H]).
  - rewrite str_eqb_eq. split; [intros ->; reflexivity|intros H; injection H; auto].
  - rewrite str_eqb_eq. split; [intros ->; reflexivity|intros H; injection H; auto].
Qed.

Lemma skey_eqb_refl a : skey_eqb a a = true.
Proof. apply skey_eqb_eq; reflexivity. Qed.

Lemma length_removelast_cons {A} (x : A) l : length (removelast (x :: l)) = length l.
Proof.
  revert x; induction l as [|y l IH]; intros x; [reflexivity|].
  change (removelast (x :: y :: l)) with (x :: removelast (y :: l)).
  cbn [length]. rewrite IH. reflexivity.
Qed.

(* attempt numbers start, start+1, ... *)
Fixpoint nseq (start : N) (k : nat) : list N :=
  match k with O => [] | S k' => start :: nseq (start + 1) k' end.

Lemma mk_reruns_spec sf l : forall start rs,
  mk_reruns sf start l = Some rs ->
  length rs = length l
  /\ map rr_attempt rs = nseq start (length l)
  /\ Forall (fun r => rr_stored r = sf) rs
  /\ map (fun r => Some (rr_kind r)) rs = map (fun a => non_success_kind (ja_res a)) l.
Proof.
  induction l as [|a l IH]; intros start rs H; cbn [mk_reruns] in H.
  - injection H as <-. cbn. repeat split; constructor.
  - destruct (non_success_kind (ja_res a)) as [k|] eqn:Ek; [|discriminate].
    destruct (mk_reruns sf (start + 1) l) as [rs'|] eqn:Er; [|discriminate].
    injection H as <-. destruct (IH _ _ Er) as (H1 & H2 & H3 & H4).
    cbn [length map nseq rr_attempt rr_stored rr_kind].
    rewrite H1, H2, H4, Ek. repeat split. constructor; [reflexivity|exact H3].
Qed.

Lemma mk_reruns_total sf l : forall start,
  forallb (fun a => negb (jis_success (ja_res a))) l = true ->
  exists rs, mk_reruns sf start l = Some rs.
Proof.
  induction l as [|a l IH]; intros start H; cbn [mk_reruns]; [eexists; reflexivity|].
  cbn [forallb] in H. apply andb_true_iff in H as [Ha Hl].
  destruct (IH (start + 1) Hl) as [rs ->].
  destruct (ja_res a); cbn in Ha; try discriminate; cbn; eexists; reflexivity.
Qed.

(* the facts about one converted TestFinished event *)
Record test_case_ok (bin name : str) (first : jattempt) (rest : list jattempt) (ss sf : bool)
       (k : skey) (tc : testcase) : Prop := {
  tco_key : k = KBinary bin;
  tco_name : tc_name tc = name;
  tco_class : tc_classname tc = bin;
  tco_nonsuccess : is_nonsuccess tc = negb (jis_success (ja_res (last_attempt first rest)));
  tco_rerun_count : length (tc_reruns tc) = length rest;
  tco_rerun_stored : Forall (fun r => rr_stored r = sf) (tc_reruns tc);
  tco_attempts :
    if jis_success (ja_res (last_attempt first rest))
    then tc_main_attempt tc = N.of_nat (length (first :: rest))
         /\ map rr_attempt (tc_reruns tc) = nseq 1 (length rest)
    else tc_main_attempt tc = 1 /\ map rr_attempt (tc_reruns tc) = nseq 2 (length rest);
  tco_kind :
    if jis_success (ja_res (last_attempt first rest)) then True
    else exists kd, non_success_kind (ja_res first) = Some kd /\ has_kind kd tc = true;
  tco_stored_main :
    tc_stored tc =
    store_decision ss sf (jis_success (ja_res (if jis_success (ja_res (last_attempt first rest))
                                               then last_attempt first rest else first)))
}.

Lemma convert_test_ok bin name first rest ss sf k tc :
  convert_test bin name first rest ss sf = CCase k tc ->
  test_case_ok bin name first rest ss sf k tc.
Proof.
  unfold convert_test, describe.
  destruct (jis_success (ja_res (last_attempt first rest))) eqn:Es.
  - destruct rest as [|b rest'].
    + cbn [mk_reruns]. intros H; injection H as <- <-.
      constructor;
        cbn [tc_name tc_classname tc_status tc_main_attempt tc_stored tc_reruns is_nonsuccess];
        try rewrite Es; cbn [negb length map nseq]; repeat split; try reflexivity; constructor.
    + destruct (mk_reruns sf 1 (removelast (first :: b :: rest'))) as [rs|] eqn:Er; [|discriminate].
      intros H; injection H as <- <-.
      destruct (mk_reruns_spec _ _ _ _ Er) as (H1 & H2 & H3 & H4).
      rewrite length_removelast_cons in H1, H2.
      constructor;
        cbn [tc_name tc_classname tc_status tc_main_attempt tc_stored tc_reruns is_nonsuccess];
        try rewrite Es; cbn [negb]; repeat split; try reflexivity; assumption.
  - destruct (non_success_kind (ja_res first)) as [kd|] eqn:Ek; [|discriminate].
    destruct (mk_reruns sf 2 rest) as [rs|] eqn:Er; [|discriminate].
    intros H; injection H as <- <-.
    destruct (mk_reruns_spec _ _ _ _ Er) as (H1 & H2 & H3 & H4).
    constructor;
      cbn [tc_name tc_classname tc_status tc_main_attempt tc_stored tc_reruns is_nonsuccess];
      try rewrite Es; cbn [negb]; repeat split; try reflexivity; try assumption.
    exists kd. split; [exact Ek|]. unfold has_kind; cbn. destruct kd; reflexivity.
Qed.

Lemma removelast_cons_cons {A} (x y : A) l : removelast (x :: y :: l) = x :: removelast (y :: l).
Proof. reflexivity. Qed.

Lemma last_cons_cons {A} (x y d : A) l : last (x :: y :: l) d = last (y :: l) d.
Proof. reflexivity. Qed.

(* under wf_attempts the first status of an ultimately failed test is itself a failure *)
Lemma wf_first_not_success first rest :
  wf_attempts first rest = true ->
  jis_success (ja_res (last_attempt first rest)) = false ->
  jis_success (ja_res first) = false.
Proof.
  unfold wf_attempts, last_attempt. destruct rest as [|b rest'].
  - cbn. auto.
  - rewrite removelast_cons_cons. cbn [forallb]. intros H _.
    apply andb_true_iff in H as [H _]. now apply negb_true_iff in H.
Qed.

Lemma last_cons_default {A} (x d : A) l : last (x :: l) d = last l x.
Proof.
  revert x d; induction l as [|y l IH]; intros x d; [reflexivity|].
  rewrite last_cons_cons, !IH. reflexivity.
Qed.

(* first :: rest = (all but the last) ++ [last] *)
Lemma attempts_split first rest :
  first :: rest = removelast (first :: rest) ++ [last_attempt first rest].
Proof.
  unfold last_attempt. rewrite <- (last_cons_default first first rest).
  apply app_removelast_last. discriminate.
Qed.

(* an ultimately failed well-formed test failed in every attempt *)
Lemma wf_failed_all_fail first rest :
  wf_attempts first rest = true ->
  jis_success (ja_res (last_attempt first rest)) = false ->
  forallb (fun a => negb (jis_success (ja_res a))) (first :: rest) = true.
Proof.
  unfold wf_attempts. intros Hwf Es. rewrite (attempts_split first rest), forallb_app, Hwf.
  cbn [forallb]. rewrite Es. reflexivity.
Qed.

Lemma wf_convert_test bin name first rest ss sf :
  wf_attempts first rest = true ->
  exists tc, convert_test bin name first rest ss sf = CCase (KBinary bin) tc.
Proof.
  intros Hwf. unfold convert_test, describe.
  destruct (jis_success (ja_res (last_attempt first rest))) eqn:Es.
  - destruct rest as [|b rest'].
    + cbn [mk_reruns]. eexists; reflexivity.
    + destruct (mk_reruns_total sf (removelast (first :: b :: rest')) 1 Hwf) as [rs ->].
      eexists; reflexivity.
  - pose proof (wf_first_not_success _ _ Hwf Es) as Hf.
    assert (Hr : forallb (fun a => negb (jis_success (ja_res a))) rest = true).
    { pose proof (wf_failed_all_fail _ _ Hwf Es) as Hall. cbn [forallb] in Hall.
      apply andb_true_iff in Hall as [_ Hall]. exact Hall. }
    destruct (mk_reruns_total sf rest 2 Hr) as [rs Hrs].
    destruct (ja_res first); cbn in Hf; try discriminate; cbn [non_success_kind];
      rewrite Hrs; eexists; reflexivity.
Qed.

Lemma wf_store_main first rest :
  wf_attempts first rest = true ->
  jis_success (ja_res (if jis_success (ja_res (last_attempt first rest))
                       then last_attempt first rest else first))
  = jis_success (ja_res (last_attempt first rest)).
Proof.
  intros Hwf. destruct (jis_success (ja_res (last_attempt first rest))) eqn:Es; [exact Es|].
  exact (wf_first_not_success _ _ Hwf Es).
Qed.

(* scripts *)
Lemma convert_script_ok id r ss sf :
  exists tc, convert_script id r ss sf = CCase (KScript id) tc
    /\ tc_name tc = id /\ tc_classname tc = skey_name (KScript id)
    /\ is_nonsuccess tc = negb (jis_success r)
    /\ tc_reruns tc = []
    /\ tc_stored tc = store_decision ss sf (jis_success r).
Proof.
  unfold convert_script. destruct r; cbn; eexists; repeat split; reflexivity.
Qed.

Lemma wf_convert e : wf_event e = true -> convert e <> CPanic.
Proof.
  destruct e; cbn [wf_event convert]; try discriminate.
  - intros H. destruct (wf_convert_test bin name first rest store_success store_failure H) as [tc ->].
    discriminate.
  - intros _. destruct (convert_script_ok id res store_success store_failure) as (tc & -> & _).
    discriminate.
Qed.

(* ================================================================= the suite map *)

(* the converted cases of a stream, in order *)
Fixpoint cases_of (evs : list jevent) : list (skey * testcase) :=
  match evs with
  | [] => []
  | e :: r => match convert e with CCase k tc => (k, tc) :: cases_of r | _ => cases_of r end
  end.

Definition add_all (st : jstate) (cs : list (skey * testcase)) : jstate :=
  fold_left (fun st c => add_case (fst c) (snd c) st) cs st.

Lemma junit_fold_add_all evs : forall st rep,
  junit_fold st evs = Some rep -> rep = add_all st (cases_of evs).
Proof.
  induction evs as [|e evs IH]; intros st rep H; cbn [junit_fold cases_of] in *.
  - injection H as <-. reflexivity.
  - destruct (convert e) as [| |k tc]; [now apply IH|discriminate|].
    cbn [add_all fold_left fst snd]. now apply IH.
Qed.

Lemma junit_fold_total evs : forall st,
  forallb wf_event evs = true -> exists rep, junit_fold st evs = Some rep.
Proof.
  induction evs as [|e evs IH]; intros st H; cbn [junit_fold]; [eexists; reflexivity|].
  cbn [forallb] in H. apply andb_true_iff in H as [He Hr].
  pose proof (wf_convert e He) as Hc.
  destruct (convert e); [apply IH, Hr|contradiction|apply IH, Hr].
Qed.

Lemma lookup_add_case k k' tc st :
  lookup_suite k (add_case k' tc st) =
  if skey_eqb k k' then lookup_suite k st ++ [tc] else lookup_suite k st.
Proof.
  induction st as [|[k0 tcs] st IH]; cbn [add_case lookup_suite].
  - destruct (skey_eqb k k'); reflexivity.
  - destruct (skey_eqb k' k0) eqn:E0.
    + apply skey_eqb_eq in E0 as ->. cbn [lookup_suite].
      destruct (skey_eqb k k0); reflexivity.
    + cbn [lookup_suite]. destruct (skey_eqb k k0) eqn:E1.
      * apply skey_eqb_eq in E1 as ->.
        destruct (skey_eqb k0 k') eqn:E2; [|reflexivity].
        apply skey_eqb_eq in E2 as ->. rewrite skey_eqb_refl in E0. discriminate.
      * exact IH.
Qed.

Definition cases_for (k : skey) (cs : list (skey * testcase)) : list testcase :=
  map snd (filter (fun c => skey_eqb k (fst c)) cs).

Lemma lookup_add_all k cs : forall st,
  lookup_suite k (add_all st cs) = lookup_suite k st ++ cases_for k cs.
Proof.
  induction cs as [|[k' tc] cs IH]; intros st; cbn [add_all fold_left cases_for filter map fst snd].
  - now rewrite app_nil_r.
  - change (fold_left _ cs ?s) with (add_all s cs). rewrite IH, lookup_add_case.
    unfold cases_for. destruct (skey_eqb k k'); cbn [map snd]; [now rewrite <- app_assoc|reflexivity].
Qed.

(* suite keys: creation order = order of first occurrence, no key twice *)
Definition add_key (k : skey) (ks : list skey) : list skey :=
  if existsb (skey_eqb k) ks then ks else ks ++ [k].

Lemma keys_add_case k tc st : map fst (add_case k tc st) = add_key k (map fst st).
Proof.
  unfold add_key. induction st as [|[k0 tcs] st IH]; cbn [add_case map fst existsb]; [reflexivity|].
  destruct (skey_eqb k k0); cbn [map fst orb]; [reflexivity|].
  rewrite IH. destruct (existsb (skey_eqb k) (map fst st)); reflexivity.
Qed.

Lemma keys_add_all cs : forall st,
  map fst (add_all st cs) = fold_left (fun ks c => add_key (fst c) ks) cs (map fst st).
Proof.
  induction cs as [|c cs IH]; intros st; cbn [add_all fold_left]; [reflexivity|].
  change (fold_left _ cs ?s) with (add_all s cs) at 1. rewrite IH, keys_add_case. reflexivity.
Qed.

Lemma existsb_skey_In k ks : existsb (skey_eqb k) ks = true <-> In k ks.
Proof.
  rewrite existsb_exists. split.
  - intros (x & Hx & E). apply skey_eqb_eq in E as ->. exact Hx.
  - intros H. exists k. split; [exact H|apply skey_eqb_refl].
Qed.

Lemma nodup_snoc {A} (x : A) l : NoDup l -> ~ In x l -> NoDup (l ++ [x]).
Proof.
  induction l as [|y l IH]; intros Hnd Hx; cbn [app].
  - constructor; [intros []|constructor].
  - inversion Hnd as [|? ? Hy Hl]; subst. constructor.
    + rewrite in_app_iff. intros [H|[H|[]]]; [contradiction|subst; apply Hx; left; reflexivity].
    + apply IH; [exact Hl|intros H; apply Hx; right; exact H].
Qed.

Lemma add_key_nodup k ks : NoDup ks -> NoDup (add_key k ks).
Proof.
  intros H. unfold add_key. destruct (existsb (skey_eqb k) ks) eqn:E; [exact H|].
  apply nodup_snoc; [exact H|]. intros Hin. apply existsb_skey_In in Hin. congruence.
Qed.

Lemma keys_nodup_add_all cs : forall st, NoDup (map fst st) -> NoDup (map fst (add_all st cs)).
Proof.
  intros st H. rewrite keys_add_all. revert H. generalize (map fst st).
  induction cs as [|c cs IH]; intros ks H; cbn [fold_left]; [exact H|].
  apply IH, add_key_nodup, H.
Qed.

Lemma lookup_suite_in k tcs rep :
  NoDup (map fst rep) -> In (k, tcs) rep -> lookup_suite k rep = tcs.
Proof.
  induction rep as [|[k0 t0] rep IH]; intros Hnd Hin; [destruct Hin|].
  cbn [map fst] in Hnd. inversion Hnd as [|? ? Hk Hr]; subst.
  cbn [lookup_suite]. destruct Hin as [E|Hin].
  - injection E as -> ->. now rewrite skey_eqb_refl.
  - destruct (skey_eqb k k0) eqn:E.
    + apply skey_eqb_eq in E as ->. exfalso. apply Hk.
      change k0 with (fst (k0, tcs)). apply in_map, Hin.
    + apply IH; assumption.
Qed.

(* counting testcases through the map: a suite-key predicate g and a testcase predicate f *)
Definition cnt (g : skey -> bool) (f : testcase -> bool) (rep : jstate) : N :=
  count_if f (flat_map snd (filter (fun s => g (fst s)) rep)).

Lemma count_if_app {A} (f : A -> bool) l1 l2 : count_if f (l1 ++ l2) = count_if f l1 + count_if f l2.
Proof. unfold count_if. rewrite filter_app, app_length. lia. Qed.

Lemma cnt_cons g f k tcs rep :
  cnt g f ((k, tcs) :: rep) = (if g k then count_if f tcs else 0) + cnt g f rep.
Proof.
  unfold cnt. cbn [filter fst]. destruct (g k); cbn [flat_map snd].
  - now rewrite count_if_app.
  - lia.
Qed.

Lemma cnt_add_case g f k tc st :
  cnt g f (add_case k tc st) = cnt g f st + b2n (g k && f tc).
Proof.
  induction st as [|[k0 tcs] st IH]; cbn [add_case].
  - rewrite cnt_cons. unfold cnt, count_if; cbn. destruct (g k), (f tc); cbn; lia.
  - destruct (skey_eqb k k0) eqn:E.
    + apply skey_eqb_eq in E as <-. rewrite !cnt_cons. destruct (g k); cbn [andb].
      * rewrite count_if_app. unfold count_if at 2; cbn [filter]. destruct (f tc); cbn; lia.
      * cbn; lia.
    + rewrite !cnt_cons, IH. lia.
Qed.

Lemma cnt_add_all g f cs : forall st,
  cnt g f (add_all st cs) = cnt g f st + sumN (map (fun c => b2n (g (fst c) && f (snd c))) cs).
Proof.
  induction cs as [|c cs IH]; intros st; cbn [add_all fold_left map sumN]; [lia|].
  change (fold_left _ cs ?s) with (add_all s cs). rewrite IH, cnt_add_case. lia.
Qed.

(* the general agreement lemma: a linear statistic X and a count of testcases (g, f) that
   change by the same amount on every event stay equal over any stream *)
Lemma fold_agree (X : stats -> N) g f :
  linear X ->
  (forall e, match convert e with
             | CCase k tc => X (event_delta e) = b2n (g k && f tc)
             | CIgnored => X (event_delta e) = 0
             | CPanic => True
             end) ->
  forall evs st rep s,
    junit_fold st evs = Some rep ->
    cnt g f rep + X s = cnt g f st + X (stats_fold s evs).
Proof.
  intros HX Hstep evs st rep s H. rewrite (linear_fold _ HX).
  assert (E : cnt g f rep = cnt g f st + sumN (map (fun e => X (event_delta e)) evs)).
  { clear s. revert st rep H. induction evs as [|e evs IH]; intros st rep H;
      cbn [junit_fold map sumN] in *.
    - injection H as <-. lia.
    - specialize (Hstep e). destruct (convert e) as [| |k tc]; [|discriminate|].
      + rewrite (IH _ _ H), Hstep. lia.
      + rewrite (IH _ _ H), cnt_add_case, Hstep. lia. }
  lia.
Qed.

(* ================================================================= per-event agreement facts *)

Definition ktrue (_ : skey) : bool := true.
Definition ttrue (_ : testcase) : bool := true.
Definition is_script_key (k : skey) : bool := negb (is_test_key k).

Lemma failed_count_test_delta first rest :
  failed_count (test_finished_delta first rest)
  = b2n (negb (jis_success (ja_res (last_attempt first rest)))).
Proof.
  unfold test_finished_delta. destruct (ja_res (last_attempt first rest)); reflexivity.
Qed.

Lemma flaky_test_delta first rest :
  flaky (test_finished_delta first rest)
  = b2n (jis_success (ja_res (last_attempt first rest))
         && match rest with [] => false | _ :: _ => true end).
Proof.
  unfold test_finished_delta. destruct (ja_res (last_attempt first rest)), rest; reflexivity.
Qed.

Lemma is_flaky_case_spec bin name first rest ss sf k tc :
  convert_test bin name first rest ss sf = CCase k tc ->
  is_flaky_case tc = jis_success (ja_res (last_attempt first rest))
                     && match rest with [] => false | _ :: _ => true end.
Proof.
  intros H. pose proof (convert_test_ok _ _ _ _ _ _ _ _ H) as [_ _ _ Hns Hlen _ _ _ _].
  unfold is_flaky_case, is_nonsuccess, tc_reruns in *.
  destruct (tc_status tc) as [rs|kd rs];
    destruct (jis_success (ja_res (last_attempt first rest))); cbn in Hns; try discriminate.
  - destruct rs, rest; cbn in Hlen; try discriminate; reflexivity.
  - reflexivity.
Qed.

(* a generic way to discharge the per-event premise of fold_agree: give the contribution of a
   test event and of a script event *)
Lemma fold_agree_events (X : stats -> N) g f :
  linear X ->
  X skipped_delta = 0 -> X zero_stats = 0 ->
  (forall bin name first rest ss sf k tc,
      convert_test bin name first rest ss sf = CCase k tc ->
      X (test_finished_delta first rest) = b2n (g k && f tc)) ->
  (forall id r ss sf k tc,
      convert_script id r ss sf = CCase k tc ->
      X (script_finished_delta r) = b2n (g k && f tc)) ->
  forall evs st rep s,
    junit_fold st evs = Some rep ->
    cnt g f rep + X s = cnt g f st + X (stats_fold s evs).
Proof.
  intros HX Hsk Hz Ht Hs. apply fold_agree; [exact HX|].
  intros e. destruct e; cbn [convert event_delta]; try assumption.
  - destruct (convert_test bin name first rest store_success store_failure) eqn:E; try exact I.
    + unfold convert_test in E.
      destruct (match describe first rest with
                | DSuccess single => _ | DFlaky l p => _ | DFailure a _ r => _ end)
        as [[[[[kd m] mn] rr] st0]|]; [|discriminate].
      destruct (mk_reruns store_failure st0 rr); discriminate.
    + eapply Ht; exact E.
  - destruct (convert_script id res store_success store_failure) eqn:E; try exact I.
    + destruct (convert_script_ok id res store_success store_failure) as (tc & E' & _).
      rewrite E' in E. discriminate.
    + eapply Hs; exact E.
Qed.

Lemma script_key id r ss sf k tc :
  convert_script id r ss sf = CCase k tc -> k = KScript id.
Proof.
  destruct (convert_script_ok id r ss sf) as (tc' & E & _). rewrite E. intros H; injection H; auto.
Qed.

Lemma script_nonsuccess id r ss sf k tc :
  convert_script id r ss sf = CCase k tc -> is_nonsuccess tc = negb (jis_success r).
Proof.
  destruct (convert_script_ok id r ss sf) as (tc' & E & _ & _ & Hn & _). rewrite E.
  intros H; injection H as <- <-. exact Hn.
Qed.

Section Agreement.
  Variables (evs : list jevent) (rep : jstate) (n : N).
  Hypothesis Hrep : junit_report evs = Some rep.

  Let agree X g f HX Hsk Hz Ht Hs :=
    fold_agree_events X g f HX Hsk Hz Ht Hs evs [] rep (initial_stats n) Hrep.

  (* testcases of tests = finished_count *)
  Lemma agree_tests : cnt is_test_key ttrue rep = finished_count (run_stats n evs).
  Proof.
    pose proof (agree finished_count is_test_key ttrue linear_finished_count eq_refl eq_refl) as H.
    cbn in H. unfold run_stats. rewrite <- H; [lia| |].
    - intros * E. destruct (convert_test_ok _ _ _ _ _ _ _ _ E) as [-> _ _ _ _ _ _ _ _].
      rewrite finished_count_test_delta. reflexivity.
    - intros * E. rewrite (script_key _ _ _ _ _ _ E). destruct r; reflexivity.
  Qed.

  (* testcases of setup scripts = setup_scripts_finished_count *)
  Lemma agree_scripts : cnt is_script_key ttrue rep = ss_finished_count (run_stats n evs).
  Proof.
    pose proof (agree ss_finished_count is_script_key ttrue linear_ss_finished_count
                      eq_refl eq_refl) as H.
    cbn in H. unfold run_stats. rewrite <- H; [lia| |].
    - intros * E. destruct (convert_test_ok _ _ _ _ _ _ _ _ E) as [-> _ _ _ _ _ _ _ _].
      unfold test_finished_delta. destruct (ja_res (last_attempt first rest)); reflexivity.
    - intros * E. rewrite (script_key _ _ _ _ _ _ E). destruct r; reflexivity.
  Qed.

  (* non-success testcases of tests = failed_count *)
  Lemma agree_failed : cnt is_test_key is_nonsuccess rep = failed_count (run_stats n evs).
  Proof.
    pose proof (agree failed_count is_test_key is_nonsuccess linear_failed_count
                      eq_refl eq_refl) as H.
    cbn in H. unfold run_stats. rewrite <- H; [lia| |].
    - intros * E. destruct (convert_test_ok _ _ _ _ _ _ _ _ E) as [-> _ _ Hn _ _ _ _ _].
      rewrite failed_count_test_delta, Hn. reflexivity.
    - intros * E. rewrite (script_key _ _ _ _ _ _ E). destruct r; reflexivity.
  Qed.

  (* non-success testcases of setup scripts = failed_setup_script_count *)
  Lemma agree_failed_scripts :
    cnt is_script_key is_nonsuccess rep = failed_script_count (run_stats n evs).
  Proof.
    pose proof (agree failed_script_count is_script_key is_nonsuccess linear_failed_script_count
                      eq_refl eq_refl) as H.
    cbn in H. unfold run_stats. rewrite <- H; [lia| |].
    - intros * E. destruct (convert_test_ok _ _ _ _ _ _ _ _ E) as [-> _ _ _ _ _ _ _ _].
      unfold test_finished_delta. destruct (ja_res (last_attempt first rest)); reflexivity.
    - intros * E. rewrite (script_key _ _ _ _ _ _ E), (script_nonsuccess _ _ _ _ _ _ E).
      destruct r; reflexivity.
  Qed.

  (* successes carrying flaky reruns = flaky *)
  Lemma agree_flaky : cnt is_test_key is_flaky_case rep = flaky (run_stats n evs).
  Proof.
    pose proof (agree flaky is_test_key is_flaky_case linear_flaky eq_refl eq_refl) as H.
    cbn in H. unfold run_stats. rewrite <- H; [lia| |].
    - intros * E. rewrite (is_flaky_case_spec _ _ _ _ _ _ _ _ E).
      destruct (convert_test_ok _ _ _ _ _ _ _ _ E) as [-> _ _ _ _ _ _ _ _].
      rewrite flaky_test_delta. reflexivity.
    - intros * E. rewrite (script_key _ _ _ _ _ _ E). destruct r; reflexivity.
  Qed.
End Agreement.

Lemma cnt_test_cases f rep : cnt is_test_key f rep = count_if f (test_cases rep).
Proof. reflexivity. Qed.
Lemma cnt_script_cases f rep : cnt is_script_key f rep = count_if f (script_cases rep).
Proof. reflexivity. Qed.
Lemma count_if_ttrue {A} (l : list A) : count_if (fun _ => true) l = len l.
Proof.
  unfold count_if, len. f_equal. f_equal. induction l as [|x l IH]; cbn; [reflexivity|now rewrite IH].
Qed.

(* ================================================================= top-level statements *)

(* C17_one_testcase_per_finished *)
Lemma one_testcase_per_finished evs rep n :
  junit_report evs = Some rep ->
  (* every suite holds exactly the testcases of the events with its key, in event order *)
  (forall k, lookup_suite k rep = cases_for k (cases_of evs))
  (* no suite twice; a suite listed in the report is the one lookup finds *)
  /\ NoDup (map fst rep)
  /\ (forall k tcs, In (k, tcs) rep -> tcs = cases_for k (cases_of evs) /\ tcs <> [])
  (* suites appear in the order in which their first testcase arrived *)
  /\ map fst rep = fold_left (fun ks c => add_key (fst c) ks) (cases_of evs) []
  (* as many testcases as finished tests / finished setup scripts *)
  /\ len (test_cases rep) = finished_count (run_stats n evs)
  /\ len (script_cases rep) = ss_finished_count (run_stats n evs)
  /\ len (all_cases rep) = len (cases_of evs).
Proof.
  intros H. pose proof (junit_fold_add_all _ _ _ H) as ->.
  assert (Hl : forall k, lookup_suite k (add_all [] (cases_of evs)) = cases_for k (cases_of evs)).
  { intros k. rewrite lookup_add_all. reflexivity. }
  assert (Hnd : NoDup (map fst (add_all [] (cases_of evs)))).
  { apply keys_nodup_add_all. constructor. }
  split; [exact Hl|]. split; [exact Hnd|]. split; [|split; [|split; [|split]]].
  - intros k tcs Hin. rewrite <- Hl, (lookup_suite_in _ _ _ Hnd Hin). split; [reflexivity|].
    (* suites are never empty *)
    clear - Hin. revert Hin. generalize (cases_of evs) as cs.
    assert (G : forall cs st, (forall k t, In (k, t) st -> t <> []) ->
                forall k t, In (k, t) (add_all st cs) -> t <> []).
    { induction cs as [|c cs IH]; intros st Hst k0 t0 Hin0; cbn [add_all fold_left] in Hin0.
      - eapply Hst; exact Hin0.
      - change (fold_left _ cs ?s) with (add_all s cs) in Hin0. eapply IH; [|exact Hin0].
        clear - Hst. induction st as [|[k1 t1] st IHst]; cbn [add_case]; intros k t Hin.
        + destruct Hin as [E|[]]. injection E as <- <-. discriminate.
        + destruct (skey_eqb (fst c) k1).
          * destruct Hin as [E|Hin]; [injection E as <- <-; now destruct t1|].
            eapply Hst; right; exact Hin.
          * destruct Hin as [E|Hin]; [injection E as <- <-; eapply Hst; left; reflexivity|].
            apply (IHst (fun k t H => Hst k t (or_intror H)) k t Hin). }
    intros cs Hin. eapply G; [|exact Hin]. intros ? ? [].
  - rewrite keys_add_all. reflexivity.
  - rewrite <- (count_if_ttrue (test_cases _)). rewrite <- cnt_test_cases.
    exact (agree_tests evs _ n H).
  - rewrite <- (count_if_ttrue (script_cases _)). rewrite <- cnt_script_cases.
    exact (agree_scripts evs _ n H).
  - rewrite <- (count_if_ttrue (all_cases _)).
    change (count_if (fun _ => true) (all_cases ?r)) with (count_if ttrue (all_cases r)).
    assert (E : forall r, cnt ktrue ttrue r = count_if ttrue (all_cases r)).
    { induction r as [|[k tcs] r IH]; [reflexivity|].
      rewrite cnt_cons, IH. unfold all_cases; cbn [flat_map snd ktrue].
      now rewrite count_if_app. }
    rewrite <- E, cnt_add_all.
    assert (E0 : cnt ktrue ttrue [] = 0) by reflexivity. rewrite E0. clear.
    unfold len. induction (cases_of evs) as [|c cs IH]; cbn [map sumN length]; [reflexivity|].
    rewrite Nat2N.inj_succ, <- IH. cbn [ktrue ttrue andb b2n]. lia.
Qed.

(* where the testcase of one finished test / script goes, and what it is called *)
Lemma testcase_placement e k tc :
  convert e = CCase k tc ->
  match e with
  | JTestFinished bin name _ _ _ _ => k = KBinary bin /\ tc_name tc = name /\ tc_classname tc = bin
  | JScriptFinished id _ _ _ =>
      k = KScript id /\ tc_name tc = id /\ tc_classname tc = setup_script_prefix ++ id
  | _ => False
  end.
Proof.
  destruct e; cbn [convert]; try discriminate.
  - intros H. destruct (convert_test_ok _ _ _ _ _ _ _ _ H) as [? ? ? _ _ _ _ _ _]. auto.
  - intros H. destruct (convert_script_ok id res store_success store_failure)
      as (tc' & E & Hn & Hc & _). rewrite E in H. injection H as <- <-. auto.
Qed.

(* C17_failure_iff, per testcase *)
Lemma failure_iff bin name first rest ss sf k tc :
  convert_test bin name first rest ss sf = CCase k tc ->
  (is_nonsuccess tc = true <-> jis_success (ja_res (last_attempt first rest)) = false).
Proof.
  intros H. destruct (convert_test_ok _ _ _ _ _ _ _ _ H) as [_ _ _ Hn _ _ _ _ _].
  rewrite Hn. apply negb_true_iff.
Qed.

(* failure vs error: the element is named after the FIRST attempt's result *)
Lemma failure_kind bin name first rest ss sf k tc :
  convert_test bin name first rest ss sf = CCase k tc ->
  jis_success (ja_res (last_attempt first rest)) = false ->
  exists kd, non_success_kind (ja_res first) = Some kd /\ has_kind kd tc = true.
Proof.
  intros H Es. destruct (convert_test_ok _ _ _ _ _ _ _ _ H) as [_ _ _ _ _ _ _ Hk _].
  rewrite Es in Hk. exact Hk.
Qed.

(* C17_reruns *)
Lemma reruns_spec bin name first rest ss sf k tc :
  convert_test bin name first rest ss sf = CCase k tc ->
  len (tc_reruns tc) + 1 = len (attempts first rest)
  /\ ((exists rs, tc_status tc = TSuccess rs) <-> jis_success (ja_res (last_attempt first rest)) = true)
  /\ (if jis_success (ja_res (last_attempt first rest))
      then tc_main_attempt tc = len (attempts first rest)
           /\ map rr_attempt (tc_reruns tc) = nseq 1 (length rest)
      else tc_main_attempt tc = 1 /\ map rr_attempt (tc_reruns tc) = nseq 2 (length rest)).
Proof.
  intros H. destruct (convert_test_ok _ _ _ _ _ _ _ _ H) as [_ _ _ Hn Hl _ Ha _ _].
  split; [|split].
  - unfold len, attempts. rewrite Hl. cbn [length]. lia.
  - unfold is_nonsuccess in Hn. destruct (tc_status tc) as [rs|kd rs];
      destruct (jis_success (ja_res (last_attempt first rest))); cbn in Hn; try discriminate.
    + split; [reflexivity|intros _; eexists; reflexivity].
    + split; [intros [rs' E]; discriminate|discriminate].
  - exact Ha.
Qed.

(* C17_store_iff *)
Lemma store_iff bin name first rest ss sf k tc :
  wf_attempts first rest = true ->
  convert_test bin name first rest ss sf = CCase k tc ->
  (tc_stored tc = true <->
     (ss = true /\ jis_success (ja_res (last_attempt first rest)) = true)
     \/ (sf = true /\ jis_success (ja_res (last_attempt first rest)) = false))
  /\ Forall (fun r => rr_stored r = sf) (tc_reruns tc).
Proof.
  intros Hwf H. destruct (convert_test_ok _ _ _ _ _ _ _ _ H) as [_ _ _ _ _ Hr _ _ Hs].
  split; [|exact Hr]. rewrite Hs, (wf_store_main _ _ Hwf). unfold store_decision.
  destruct ss, sf, (jis_success (ja_res (last_attempt first rest))); cbn; intuition discriminate.
Qed.

Lemma store_iff_script id r ss sf k tc :
  convert_script id r ss sf = CCase k tc ->
  (tc_stored tc = true <->
     (ss = true /\ jis_success r = true) \/ (sf = true /\ jis_success r = false)).
Proof.
  destruct (convert_script_ok id r ss sf) as (tc' & E & _ & _ & _ & _ & Hs). rewrite E.
  intros H; injection H as <- <-. rewrite Hs. unfold store_decision.
  destruct ss, sf, (jis_success r); cbn; intuition discriminate.
Qed.

Lemma failure_counts_aux evs rep n :
  junit_report evs = Some rep ->
  count_if is_nonsuccess (test_cases rep) = failed_count (run_stats n evs)
  /\ count_if is_nonsuccess (script_cases rep) = failed_script_count (run_stats n evs).
Proof.
  intros H. split.
  - rewrite <- cnt_test_cases. exact (agree_failed evs rep n H).
  - rewrite <- cnt_script_cases. exact (agree_failed_scripts evs rep n H).
Qed.

(* C17_consumers_agree *)
Lemma attached_spec l : forall s,
  attached s l = true ->
  forall pre e snap post, l = pre ++ (e, Some snap) :: post ->
    snap = stats_fold s (map fst pre ++ [e]).
Proof.
  induction l as [|[e0 sn0] l IH]; intros s H pre e snap post E.
  - destruct pre; discriminate.
  - cbn [attached] in H. destruct pre as [|p pre]; cbn [app] in E.
    + injection E as -> -> ->. cbn [map app stats_fold fold_left].
      apply andb_true_iff in H as [H _]. apply stats_eqb_eq, H.
    + injection E as <- ->. cbn [map fst app stats_fold fold_left].
      change (fold_left stats_step ?x ?y) with (stats_fold y x).
      eapply IH; [|reflexivity].
      destruct sn0; [apply andb_true_iff in H as [_ H]|]; exact H.
Qed.

Lemma stats_fold_app s a b : stats_fold s (a ++ b) = stats_fold (stats_fold s a) b.
Proof. unfold stats_fold. apply fold_left_app. Qed.

(* ----------------------------------------------------------------- tallies of final results *)

(* The specification side of "the three consumers agree": plain counts over the stream of the
   per-test FINAL results (the last attempt of each finished test) and of the setup-script
   results -- no fold, no testcase, no statistics record. *)
Definition final_of (e : jevent) : option jattempt :=
  match e with JTestFinished _ _ f r _ _ => Some (last_attempt f r) | _ => None end.
(* a finished test whose final attempt satisfies p *)
Definition test_where (p : jattempt -> bool) (e : jevent) : bool :=
  match final_of e with Some a => p a | None => false end.
(* a finished setup script whose result satisfies p *)
Definition script_where (p : jresult -> bool) (e : jevent) : bool :=
  match e with JScriptFinished _ r _ _ => p r | _ => false end.
(* a finished test that needed more than one attempt *)
Definition retried (e : jevent) : bool :=
  match e with JTestFinished _ _ _ (_ :: _) _ _ => true | _ => false end.
Definition is_skipped_event (e : jevent) : bool :=
  match e with JTestSkipped => true | _ => false end.

Definition r_any (_ : jresult) : bool := true.
Definition r_fail (r : jresult) : bool := match r with JFail _ _ => true | _ => false end.
Definition r_exec (r : jresult) : bool := match r with JExecFail => true | _ => false end.
Definition r_timeout (r : jresult) : bool := match r with JTimeout => true | _ => false end.
Definition r_leak (r : jresult) : bool := match r with JLeak => true | _ => false end.
Definition on_res (p : jresult -> bool) (a : jattempt) : bool := p (ja_res a).

(* what one event contributes, counter by counter *)
Definition delta_spec (e : jevent) : stats :=
  mk_stats 0 (b2n (test_where (on_res r_any) e))
           0 (b2n (script_where r_any e))
           (b2n (script_where jis_success e)) (b2n (script_where r_fail e))
           (b2n (script_where r_exec e)) (b2n (script_where r_timeout e))
           (b2n (test_where (on_res jis_success) e))
           (b2n (test_where (fun a => jis_success (ja_res a) && ja_slow a) e))
           (b2n (test_where (on_res jis_success) e && retried e))
           (b2n (test_where (on_res r_fail) e))
           (b2n (test_where (fun a => r_fail (ja_res a) && ja_slow a) e))
           (b2n (test_where (on_res r_timeout) e))
           (b2n (test_where (on_res r_leak) e))
           (b2n (test_where (on_res r_exec) e))
           (b2n (is_skipped_event e)).

(* the statistics record made of the tallies: every counter is the number of events of one kind *)
Definition tally_stats (n : N) (evs : list jevent) : stats :=
  let T p := count_if (test_where p) evs in
  let S p := count_if (script_where p) evs in
  mk_stats n (T (on_res r_any))
           0 (S r_any) (S jis_success) (S r_fail) (S r_exec) (S r_timeout)
           (T (on_res jis_success))
           (T (fun a => jis_success (ja_res a) && ja_slow a))
           (count_if (fun e => test_where (on_res jis_success) e && retried e) evs)
           (T (on_res r_fail))
           (T (fun a => r_fail (ja_res a) && ja_slow a))
           (T (on_res r_timeout)) (T (on_res r_leak)) (T (on_res r_exec))
           (count_if is_skipped_event evs).

Lemma event_delta_spec e : event_delta e = delta_spec e.
Proof.
  destruct e as [bin name first rest ss sf|id res ss sf| |]; unfold delta_spec;
    cbn [event_delta test_where script_where final_of retried is_skipped_event].
  - unfold test_finished_delta, on_res. generalize (last_attempt first rest). intros [res slow].
    cbn [ja_res ja_slow]. destruct res, slow, rest; reflexivity.
  - destruct res; reflexivity.
  - reflexivity.
  - reflexivity.
Qed.

Lemma count_if_cons {A} (f : A -> bool) x l : count_if f (x :: l) = b2n (f x) + count_if f l.
Proof. unfold count_if. cbn [filter]. destruct (f x); cbn [length b2n]; lia. Qed.

Lemma sumN_b2n_count {A} (p : A -> bool) l : sumN (map (fun e => b2n (p e)) l) = count_if p l.
Proof.
  induction l as [|x l IH]; [reflexivity|]. cbn [map sumN]. rewrite IH, count_if_cons. reflexivity.
Qed.

Lemma count_if_false {A} (l : list A) : count_if (fun _ => false) l = 0.
Proof. induction l as [|x l IH]; [reflexivity|]. rewrite count_if_cons, IH. reflexivity. Qed.

(* one counter: a linear projection X whose value on every event's delta is the indicator of p
   counts the events satisfying p *)
Lemma field_tally (X : stats -> N) (p : jevent -> bool) :
  linear X -> (forall e, X (delta_spec e) = b2n (p e)) ->
  forall n evs, X (run_stats n evs) = X (initial_stats n) + count_if p evs.
Proof.
  intros HX Hp n evs. unfold run_stats. rewrite (linear_fold _ HX). f_equal.
  rewrite <- sumN_b2n_count. f_equal. clear - Hp.
  induction evs as [|e evs IH]; [reflexivity|]. cbn [map]. rewrite IH, event_delta_spec, Hp. reflexivity.
Qed.

Lemma stats_ext a b :
  initial_run_count a = initial_run_count b -> finished_count a = finished_count b ->
  ss_initial_count a = ss_initial_count b -> ss_finished_count a = ss_finished_count b ->
  ss_passed a = ss_passed b -> ss_failed a = ss_failed b ->
  ss_exec_failed a = ss_exec_failed b -> ss_timed_out a = ss_timed_out b ->
  passed a = passed b -> passed_slow a = passed_slow b -> flaky a = flaky b ->
  failed a = failed b -> failed_slow a = failed_slow b -> timed_out a = timed_out b ->
  leaky a = leaky b -> exec_failed a = exec_failed b -> skipped a = skipped b -> a = b.
Proof. destruct a, b; cbn. intros; subst; reflexivity. Qed.

(* the statistics the dispatcher accumulates event by event (RunStats::on_test_finished, ...)
   ARE the tallies of the final results, counter by counter, for any stream *)
Lemma run_stats_is_tally n evs : run_stats n evs = tally_stats n evs.
Proof.
  apply stats_ext; unfold tally_stats;
    cbn [initial_run_count finished_count ss_initial_count ss_finished_count ss_passed ss_failed
         ss_exec_failed ss_timed_out passed passed_slow flaky failed failed_slow timed_out leaky
         exec_failed skipped].
  1: rewrite (field_tally initial_run_count (fun _ => false));
       [rewrite count_if_false; cbn; lia|intros ? ?; reflexivity|intros e; reflexivity].
  2: rewrite (field_tally ss_initial_count (fun _ => false));
       [rewrite count_if_false; reflexivity|intros ? ?; reflexivity|intros e; reflexivity].
  all: match goal with
       | |- ?X (run_stats _ _) = count_if ?p _ =>
           rewrite (field_tally X p); [reflexivity|intros ? ?; reflexivity|intros e; reflexivity]
       end.
Qed.

(* ----------------------------------------------------------------- the report's attributes *)

(* an event that yields a testcase; one that yields a <failure> / an <error> element: the test
   (script) ultimately failed, and its FIRST attempt's result maps to that element *)
Definition ev_case (e : jevent) : bool :=
  match e with JTestFinished _ _ _ _ _ _ | JScriptFinished _ _ _ _ => true | _ => false end.
Definition kind_is (r : jresult) (kd : jkind) : bool :=
  match non_success_kind r, kd with
  | Some KFailure, KFailure | Some KError, KError => true
  | _, _ => false
  end.
Definition ev_kind (kd : jkind) (e : jevent) : bool :=
  match e with
  | JTestFinished _ _ f r _ _ => negb (jis_success (ja_res (last_attempt f r))) && kind_is (ja_res f) kd
  | JScriptFinished _ res _ _ => negb (jis_success res) && kind_is res kd
  | _ => false
  end.

Lemma cnt_tally g f p :
  (forall e, match convert e with
             | CCase k tc => g k && f tc = p e
             | CIgnored => p e = false
             | CPanic => True
             end) ->
  forall evs st rep, junit_fold st evs = Some rep -> cnt g f rep = cnt g f st + count_if p evs.
Proof.
  intros Hstep. induction evs as [|e evs IH]; intros st rep H; cbn [junit_fold] in H.
  - injection H as <-. unfold count_if; cbn. lia.
  - rewrite count_if_cons. specialize (Hstep e). destruct (convert e) as [| |k tc]; [|discriminate|].
    + rewrite (IH _ _ H), Hstep. cbn [b2n]. lia.
    + rewrite (IH _ _ H), cnt_add_case, Hstep. lia.
Qed.

Lemma cnt_all_cases f rep : cnt ktrue f rep = count_if f (all_cases rep).
Proof.
  induction rep as [|[k tcs] r IH]; [reflexivity|].
  rewrite cnt_cons, IH. unfold all_cases; cbn [flat_map snd ktrue]. now rewrite count_if_app.
Qed.

Lemma convert_test_kind bin name first rest ss sf k tc kd :
  convert_test bin name first rest ss sf = CCase k tc ->
  has_kind kd tc = negb (jis_success (ja_res (last_attempt first rest))) && kind_is (ja_res first) kd.
Proof.
  unfold convert_test, describe, kind_is.
  destruct (jis_success (ja_res (last_attempt first rest))) eqn:Es.
  - destruct rest as [|b rest'].
    + cbn [mk_reruns]. intros H; injection H as <- <-. destruct kd; reflexivity.
    + destruct (mk_reruns sf 1 (removelast (first :: b :: rest'))); [|discriminate].
      intros H; injection H as <- <-. destruct kd; reflexivity.
  - destruct (non_success_kind (ja_res first)) as [k0|]; [|discriminate].
    destruct (mk_reruns sf 2 rest); [|discriminate].
    intros H; injection H as <- <-. destruct k0, kd; reflexivity.
Qed.

Lemma convert_script_kind id r ss sf k tc kd :
  convert_script id r ss sf = CCase k tc ->
  has_kind kd tc = negb (jis_success r) && kind_is r kd.
Proof.
  unfold convert_script, kind_is. destruct r; cbn; intros H; injection H as <- <-; destruct kd; reflexivity.
Qed.

Lemma convert_not_ignored_test bin name first rest ss sf :
  convert_test bin name first rest ss sf <> CIgnored.
Proof.
  unfold convert_test.
  destruct (match describe first rest with
            | DSuccess single => _ | DFlaky l p => _ | DFailure a _ r => _ end)
    as [[[[[kd m] mn] rr] st0]|]; [|discriminate].
  destruct (mk_reruns sf st0 rr); discriminate.
Qed.

Lemma report_counts_tally evs rep :
  junit_report evs = Some rep ->
  report_counts rep = (count_if ev_case evs,
                       (count_if (ev_kind KFailure) evs, count_if (ev_kind KError) evs)).
Proof.
  intros H. unfold report_counts, suite_counts.
  rewrite <- (count_if_ttrue (all_cases rep)).
  change (count_if (fun _ => true) (all_cases rep)) with (count_if ttrue (all_cases rep)).
  rewrite <- !cnt_all_cases.
  assert (K : forall f p,
             (forall bin name first rest ss sf k tc,
                 convert_test bin name first rest ss sf = CCase k tc ->
                 f tc = p (JTestFinished bin name first rest ss sf)) ->
             (forall id r ss sf k tc,
                 convert_script id r ss sf = CCase k tc -> f tc = p (JScriptFinished id r ss sf)) ->
             p JTestSkipped = false -> p JOther = false ->
             cnt ktrue f rep = count_if p evs).
  { intros f p Ht Hs H1 H2.
    enough (Hstep : forall e, match convert e with
                              | CCase k tc => ktrue k && f tc = p e
                              | CIgnored => p e = false
                              | CPanic => True
                              end)
      by (rewrite (cnt_tally ktrue f p Hstep evs [] rep H); reflexivity).
    intros e. destruct e; cbn [convert]; try assumption.
    - destruct (convert_test bin name first rest store_success store_failure) eqn:E; try exact I.
      + exfalso. exact (convert_not_ignored_test _ _ _ _ _ _ E).
      + cbn [ktrue andb]. eapply Ht; exact E.
    - destruct (convert_script id res store_success store_failure) eqn:E; try exact I.
      + destruct (convert_script_ok id res store_success store_failure) as (tc & E' & _).
        rewrite E' in E. discriminate.
      + cbn [ktrue andb]. eapply Hs; exact E. }
  f_equal; [|f_equal].
  - apply K; try reflexivity; intros; reflexivity.
  - apply K; try reflexivity; intros.
    + eapply convert_test_kind; eassumption.
    + eapply convert_script_kind; eassumption.
  - apply K; try reflexivity; intros.
    + eapply convert_test_kind; eassumption.
    + eapply convert_script_kind; eassumption.
Qed.

Lemma nonsuccess_split l :
  count_if is_nonsuccess l = count_if (has_kind KFailure) l + count_if (has_kind KError) l.
Proof.
  induction l as [|tc l IH]; [reflexivity|]. rewrite !count_if_cons, IH.
  unfold is_nonsuccess, has_kind. destruct (tc_status tc) as [rs|[|] rs]; cbn [b2n]; lia.
Qed.

Lemma nonsuccess_all rep :
  count_if is_nonsuccess (all_cases rep)
  = count_if is_nonsuccess (test_cases rep) + count_if is_nonsuccess (script_cases rep).
Proof.
  unfold all_cases, test_cases, script_cases.
  induction rep as [|[k tcs] r IH]; cbn [flat_map filter fst snd]; [reflexivity|].
  rewrite count_if_app, IH. destruct (is_test_key k); cbn [negb flat_map snd];
    rewrite ?count_if_app; lia.
Qed.

(* C17_consumers_agree: from the event stream alone. The statistics record the dispatcher folds
   (from which the summary line -- summary_counts -- and the exit status -- exit_code of
   summarize_final -- are computed), and the tests / failures / errors attributes of the JUnit
   report the aggregator builds from the same stream, are the same plain tallies of the per-test
   final results; in particular failures + errors is the number that decides the exit status. *)
Lemma consumers_agree n evs rep :
  junit_report evs = Some rep ->
  let s := run_stats n evs in
  s = tally_stats n evs
  /\ report_counts rep = (count_if ev_case evs,
                          (count_if (ev_kind KFailure) evs, count_if (ev_kind KError) evs))
  /\ fst (report_counts rep) = finished_count s + ss_finished_count s
  /\ fst (snd (report_counts rep)) + snd (snd (report_counts rep))
     = failed_count s + failed_script_count s
  /\ (exit_code (summarize_final s) = 0 <->
      fst (snd (report_counts rep)) + snd (snd (report_counts rep)) = 0
      /\ n <= count_if (test_where (on_res r_any)) evs
      /\ count_if (test_where (on_res r_any)) evs <> 0).
Proof.
  intros Hrep s.
  pose proof (run_stats_is_tally n evs) as Ht. fold s in Ht.
  destruct (one_testcase_per_finished evs rep n Hrep) as (_ & _ & _ & _ & Htc & Hsc & _).
  fold s in Htc, Hsc.
  destruct (failure_counts_aux evs rep n Hrep) as (Hf & Hfs). fold s in Hf, Hfs.
  assert (Hfe : fst (snd (report_counts rep)) + snd (snd (report_counts rep))
                = failed_count s + failed_script_count s).
  { unfold report_counts, suite_counts. cbn [fst snd].
    rewrite <- nonsuccess_split, nonsuccess_all, Hf, Hfs. reflexivity. }
  assert (Hn : fst (report_counts rep) = finished_count s + ss_finished_count s).
  { unfold report_counts, suite_counts. cbn [fst].
    rewrite <- Htc, <- Hsc. unfold len, all_cases, test_cases, script_cases. clear.
    induction rep as [|[k tcs] r IH]; cbn [flat_map filter fst snd]; [reflexivity|].
    rewrite app_length. destruct (is_test_key k); cbn [negb flat_map snd];
      rewrite ?app_length; lia. }
  split; [exact Ht|]. split; [exact (report_counts_tally evs rep Hrep)|].
  split; [exact Hn|]. split; [exact Hfe|].
  rewrite Hfe.
  assert (Hfin : finished_count s = count_if (test_where (on_res r_any)) evs)
    by (rewrite Ht; reflexivity).
  assert (Hinit : initial_run_count s = n) by (rewrite Ht; reflexivity).
  assert (Hssi : ss_initial_count s = 0) by (rewrite Ht; reflexivity).
  rewrite <- Hfin. unfold summarize_final, exit_code. rewrite Hinit, Hssi.
  destruct (0 <? failed_script_count s) eqn:E1; [split; [discriminate|lia]|].
  destruct (ss_finished_count s <? 0) eqn:E2; [lia|].
  destruct (0 <? failed_count s) eqn:E3; [split; [discriminate|lia]|].
  destruct (finished_count s <? n) eqn:E4; [split; [discriminate|lia]|].
  destruct (finished_count s =? 0) eqn:E5; [split; [discriminate|lia]|].
  split; [lia|reflexivity].
Qed.

(* ----------------------------------------------------------------- the summary line's tokens *)

Lemma in_single_pair (a b c d : N) : In (c, d) [(a, b)] <-> c = a /\ d = b.
Proof.
  cbn [In]. split.
  - intros [H|[]]. injection H; auto.
  - intros [-> ->]. left; reflexivity.
Qed.

Lemma in_tok_if_pos tag n t v : In (t, v) (tok_if_pos tag n) <-> t = tag /\ v = n /\ 0 < v.
Proof.
  unfold tok_if_pos. destruct (0 <? n) eqn:E.
  - rewrite in_single_pair. apply N.ltb_lt in E. intuition (subst; auto).
  - apply N.ltb_ge in E. cbn [In]. intuition (subst; lia).
Qed.

(* which (tag, number) tokens the summary line shows, for any statistics *)
Lemma summary_tokens_spec (s : stats) tag v :
  In (tag, v) (summary_counts s) <->
  (tag = 0 /\ v = finished_count s)
  \/ (tag = 1 /\ v = initial_run_count s /\ finished_count s <> initial_run_count s)
  \/ (tag = 2 /\ v = passed s)
  \/ (tag = 3 /\ v = passed_slow s /\ 0 < v)
  \/ (tag = 4 /\ v = flaky s /\ 0 < v)
  \/ (tag = 5 /\ v = leaky s /\ 0 < v)
  \/ (tag = 6 /\ v = failed s /\ 0 < v)
  \/ (tag = 7 /\ v = exec_failed s /\ 0 < v)
  \/ (tag = 8 /\ v = timed_out s /\ 0 < v)
  \/ (tag = 9 /\ v = skipped s).
Proof.
  unfold summary_counts. rewrite !in_app_iff, !in_tok_if_pos, !in_single_pair.
  assert (H1 : In (tag, v) (if finished_count s =? initial_run_count s then []
                            else [(1, initial_run_count s)])
               <-> tag = 1 /\ v = initial_run_count s /\ finished_count s <> initial_run_count s).
  { destruct (finished_count s =? initial_run_count s) eqn:E.
    - apply N.eqb_eq in E. cbn [In]. intuition.
    - apply N.eqb_neq in E. rewrite in_single_pair. intuition. }
  rewrite H1. tauto.
Qed.

(* C17_summary_tokens: every number on the summary line is a tally of the per-test final results
   of the stream ("F[/I] tests run: P passed (a slow, b flaky, c leaky), X failed, Y exec failed,
   Z timed out, S skipped"; tags as in Model/Junit.v), and a token is shown exactly when stated *)
Lemma summary_tokens_are_tallies n evs tag v :
  let T p := count_if (test_where p) evs in
  In (tag, v) (summary_counts (run_stats n evs)) <->
  (tag = 0 /\ v = T (on_res r_any))
  \/ (tag = 1 /\ v = n /\ T (on_res r_any) <> n)
  \/ (tag = 2 /\ v = T (on_res jis_success))
  \/ (tag = 3 /\ v = T (fun a => jis_success (ja_res a) && ja_slow a) /\ 0 < v)
  \/ (tag = 4 /\ v = count_if (fun e => test_where (on_res jis_success) e && retried e) evs /\ 0 < v)
  \/ (tag = 5 /\ v = T (on_res r_leak) /\ 0 < v)
  \/ (tag = 6 /\ v = T (on_res r_fail) /\ 0 < v)
  \/ (tag = 7 /\ v = T (on_res r_exec) /\ 0 < v)
  \/ (tag = 8 /\ v = T (on_res r_timeout) /\ 0 < v)
  \/ (tag = 9 /\ v = count_if is_skipped_event evs).
Proof.
  cbv zeta. rewrite run_stats_is_tally. exact (summary_tokens_spec (tally_stats n evs) tag v).
Qed.

(* every snapshot an event carries is the tally of the stream up to and including that event,
   given the decidable predicate [attached] (validated on every real tap; proved of the
   dispatcher model for all histories in Proofs/JunitLink.v) *)
Lemma snapshots_are_tallies n l :
  attached (initial_stats n) l = true ->
  forall pre e snap post, l = pre ++ (e, Some snap) :: post ->
    snap = tally_stats n (map fst pre ++ [e]).
Proof.
  intros H pre e snap post E. rewrite <- run_stats_is_tally. unfold run_stats.
  eapply attached_spec; eassumption.
Qed.

(* every well-formed stream yields a report (the aggregator does not panic) *)
Lemma wf_report_exists evs :
  forallb wf_event evs = true -> exists rep, junit_report evs = Some rep.
Proof. apply junit_fold_total. Qed.

(* ================================================================= stored text vs XML 1.0 Char *)

(* ---- the escape stripper only deletes, except that it may write U+FFFD *)

Lemma feed_out bs : forall st st' o,
  feed st bs = (st', o) -> forall x, In x o -> x = 65533 \/ (x = 10 /\ In 10 bs).
Proof.
  induction bs as [|b r IH]; intros st st' o H x Hx; cbn [feed] in H.
  - injection H as <- <-. destruct Hx.
  - destruct (match st with
              | VGround => (VGround, if b <=? 159 then [] else [65533])
              | _ => let '(st'0, ex) := byte_step st b in
                     (st'0, if ex && (b =? 10) then [10] else [])
              end) as [st1 o1] eqn:E1.
    destruct (feed st1 r) as [st2 o2] eqn:E2. injection H as <- <-.
    apply in_app_or in Hx as [Hx|Hx].
    + assert (G : x = 65533 \/ (x = 10 /\ b = 10)).
      { destruct st;
          try (destruct (byte_step _ b) as [s0 ex]; injection E1 as <- <-;
               destruct (ex && (b =? 10)) eqn:Eb;
               [apply andb_true_iff in Eb as [_ Eb]; apply N.eqb_eq in Eb;
                destruct Hx as [<-|[]]; right; auto|destruct Hx]).
        injection E1 as <- <-. destruct (b <=? 159); [destruct Hx|].
        destruct Hx as [<-|[]]. left; reflexivity. }
      destruct G as [G|[G1 G2]]; [left; exact G|right; split; [exact G1|left; exact G2]].
    + destruct (IH _ _ _ E2 x Hx) as [G|[G1 G2]]; [left; exact G|right; split; [exact G1|right; exact G2]].
Qed.

Lemma utf8_char_lf c : In 10 (utf8_char c) -> c = 10.
Proof.
  unfold utf8_char.
  destruct (c <? 128) eqn:E1; [intros [H|[]]; exact H|].
  destruct (c <? 2048); [cbn [In]; lia|].
  destruct (c <? 65536); cbn [In]; lia.
Qed.

Lemma ansi_strip_keeps_lf : ansi_strip_keeps 10 = true.
Proof. reflexivity. Qed.

Lemma vte_char_out st c st' o :
  vte_char st c = (st', o) ->
  forall x, In x o -> x = 65533 \/ (x = c /\ ansi_strip_keeps c = true).
Proof.
  intros H x Hx.
  assert (F : feed st (utf8_char c) = (st', o) -> x = 65533 \/ (x = c /\ ansi_strip_keeps c = true)).
  { intros Hf. destruct (feed_out _ _ _ _ Hf x Hx) as [G|[G1 G2]]; [left; exact G|].
    apply utf8_char_lf in G2. subst. right; split; reflexivity. }
  destruct st; cbn [vte_char] in H; try (apply F; exact H).
  destruct (c =? 27); [injection H as <- <-; destruct Hx|].
  injection H as <- <-. destruct (ansi_strip_keeps c) eqn:Ek; [|destruct Hx].
  destruct Hx as [<-|[]]. right; split; reflexivity.
Qed.

Lemma ansi_strip_from_out s : forall st x,
  In x (ansi_strip_from st s) -> x = 65533 \/ (In x s /\ ansi_strip_keeps x = true).
Proof.
  induction s as [|c r IH]; intros st x Hx; cbn [ansi_strip_from] in Hx; [destruct Hx|].
  destruct (vte_char st c) as [st' o] eqn:E. apply in_app_or in Hx as [Hx|Hx].
  - destruct (vte_char_out _ _ _ _ E x Hx) as [G|[-> G]]; [left; exact G|].
    right; split; [left; reflexivity|exact G].
  - destruct (IH _ _ Hx) as [G|[G1 G2]]; [left; exact G|right; split; [right; exact G1|exact G2]].
Qed.

Lemma ansi_strip_keeps_fffd : ansi_strip_keeps 65533 = true.
Proof. reflexivity. Qed.

(* XmlString::new: every character of the result is U+FFFD or a character of the input, and is
   one that both stages keep *)
Lemma xmlstring_new_out s x :
  In x (xmlstring_new s) -> (x = 65533 \/ In x s) /\ xmlstring_keeps x = true.
Proof.
  unfold xmlstring_new, ansi_strip. intros H. apply filter_In in H as [H1 H2].
  unfold xmlstring_keeps. rewrite H2, andb_true_r.
  destruct (ansi_strip_from_out _ _ _ H1) as [->|[G1 G2]].
  - split; [left; reflexivity|reflexivity].
  - split; [right; exact G1|exact G2].
Qed.

Lemma known_nonchar_fffd : known_nonchar 65533 = false.
Proof. reflexivity. Qed.

Lemma existsb_false_In {A} (f : A -> bool) l x : existsb f l = false -> In x l -> f x = false.
Proof.
  intros H Hx. destruct (f x) eqn:E; [|reflexivity].
  assert (existsb f l = true) by (apply existsb_exists; exists x; auto). congruence.
Qed.

(* the repaired pipeline *)
Lemma stored_text_out s x :
  In x (stored_text s) -> (x = 65533 \/ In x s) /\ nextest_keeps x = true.
Proof.
  unfold stored_text, xml_safe, nextest_keeps.
  destruct (existsb known_nonchar (xmlstring_new s)) eqn:E; intros H.
  - apply xmlstring_new_out in H as [[->|H1] H2].
    + split; [left; reflexivity|reflexivity].
    + apply filter_In in H1 as [H1 H3]. apply xmlstring_new_out in H1 as [H1 _].
      rewrite H2, H3. split; [exact H1|reflexivity].
  - pose proof (existsb_false_In _ _ _ E H) as Hn. apply xmlstring_new_out in H as [H1 H2].
    rewrite H2, Hn. split; [exact H1|reflexivity].
Qed.

(* per character: what the repaired pipeline keeps is an XML 1.0 Char *)
Lemma nextest_keeps_xml_char c : is_scalar c = true -> nextest_keeps c = true -> xml_char c = true.
Proof.
  unfold is_scalar, nextest_keeps, xmlstring_keeps, ansi_strip_keeps, xmlstring_filter_keeps,
    known_nonchar, in_rng, xml_char.
  lia.
Qed.

(* C17_stored_text_xml_chars: for EVERY captured string (any length, any mix of escape
   sequences, controls, non-characters) every character of the stored text is an XML 1.0 Char *)
Lemma stored_text_xml_chars s :
  forallb is_scalar s = true -> forallb xml_char (stored_text s) = true.
Proof.
  intros Hs. apply forallb_forall. intros x Hx.
  destruct (stored_text_out _ _ Hx) as [[->|Hin] Hk].
  - reflexivity.
  - apply nextest_keeps_xml_char; [|exact Hk].
    rewrite forallb_forall in Hs. apply Hs, Hin.
Qed.

(* ... and none of them is one of the two non-characters, whatever the input is made of *)
Lemma stored_text_no_nonchar s : existsb known_nonchar (stored_text s) = false.
Proof.
  destruct (existsb known_nonchar (stored_text s)) eqn:E; [|reflexivity].
  apply existsb_exists in E as (x & Hx & Hn). apply stored_text_out in Hx as [_ Hk].
  unfold nextest_keeps in Hk. rewrite Hn in Hk. rewrite andb_false_r in Hk. discriminate.
Qed.

(* ---- text without ESC: the pipeline is the per-character filter *)

Lemma ansi_strip_esc_free s :
  forallb (fun c => negb (c =? 27)) s = true -> ansi_strip s = filter ansi_strip_keeps s.
Proof.
  unfold ansi_strip. induction s as [|c r IH]; intros H; [reflexivity|].
  cbn [forallb] in H. apply andb_true_iff in H as [Hc Hr].
  cbn [ansi_strip_from vte_char filter]. apply negb_true_iff in Hc. rewrite Hc.
  rewrite (IH Hr). destruct (ansi_strip_keeps c); reflexivity.
Qed.

Lemma filter_filter {A} (f g : A -> bool) l :
  filter f (filter g l) = filter (fun x => g x && f x) l.
Proof.
  induction l as [|x l IH]; [reflexivity|]. cbn [filter].
  destruct (g x); cbn [filter andb]; [destruct (f x)|]; now rewrite IH.
Qed.

Lemma filter_ext_in {A} (f g : A -> bool) l :
  (forall x, In x l -> f x = g x) -> filter f l = filter g l.
Proof.
  induction l as [|x l IH]; intros H; [reflexivity|]. cbn [filter].
  rewrite (H x (or_introl eq_refl)), IH; [reflexivity|]. intros y Hy. apply H. right; exact Hy.
Qed.

Lemma xmlstring_new_esc_free s :
  forallb (fun c => negb (c =? 27)) s = true -> xmlstring_new s = filter xmlstring_keeps s.
Proof.
  intros H. unfold xmlstring_new. rewrite (ansi_strip_esc_free _ H), filter_filter. reflexivity.
Qed.

Lemma xmlstring_keeps_not_esc c : xmlstring_keeps c = true -> negb (c =? 27) = true.
Proof. unfold xmlstring_keeps, ansi_strip_keeps, xmlstring_filter_keeps, in_rng. lia. Qed.

Lemma stored_text_esc_free s :
  forallb (fun c => negb (c =? 27)) s = true -> stored_text s = filter nextest_keeps s.
Proof.
  intros H. unfold stored_text, xml_safe. rewrite (xmlstring_new_esc_free _ H).
  destruct (existsb known_nonchar (filter xmlstring_keeps s)) eqn:E.
  - rewrite xmlstring_new_esc_free.
    + rewrite !filter_filter. apply filter_ext_in. intros x _. unfold nextest_keeps.
      destruct (xmlstring_keeps x), (known_nonchar x); reflexivity.
    + apply forallb_forall. intros x Hx. apply filter_In in Hx as [Hx _].
      apply filter_In in Hx as [_ Hx]. apply xmlstring_keeps_not_esc, Hx.
  - rewrite <- (filter_filter (fun c => negb (known_nonchar c)) xmlstring_keeps).
    symmetry. transitivity (filter (fun _ => true) (filter xmlstring_keeps s)).
    + apply filter_ext_in. intros x Hx. rewrite (existsb_false_In _ _ _ E Hx). reflexivity.
    + clear. induction (filter xmlstring_keeps s) as [|x l IH]; [reflexivity|].
      cbn [filter]. now rewrite IH.
Qed.

(* the second XmlString::new of xml_safe is the identity: stored_text is the first one followed
   by the removal of the two non-characters *)
Lemma stored_text_is_filter s :
  stored_text s = filter (fun c => negb (known_nonchar c)) (xmlstring_new s).
Proof.
  unfold stored_text, xml_safe.
  set (x := xmlstring_new s).
  assert (Hx : forall c, In c x -> xmlstring_keeps c = true).
  { intros c Hc. apply (xmlstring_new_out s c Hc). }
  destruct (existsb known_nonchar x) eqn:E.
  - rewrite xmlstring_new_esc_free.
    + rewrite filter_filter.
      transitivity (filter (fun c => negb (known_nonchar c) && true) x).
      * apply filter_ext_in. intros c Hc. rewrite (Hx c Hc). reflexivity.
      * apply filter_ext_in. intros c _. apply andb_true_r.
    + apply forallb_forall. intros c Hc. apply filter_In in Hc as [Hc _].
      apply xmlstring_keeps_not_esc, Hx, Hc.
  - symmetry. transitivity (filter (fun _ => true) x).
    + apply filter_ext_in. intros c Hc. rewrite (existsb_false_In _ _ _ E Hc). reflexivity.
    + clear. induction x as [|c l IH]; [reflexivity|]. cbn [filter]. now rewrite IH.
Qed.

(* ---- regression witnesses: quick-junit's XmlString::new ALONE (what nextest relied on before
   a19c0df) keeps U+FFFF, which is not an XML 1.0 Char *)
Lemma xmlstring_alone_not_wellformed_witness :
  exists c, is_scalar c = true /\ xmlstring_keeps c = true /\ xml_char c = false.
Proof. exists 65535. vm_compute. auto. Qed.

Lemma xmlstring_alone_not_wellformed_text :
  exists s, forallb is_scalar s = true /\ forallb xml_char (xmlstring_new s) = false
            /\ forallb xml_char (stored_text s) = true.
Proof. exists [65; 65535; 66; 65534]. vm_compute. auto. Qed.

Lemma xmlstring_outside_known c :
  is_scalar c = true -> known_nonchar c = false -> xmlstring_keeps c = true -> xml_char c = true.
Proof.
  intros H1 H2 H3. apply nextest_keeps_xml_char; [exact H1|].
  unfold nextest_keeps. rewrite H2, H3. reflexivity.
Qed.

(* what survives outside escape sequences: LF, and everything from U+0020 up except the C1
   controls and the two non-characters *)
Lemma nextest_keeps_spec c :
  nextest_keeps c = true <->
  (c = 10 \/ (32 <= c /\ ~ (128 <= c <= 159) /\ c <> 65534 /\ c <> 65535)).
Proof.
  unfold nextest_keeps, xmlstring_keeps, ansi_strip_keeps, xmlstring_filter_keeps, known_nonchar,
    in_rng.
  lia.
Qed.

(* the legal XML characters that are nevertheless removed: TAB, CR and the C1 controls (all
   dropped by the escape stripper; the replace() filter would have kept them) *)
Lemma nextest_lost_chars c :
  (xml_char c = true /\ nextest_keeps c = false) <-> (c = 9 \/ c = 13 \/ 128 <= c <= 159).
Proof.
  unfold nextest_keeps, xmlstring_keeps, ansi_strip_keeps, xmlstring_filter_keeps, known_nonchar,
    in_rng, xml_char.
  lia.
Qed.

Lemma finished_counts_events n evs :
  finished_count (run_stats n evs) = len (finished_ids evs)
  /\ initial_run_count (run_stats n evs) = n.
Proof.
  split; [apply finished_count_is_number_of_finished_events|apply initial_run_count_constant].
Qed.

Lemma failure_counts evs rep n :
  junit_report evs = Some rep ->
  count_if is_nonsuccess (test_cases rep) = failed_count (run_stats n evs)
  /\ count_if is_nonsuccess (script_cases rep) = failed_script_count (run_stats n evs)
  /\ count_if is_flaky_case (test_cases rep) = flaky (run_stats n evs).
Proof.
  intros H. repeat split.
  - rewrite <- cnt_test_cases. exact (agree_failed evs rep n H).
  - rewrite <- cnt_script_cases. exact (agree_failed_scripts evs rep n H).
  - rewrite <- cnt_test_cases. exact (agree_flaky evs rep n H).
Qed.
