(* Multi-step facts about one attempt of one unit, over ALL event histories the environment of
   Model/UnitMonitor.v can produce ([senv_trace]: the dispatcher's alternation plus nextest's own
   stop), for any pause table with a certificate ([cert_with], Proofs/Timers.v):
   Part A  what a single step can do (any table, no certificate);
   Part B  the certificate along a monitored run; pause flags of the clocks a loop owns;
   Part C  the invariants: reported time, slow-timeout interval, grace period, no signal after the
           child's exit, the slow mark;
   Part D  the statements about log entries and final states used by Properties/C09.v, C12.v. *)
From NextestModel Require Import Base.Str Base.Tac Model.Clocks Model.UnitTimers Model.AbsTimers
  Model.UnitMonitor Proofs.Timers Proofs.UnitProps.
From Coq Require Import MSets.MSetPositive.
Open Scope N_scope.

(* ============================================================ Part A: single steps, any table *)

Lemma areq_creq e : areq_of e = creq e.
Proof. reflexivity. Qed.

(* ---- outputs of the pause-table interpreter: job control only; no signal once reaped *)
Lemma exec_pop_outs rp c o r : exec_pop rp c o = Ok r ->
  forall x, In x (snd r) -> is_jc_out x = true /\ (rp = true -> x = OAck).
Proof.
  destruct o; cbn [exec_pop]; intros H x Hin.
  - destruct (clk_pause c k); cbn [obind] in H; [|discriminate]. injection H as <-. destruct Hin.
  - destruct (clk_resume c k); cbn [obind] in H; [|discriminate]. injection H as <-. destruct Hin.
  - injection H as <-. cbn [snd] in Hin. destruct rp; [destruct Hin|].
    destruct Hin as [<-|[]]. split; [reflexivity|discriminate].
  - injection H as <-. cbn [snd] in Hin. destruct rp; [destruct Hin|].
    destruct Hin as [<-|[]]. split; [reflexivity|discriminate].
  - injection H as <-. destruct Hin as [<-|[]]. split; reflexivity.
Qed.

Lemma exec_pops_outs rp os : forall c r, exec_pops rp c os = Ok r ->
  forall x, In x (snd r) -> is_jc_out x = true /\ (rp = true -> x = OAck).
Proof.
  induction os as [|o os IH]; intros c r H x Hin; cbn [exec_pops] in H.
  - injection H as <-. destruct Hin.
  - destruct (exec_pop rp c o) as [r1|] eqn:E1; cbn [obind] in H; [|discriminate].
    destruct (exec_pops rp (fst r1) os) as [r2|] eqn:E2; cbn [obind] in H; [|discriminate].
    injection H as <-. cbn [snd] in Hin. apply in_app_or in Hin as [Hin|Hin].
    + eapply exec_pop_outs; eassumption.
    + eapply IH; eassumption.
Qed.

Lemma exec_arm_outs rp a : forall c r, exec_arm rp c a = Ok r ->
  forall x, In x (snd r) -> is_jc_out x = true /\ (rp = true -> x = OAck).
Proof.
  induction a as [|st a IH]; intros c r H x Hin; cbn [exec_arm] in H.
  - injection H as <-. destruct Hin.
  - match type of H with obind (exec_pops rp c ?b) _ = _ =>
      destruct (exec_pops rp c b) as [r1|] eqn:E1 end; cbn [obind] in H; [|discriminate].
    destruct (exec_arm rp (fst r1) a) as [r2|] eqn:E2; cbn [obind] in H; [|discriminate].
    injection H as <-. cbn [snd] in Hin. apply in_app_or in Hin as [Hin|Hin].
    + eapply exec_pops_outs; eassumption.
    + eapply IH; eassumption.
Qed.

(* ---- a case analysis of [ustep] used by all frame lemmas: the event is not enabled, or it is one
   of the annotated events handled by [ucore] *)
Lemma ustep_cases tbl cfg s e r :
  ustep tbl cfg s e = Ok r ->
  (annotate cfg s e = None /\ r = (s, [])) \/
  (exists ae, annotate cfg s e = Some ae /\ ucore tbl cfg s ae = Ok r).
Proof.
  unfold ustep. destruct (annotate cfg s e) as [ae|].
  - intros H. right. exists ae. split; [reflexivity|exact H].
  - intros H. injection H as <-. left. split; reflexivity.
Qed.

(* the annotated event of a concrete event *)
Lemma annotate_shape cfg s e ae : annotate cfg s e = Some ae ->
  match e with
  | Tick dt => ae = ATick dt
  | FireInterval => ph s = PRunning /\ slc_due (k_isl (ck s)) = true /\ timed_out s = false /\
                    ae = AFireInterval (will_terminate cfg (hits s + 1))
  | FireGrace => (exists x, ph s = PTerminating x) /\ slc_due (k_gsl (ck s)) = true /\ ae = AFireGrace
  | FireLeak => ph s = PExiting /\ ae = AFireLeak
  | ChildExit ok => ae = AChildExit ok
  | FdsDone => ae = AFdsDone
  | Req q => ae = AReq q
  end.
Proof.
  destruct e; cbn [annotate]; intros H; try (injection H as <-; reflexivity).
  - destruct (ph s); try discriminate.
    destruct (slc_due (k_isl (ck s))) eqn:Hd; cbn [andb] in H; [|discriminate].
    destruct (timed_out s) eqn:Ht; cbn [negb] in H; [discriminate|].
    injection H as <-. auto.
  - destruct (ph s) as [|x| | |]; try discriminate.
    destruct (slc_due (k_gsl (ck s))) eqn:Hd; [|discriminate].
    injection H as <-. split; [exists x; reflexivity|auto].
  - destruct (ph s); try discriminate.
    destruct (slc_due (lsl s) && negb (fds_done s)); [|discriminate].
    injection H as <-. auto.
Qed.


(* ---- brute-force case analysis of [ucore] *)
Ltac arm_case H E :=
  match type of H with obind (exec_arm ?rp ?c ?a) _ = _ =>
    destruct (exec_arm rp c a) as [xr|] eqn:E; cbn [obind] in H; [|discriminate]
  end.

Ltac enter_cases H :=
  unfold enter_terminate in H;
  repeat match type of H with
         | context [if reaped ?s then _ else _] => destruct (reaped s) eqn:?Hrp
         | context [if is_kill ?m then _ else _] => destruct (is_kill m) eqn:?Hk
         | context [if grace ?c =? 0 then _ else _] => destruct (grace c =? 0) eqn:?Hg0
         end.

Ltac in_inv :=
  repeat match goal with
         | H : In _ (_ ++ _) |- _ => apply in_app_or in H
         | H : In _ (_ :: _) |- _ => destruct H
         | H : In _ [] |- _ => destruct H
         | H : _ \/ _ |- _ => destruct H
         | H : False |- _ => destruct H
         | H : @eq uout _ _ |- _ => discriminate H
         end.

(* phases only move forward: once the unit has left the running / terminating loops it never
   comes back; PTerminating TSignal is only entered by a shutdown request *)
Lemma ucore_phase tbl cfg s ae s' outs :
  ucore tbl cfg s ae = Ok (s', outs) ->
  (jc_ignored (ph s) = true -> jc_ignored (ph s') = true) /\
  (ph s' = PTerminating TSignal -> ph s = PTerminating TSignal \/ exists r, ae = AReq (RShutdown r)) /\
  (ph s' = PTerminating TTimeout -> ph s = PTerminating TTimeout \/ ae = AFireInterval true) /\
  (timed_out s = true -> timed_out s' = true) /\
  (reaped s = true -> reaped s' = true).
Proof.
  intros H. unfold ucore in H.
  destruct ae as [dt|wt| | |ok| |q].
  - injection H as <- <-. cbn. repeat split; auto; intros; auto.
  - destruct (ph s) as [|x| | |] eqn:Hp; try (injection H as <- <-; rewrite ?Hp; cbn; repeat split; auto; fail).
    destruct wt.
    + enter_cases H; injection H as <- <-; cbn; rewrite ?Hp; repeat split; intros; auto; try discriminate.
    + injection H as <- <-. cbn. rewrite Hp. repeat split; intros; auto; discriminate.
  - destruct (ph s) as [|x| | |] eqn:Hp; injection H as <- <-; cbn; rewrite ?Hp;
      repeat split; intros; auto; try discriminate; destruct x; auto; discriminate.
  - destruct (ph s) as [|x| | |] eqn:Hp; injection H as <- <-; cbn; rewrite ?Hp;
      repeat split; intros; auto; try discriminate.
  - destruct (ph s) as [|x| | |] eqn:Hp; injection H as <- <-; unfold after_exit; cbn; rewrite ?Hp;
      repeat split; intros; auto; try discriminate;
      try (destruct (fds_done s); discriminate); try (destruct (fds_done s); reflexivity);
      destruct x; auto; discriminate.
  - destruct (ph s) as [|x| | |] eqn:Hp; injection H as <- <-; cbn; rewrite ?Hp;
      repeat split; intros; auto; try discriminate.
  - destruct (ph s) as [|x| | |] eqn:Hp; destruct q as [| |sr| |];
      try (arm_case H Earm; injection H as <- <-; cbn; rewrite ?Hp; repeat split; intros; auto; try discriminate; fail);
      try (injection H as <- <-; cbn; rewrite ?Hp; repeat split; intros; auto; try discriminate;
           try (destruct x; auto; discriminate); fail).
    enter_cases H; injection H as <- <-; cbn; rewrite ?Hp; repeat split; intros; auto; try discriminate;
      right; eexists; reflexivity.
Qed.

(* the terminating loop only runs while the child has not been reaped, and no signal is ever sent
   once its exit has been observed *)
Definition term_live (s : ustate) : Prop := is_terminating (ph s) = true -> reaped s = false.

Lemma ucore_signals tbl cfg s ae s' outs :
  ucore tbl cfg s ae = Ok (s', outs) -> term_live s ->
  term_live s' /\ (forall sg, In (OSignal sg) outs -> reaped s = false).
Proof.
  intros H Hl. unfold term_live in *. unfold ucore in H.
  destruct ae as [dt|wt| | |ok| |q].
  - injection H as <- <-. cbn. split; [exact Hl|intros sg []].
  - destruct (ph s) as [|x| | |] eqn:Hp;
      try (injection H as <- <-; rewrite ?Hp; cbn; split; [rewrite ?Hp; auto; discriminate|intros sg []]; fail).
    destruct wt.
    + enter_cases H; injection H as <- <-; cbn; rewrite ?Hp; (split; [intros; auto; try discriminate|]);
        intros sg Hin; in_inv; auto.
    + injection H as <- <-. cbn. rewrite Hp. split; [discriminate|].
      intros sg Hin; destruct (grace cfg =? 0); in_inv.
  - destruct (ph s) as [|x| | |] eqn:Hp; injection H as <- <-; cbn; rewrite ?Hp;
      (split; [intros; auto; try discriminate; try (destruct x; discriminate)|]);
      intros sg Hin; try (destruct Hin; fail). destruct Hin as [_|[]]. apply Hl. reflexivity.
  - destruct (ph s) as [|x| | |] eqn:Hp; injection H as <- <-; cbn; rewrite ?Hp;
      (split; [intros; auto; try discriminate|]); intros sg [].
  - destruct (ph s) as [|x| | |] eqn:Hp; injection H as <- <-; unfold after_exit; cbn; rewrite ?Hp;
      (split; [intros Ht; auto; try discriminate; try (destruct (fds_done s); discriminate);
               try (destruct x; discriminate)|]); intros sg [].
  - destruct (ph s) as [|x| | |] eqn:Hp; injection H as <- <-; cbn; rewrite ?Hp;
      (split; [intros; auto; try discriminate|]); intros sg [].
  - destruct (ph s) as [|x| | |] eqn:Hp; destruct q as [| |sr| |];
      try (arm_case H Earm; injection H as <- <-; cbn; rewrite ?Hp;
           (split; [intros; auto; try discriminate|]);
           intros sg Hin; destruct (reaped s) eqn:Hr; [|reflexivity];
           destruct (exec_arm_outs _ _ _ _ Earm _ Hin) as [_ Hx]; specialize (Hx eq_refl); discriminate);
      try (injection H as <- <-; cbn; rewrite ?Hp; (split; [intros; auto; try discriminate;
           try (destruct x; discriminate)|]); intros sg Hin; try (destruct Hin; fail);
           try (destruct Hin as [Hin|[]]; try discriminate); try (apply Hl; reflexivity); fail).
    enter_cases H; injection H as <- <-; cbn; rewrite ?Hp; (split; [intros; auto; try discriminate|]);
      intros sg Hin; try (destruct Hin; fail); auto.
Qed.

(* the grace-period sleep: created when termination begins, ticked while it lasts, its remaining
   time untouched by everything else *)
Lemma ucore_gsl tbl cfg s ae s' outs :
  ucore tbl cfg s ae = Ok (s', outs) ->
  (is_terminating (ph s) = false -> is_terminating (ph s') = true ->
     k_gsl (ck s') = slc_new (grace cfg) /\ ph s = PRunning /\
     match ae with ATick _ | AReq RStop | AReq RContinue => False | _ => True end) /\
  (is_terminating (ph s) = true -> is_terminating (ph s') = true ->
     ph s' = ph s /\
     match ae with
     | ATick dt => k_gsl (ck s') = slc_tick dt (k_gsl (ck s))
     | AReq RStop | AReq RContinue => rem (k_gsl (ck s')) = rem (k_gsl (ck s))
     | _ => k_gsl (ck s') = k_gsl (ck s)
     end).
Proof.
  intros H. unfold ucore in H.
  destruct ae as [dt|wt| | |ok| |q].
  - injection H as <- <-. cbn. split; [intros H1 H2; congruence|].
    intros H1 _. rewrite H1. split; reflexivity.
  - destruct (ph s) as [|x| | |] eqn:Hp;
      try (injection H as <- <-; rewrite ?Hp; cbn; rewrite ?Hp; split; intros; try discriminate; auto; fail).
    destruct wt.
    + enter_cases H; injection H as <- <-; cbn; rewrite ?Hp; split; intros; try discriminate;
        repeat split; intros; try discriminate; auto.
    + injection H as <- <-. cbn. rewrite Hp. split; intros; discriminate.
  - destruct (ph s) as [|x| | |] eqn:Hp; injection H as <- <-; cbn; rewrite ?Hp;
      split; intros; try discriminate; auto; destruct x; discriminate.
  - destruct (ph s) as [|x| | |] eqn:Hp; injection H as <- <-; cbn; rewrite ?Hp;
      split; intros; try discriminate; auto.
  - destruct (ph s) as [|x| | |] eqn:Hp; injection H as <- <-; unfold after_exit; cbn; rewrite ?Hp;
      split; intros; try discriminate; auto; try (destruct (fds_done s); discriminate); destruct x; discriminate.
  - destruct (ph s) as [|x| | |] eqn:Hp; injection H as <- <-; cbn; rewrite ?Hp;
      split; intros; try discriminate; auto.
  - destruct (ph s) as [|x| | |] eqn:Hp; destruct q as [| |sr| |];
      try (arm_case H Earm; injection H as <- <-; cbn; rewrite ?Hp; split; intros; try discriminate;
           (split; [reflexivity|]);
           pose proof (exec_arm_nums _ _ _ _ Earm) as Hn; unfold nums in Hn; injection Hn as _ _ Hn _ _ _;
           exact Hn);
      try (injection H as <- <-; cbn; rewrite ?Hp; split; intros; try discriminate; auto;
           try (destruct x; discriminate); fail).
    enter_cases H; injection H as <- <-; cbn; rewrite ?Hp; split; intros; try discriminate;
      repeat split; intros; try discriminate; auto.
Qed.

(* the slow mark and the expiry count move together, only at an interval expiry *)
Lemma ucore_slow tbl cfg s ae s' outs :
  ucore tbl cfg s ae = Ok (s', outs) ->
  (slow s' = slow s /\ hits s' = hits s) \/
  (slow s' = true /\ hits s' = hits s + 1 /\ exists wt, ae = AFireInterval wt).
Proof.
  intros H. unfold ucore in H.
  destruct ae as [dt|wt| | |ok| |q].
  - injection H as <- <-. left. split; reflexivity.
  - destruct (ph s) as [|x| | |] eqn:Hp; try (injection H as <- <-; left; split; reflexivity).
    right. destruct wt.
    + enter_cases H; injection H as <- <-; cbn; repeat split; eexists; reflexivity.
    + injection H as <- <-. cbn. repeat split. eexists; reflexivity.
  - destruct (ph s) as [|x| | |]; injection H as <- <-; left; split; try destruct x; reflexivity.
  - destruct (ph s) as [|x| | |]; injection H as <- <-; left; split; reflexivity.
  - destruct (ph s) as [|x| | |]; injection H as <- <-; left; split; try destruct x; reflexivity.
  - destruct (ph s) as [|x| | |]; injection H as <- <-; left; split; reflexivity.
  - destruct (ph s) as [|x| | |] eqn:Hp; destruct q as [| |sr| |];
      try (arm_case H Earm; injection H as <- <-; left; split; reflexivity);
      try (injection H as <- <-; left; split; try destruct x; reflexivity).
    enter_cases H; injection H as <- <-; left; split; reflexivity.
Qed.

(* the running loop is only re-entered from terminate_child; the pause flag of the slow-timeout
   interval sleep is touched by Stop / Continue only *)
Lemma ucore_isl tbl cfg s ae s' outs :
  ucore tbl cfg s ae = Ok (s', outs) ->
  (ph s' = PRunning -> ph s = PRunning \/ is_terminating (ph s) = true) /\
  (match ae with AReq RStop | AReq RContinue => True
   | _ => lpaused (k_isl (ck s')) = lpaused (k_isl (ck s)) end).
Proof.
  intros H. unfold ucore in H.
  destruct ae as [dt|wt| | |ok| |q].
  - injection H as <- <-. cbn. split; [intros X; destruct (ph s); try discriminate; auto|].
    unfold slc_tick. destruct (lpaused (k_isl (ck s))) eqn:E; [exact E|reflexivity].
  - destruct (ph s) as [|x| | |] eqn:Hp; try (injection H as <- <-; rewrite ?Hp; split; [discriminate||auto|reflexivity]; fail).
    destruct wt; [enter_cases H|]; injection H as <- <-; cbn; rewrite ?Hp; split; auto.
  - destruct (ph s) as [|x| | |] eqn:Hp; injection H as <- <-; cbn; rewrite ?Hp; split; auto;
      try discriminate; destruct x; auto.
  - destruct (ph s) as [|x| | |] eqn:Hp; injection H as <- <-; cbn; rewrite ?Hp; split; auto; discriminate.
  - destruct (ph s) as [|x| | |] eqn:Hp; injection H as <- <-; unfold after_exit; cbn; rewrite ?Hp; split; auto;
      try discriminate; try (destruct (fds_done s); discriminate); destruct x; auto.
  - destruct (ph s) as [|x| | |] eqn:Hp; injection H as <- <-; cbn; rewrite ?Hp; split; auto; discriminate.
  - destruct (ph s) as [|x| | |] eqn:Hp; destruct q as [| |sr| |];
      try (arm_case H Earm; injection H as <- <-; cbn; rewrite ?Hp; split; auto; discriminate);
      try (injection H as <- <-; cbn; rewrite ?Hp; split; auto; try discriminate; destruct x; auto; fail).
    enter_cases H; injection H as <- <-; cbn; rewrite ?Hp; split; auto.
Qed.

(* leaving terminate_child: back to the running loop, marked timed out if that was the reason *)
Lemma ucore_leave tbl cfg s ae s' outs x :
  ucore tbl cfg s ae = Ok (s', outs) -> ph s = PTerminating x ->
  ph s' = PTerminating x \/ (ph s' = PRunning /\ (x = TTimeout -> timed_out s' = true)).
Proof.
  intros H Hp. unfold ucore in H. rewrite Hp in H.
  destruct ae as [dt|wt| | |ok| |q].
  - injection H as <- <-. left. exact Hp.
  - injection H as <- <-. left. exact Hp.
  - injection H as <- <-. right. split; [reflexivity|]. intros ->. reflexivity.
  - injection H as <- <-. left. exact Hp.
  - injection H as <- <-. right. split; [reflexivity|]. intros ->. reflexivity.
  - injection H as <- <-. left. exact Hp.
  - destruct q as [| |sr| |];
      try (arm_case H Earm; injection H as <- <-; left; exact Hp);
      try (injection H as <- <-; left; exact Hp).
    injection H as <- <-. right. split; [reflexivity|]. intros ->. reflexivity.
Qed.

(* ---- the same facts for [ustep] on concrete events *)
Lemma ustep_phase tbl cfg s e s' outs :
  ustep tbl cfg s e = Ok (s', outs) ->
  (jc_ignored (ph s) = true -> jc_ignored (ph s') = true) /\
  (ph s' = PTerminating TSignal -> ph s = PTerminating TSignal \/ exists r, e = Req (RShutdown r)) /\
  (ph s' = PTerminating TTimeout -> ph s = PTerminating TTimeout \/ e = FireInterval) /\
  (timed_out s = true -> timed_out s' = true) /\
  (reaped s = true -> reaped s' = true).
Proof.
  intros H. destruct (ustep_cases _ _ _ _ _ H) as [[_ E]|(ae & Ha & Hc)].
  - injection E as -> ->. repeat split; auto.
  - destruct (ucore_phase _ _ _ _ _ _ Hc) as (P1 & P2 & P3 & P4 & P5).
    pose proof (annotate_shape _ _ _ _ Ha) as Hs.
    repeat split; auto.
    + intros X. destruct (P2 X) as [Y|[r Y]]; [left; exact Y|right]. exists r.
      destruct e; try (destruct Hs as (_ & _ & _ & Hs)); try (destruct Hs as (_ & _ & Hs));
        try (destruct Hs as (_ & Hs)); subst ae; try discriminate. injection Y as ->. reflexivity.
    + intros X. destruct (P3 X) as [Y|Y]; [left; exact Y|right].
      destruct e; try (destruct Hs as (_ & _ & _ & Hs)); try (destruct Hs as (_ & _ & Hs));
        try (destruct Hs as (_ & Hs)); subst ae; try discriminate. reflexivity.
Qed.

Lemma ustep_signals tbl cfg s e s' outs :
  ustep tbl cfg s e = Ok (s', outs) -> term_live s ->
  term_live s' /\ (forall sg, In (OSignal sg) outs -> reaped s = false).
Proof.
  intros H Hl. destruct (ustep_cases _ _ _ _ _ H) as [[_ E]|(ae & Ha & Hc)].
  - injection E as -> ->. split; [exact Hl|intros sg []].
  - eapply ucore_signals; eassumption.
Qed.

Lemma ustep_slow tbl cfg s e s' outs :
  ustep tbl cfg s e = Ok (s', outs) ->
  (slow s' = slow s /\ hits s' = hits s) \/ (slow s' = true /\ hits s' = hits s + 1 /\ e = FireInterval).
Proof.
  intros H. destruct (ustep_cases _ _ _ _ _ H) as [[_ E]|(ae & Ha & Hc)].
  - injection E as -> ->. left; split; reflexivity.
  - destruct (ucore_slow _ _ _ _ _ _ Hc) as [X|(X1 & X2 & wt & X3)]; [left; exact X|right].
    repeat split; auto. pose proof (annotate_shape _ _ _ _ Ha) as Hs.
    destruct e; try (destruct Hs as (_ & _ & Hs)); try (destruct Hs as (_ & Hs)); subst ae;
      try discriminate; reflexivity.
Qed.

Lemma ustep_gsl tbl cfg s e s' outs :
  ustep tbl cfg s e = Ok (s', outs) ->
  (is_terminating (ph s) = false -> is_terminating (ph s') = true ->
     k_gsl (ck s') = slc_new (grace cfg) /\ ph s = PRunning /\
     match e with Tick _ | Req RStop | Req RContinue => False | _ => True end) /\
  (is_terminating (ph s) = true -> is_terminating (ph s') = true ->
     ph s' = ph s /\
     match e with
     | Tick dt => k_gsl (ck s') = slc_tick dt (k_gsl (ck s))
     | Req RStop | Req RContinue => rem (k_gsl (ck s')) = rem (k_gsl (ck s))
     | _ => k_gsl (ck s') = k_gsl (ck s)
     end).
Proof.
  intros H. destruct (ustep_cases _ _ _ _ _ H) as [[Hn E]|(ae & Ha & Hc)].
  - injection E as -> ->. split; [intros X Y; congruence|].
    intros _ _. split; [reflexivity|]. destruct e; cbn [annotate] in Hn; try discriminate; reflexivity.
  - destruct (ucore_gsl _ _ _ _ _ _ Hc) as [G1 G2].
    pose proof (annotate_shape _ _ _ _ Ha) as Hs.
    split.
    + intros X Y. destruct (G1 X Y) as (Z1 & Z2 & Z3). repeat split; auto.
      destruct e; try (destruct Hs as (_ & _ & _ & Hs)); try (destruct Hs as (_ & _ & Hs));
        try (destruct Hs as (_ & Hs)); subst ae; exact Z3.
    + intros X Y. destruct (G2 X Y) as [Z1 Z2]. split; [exact Z1|].
      destruct e; try (destruct Hs as (_ & _ & _ & Hs)); try (destruct Hs as (_ & _ & Hs));
        try (destruct Hs as (_ & Hs)); subst ae; exact Z2.
Qed.

(* the attempt's stopwatch (as Proofs/UnitLife.v [ustep_sw], restated here to keep this file
   independent of the whole-life development) *)
Lemma ucore_sw' tbl cfg u ae r : ucore tbl cfg u ae = Ok r ->
  match ae with
  | ATick dt => k_sw (ck (fst r)) = swc_tick dt (k_sw (ck u))
  | AReq RStop | AReq RContinue => act (k_sw (ck (fst r))) = act (k_sw (ck u))
  | _ => k_sw (ck (fst r)) = k_sw (ck u)
  end.
Proof.
  intros H. destruct r as [s' outs]. unfold ucore in H. destruct ae as [dt|wt| | |ok| |q].
  - injection H as <- <-. reflexivity.
  - destruct (ph u) as [|x| | |]; try (injection H as <- <-; reflexivity).
    destruct wt; [enter_cases H|]; injection H as <- <-; reflexivity.
  - destruct (ph u) as [|x| | |]; injection H as <- <-; try destruct x; reflexivity.
  - destruct (ph u) as [|x| | |]; injection H as <- <-; reflexivity.
  - destruct (ph u) as [|x| | |]; injection H as <- <-; try destruct x; reflexivity.
  - destruct (ph u) as [|x| | |]; injection H as <- <-; reflexivity.
  - destruct (ph u) as [|x| | |] eqn:Hp; destruct q as [| |sr| |];
      try (arm_case H Earm; injection H as <- <-; cbn [fst with_ck mk ck];
           pose proof (exec_arm_nums _ _ _ _ Earm) as Hn; unfold nums in Hn; injection Hn as Hn _ _ _ _ _;
           exact Hn);
      try (injection H as <- <-; try destruct x; reflexivity).
    enter_cases H; injection H as <- <-; reflexivity.
Qed.

Lemma ustep_sw' tbl cfg u e r : ustep tbl cfg u e = Ok r ->
  match e with
  | Tick dt => k_sw (ck (fst r)) = swc_tick dt (k_sw (ck u))
  | Req RStop | Req RContinue => act (k_sw (ck (fst r))) = act (k_sw (ck u))
  | _ => k_sw (ck (fst r)) = k_sw (ck u)
  end.
Proof.
  intros H. destruct r as [s' outs]. destruct (ustep_cases _ _ _ _ _ H) as [[Hn E]|(ae & Ha & Hc)].
  - injection E as -> ->. destruct e; cbn [annotate] in Hn; try discriminate; reflexivity.
  - pose proof (ucore_sw' _ _ _ _ _ Hc) as Hs. pose proof (annotate_shape _ _ _ _ Ha) as Hsh.
    destruct e; try (destruct Hsh as (_ & _ & _ & Hsh)); try (destruct Hsh as (_ & _ & Hsh));
      try (destruct Hsh as (_ & Hsh)); subst ae; exact Hs.
Qed.

(* ============================================================ Part B: the certificate along a run *)
Lemma owned_paused_abs s : owned_paused (abs_state s) = owned_paused s.
Proof. unfold owned_paused. cbn. destruct (ph s); reflexivity. Qed.
Lemma owned_running_abs s : owned_running (abs_state s) = owned_running s.
Proof. unfold owned_running. cbn. destruct (ph s); reflexivity. Qed.

Section CertRun.
  Variable tbl : ptable.
  Variable S : PositiveSet.t.
  Hypothesis Hcert : cert_with tbl S = true.

  Notation memS s t cfg := (PositiveSet.mem (code (A s t (grace cfg =? 0))) S = true).

  (* one concrete step from a state whose abstraction is in S: no internal failure, the successor is
     in S again, and a Stop / Continue handled by the running or terminating loop leaves every clock
     that loop owns paused / running *)
  Lemma ustep_cert cfg s t e :
    memS s t cfg -> env_ok t (creq e) = true ->
    exists r, ustep tbl cfg s e = Ok r /\ memS (fst r) (env_next t (creq e)) cfg /\
      (e = Req RStop -> rt_phase (ph s) = true -> owned_paused (fst r) = true /\ ph (fst r) = ph s) /\
      (e = Req RContinue -> rt_phase (ph s) = true -> owned_running (fst r) = true /\ ph (fst r) = ph s).
  Proof.
    intros Hm Hok. unfold ustep.
    destruct (annotate cfg s e) as [ae|] eqn:Ha.
    - destruct (creq_annotate cfg s e ae Ha) as [_ Hc]. destruct (Hc t) as [Hc1 Hc2].
      rewrite Hc1 in Hok.
      pose proof (annotate_guard cfg s e ae Ha) as Hg.
      destruct (core_step_sound tbl S Hcert cfg s t ae Hm Hok Hg) as (Htr & r & Hr & Hm').
      exists r. split; [exact Hr|]. split; [rewrite Hc2; exact Hm'|].
      (* the postconditions *)
      assert (Hpost : forall q, ae = AReq q -> rt_phase (ph s) = true ->
                (q = RStop -> owned_paused (fst r) = true) /\
                (q = RContinue -> owned_running (fst r) = true)).
      { intros q -> Hrt. cbn [norm_ev] in Htr. unfold trans_ok in Htr. cbn [A a_t a_u a_g0] in Htr.
        rewrite Hok, Hg in Htr. cbn [andb] in Htr.
        pose proof (ucore_abs tbl cfg s (AReq q)) as Hsim. rewrite Hr in Hsim.
        destruct (ucore tbl (abs_cfg (grace cfg =? 0)) (abs_state s) (AReq q)) as [r1|]; [|discriminate].
        cbn [omap] in Hsim. assert (Hs : ares r1 = ares r) by congruence. clear Hsim.
        apply (f_equal fst) in Hs. unfold ares in Hs. cbn [fst] in Hs.
        change (ph (abs_state s)) with (ph s) in Htr.
        split; intros ->.
        - rewrite <- owned_paused_abs, <- Hs.
          destruct (ph s) as [|x| | |]; try discriminate;
            apply andb_prop in Htr as [Htr _]; apply andb_prop in Htr as [Htr _]; exact Htr.
        - rewrite <- owned_running_abs, <- Hs.
          destruct (ph s) as [|x| | |]; try discriminate;
            apply andb_prop in Htr as [Htr _]; exact Htr. }
      assert (Hph : forall q, ae = AReq q -> (q = RStop \/ q = RContinue) -> rt_phase (ph s) = true ->
                              ph (fst r) = ph s).
      { intros q -> Hq Hrt. unfold ucore in Hr.
        destruct (ph s) as [|x| | |] eqn:Hp; try discriminate; destruct Hq as [-> | ->];
          (arm_case Hr Earm; injection Hr as <-; cbn [fst with_ck mk ph]; exact Hp). }
      pose proof (annotate_shape _ _ _ _ Ha) as Hsh.
      split; intros -> Hrt; subst ae.
      + split; [apply (proj1 (Hpost RStop eq_refl Hrt) eq_refl)|apply (Hph RStop eq_refl (or_introl eq_refl) Hrt)].
      + split; [apply (proj2 (Hpost RContinue eq_refl Hrt) eq_refl)|apply (Hph RContinue eq_refl (or_intror eq_refl) Hrt)].
    - exists (s, []). split; [reflexivity|]. cbn [fst].
      assert (Hn : env_next t (creq e) = t).
      { destruct e; cbn [annotate] in Ha; try discriminate; reflexivity. }
      rewrite Hn. split; [exact Hm|].
      split; intros ->; cbn [annotate] in Ha; discriminate.
  Qed.
End CertRun.

Lemma ustep_isl tbl cfg s e s' outs :
  ustep tbl cfg s e = Ok (s', outs) ->
  (ph s' = PRunning -> ph s = PRunning \/ is_terminating (ph s) = true) /\
  (match e with Req RStop | Req RContinue => True
   | _ => lpaused (k_isl (ck s')) = lpaused (k_isl (ck s)) end).
Proof.
  intros H. destruct (ustep_cases _ _ _ _ _ H) as [[Hn E]|(ae & Ha & Hc)].
  - injection E as -> ->. split; [auto|]. destruct e; cbn [annotate] in Hn; try discriminate; reflexivity.
  - destruct (ucore_isl _ _ _ _ _ _ Hc) as [I1 I2]. split; [exact I1|].
    pose proof (annotate_shape _ _ _ _ Ha) as Hsh.
    destruct e; try (destruct Hsh as (_ & _ & _ & Hsh)); try (destruct Hsh as (_ & _ & Hsh));
      try (destruct Hsh as (_ & Hsh)); subst ae; exact I2.
Qed.

(* ============================================================ Part C: invariants of a monitored run *)
Lemma mstep_fields chk tbl cfg m e m' :
  mstep chk tbl cfg m e = MOk m' ->
  (chk = true -> senv_ok (m_x m) e = true) /\
  exists outs, ustep tbl cfg (m_u m) e = Ok (m_u m', outs) /\
    let u := m_u m in
    let un := if stopped (m_x m) then 0 else tick_of_u e in
    let rt' := m_rt m + (if rt_phase (ph u) then un else 0) in
    m_x m' = senv_next (m_x m) e /\
    m_upt m' = m_upt m + un /\
    m_rt m' = rt' /\
    m_gun m' = (if negb (is_terminating (ph u)) && is_terminating (ph (m_u m')) then 0 else m_gun m + un) /\
    m_bad m' = (m_bad m || (jc_ignored (ph u) && is_stop_req e)) /\
    m_late m' = (m_late m ||
                 (match ph u with PRunning => true | _ => false end && negb (timed_out u) &&
                  negb (lpaused (k_isl (ck u))) && (rem (k_isl (ck u)) <? tick_of_u e))) /\
    m_log m' = rev (map (fun o => {| le_ev := e; le_ph := ph u; le_out := o; le_rt := rt';
                                     le_gun := m_gun m + un; le_exited := reaped u;
                                     le_sh0 := no_shutdown_yet (m_x m) |}) outs) ++ m_log m.
Proof.
  unfold mstep. intros H.
  destruct (negb chk || senv_ok (m_x m) e) eqn:Hc; [|discriminate].
  split; [intros ->; exact Hc|].
  destruct (ustep tbl cfg (m_u m) e) as [[u' outs]|]; [|discriminate].
  injection H as <-. exists outs. cbn. repeat split; reflexivity.
Qed.

Lemma senv_ok_parts x e : senv_ok x e = true ->
  env_ok (e_t x) (creq e) = true /\
  (forall dt, e = Tick dt -> stopped x = true -> e_quiet x = true -> dt = 0).
Proof.
  unfold senv_ok. intros H. apply andb_prop in H as [H1 H2]. split; [exact H1|].
  intros dt -> Hs Hq. rewrite Hs, Hq in H2. cbn in H2. apply N.eqb_eq. exact H2.
Qed.

Lemma stopped_next x e :
  stopped (senv_next x e) =
  match e with Req RStop => true | Req RContinue => false | _ => stopped x end.
Proof.
  unfold stopped, senv_next. cbn [e_t].
  destruct e as [| | | | | |[| |[]| |]]; reflexivity.
Qed.

Lemma no_shutdown_next x e :
  no_shutdown_yet (senv_next x e) = true -> no_shutdown_yet x = true /\ forall r, e <> Req (RShutdown r).
Proof.
  unfold no_shutdown_yet, senv_next. cbn [e_t].
  destruct e as [| | | | | |[| |[]| |]]; cbn; intros H; (split; [exact H||idtac|intros r; discriminate||idtac]);
    destruct (t_sh (e_t x)); try discriminate; try reflexivity.
Qed.

Section Hist.
  Variable tbl : ptable.
  Variable S : PositiveSet.t.
  Hypothesis Hcert : cert_with tbl S = true.
  Variable cfg : ucfg.
  Hypothesis Hvalid : cfg_valid cfg.

  Notation memS s t := (PositiveSet.mem (code (A s t (grace cfg =? 0))) S = true).

  (* ---------------------------------------------------------- base: abstraction, liveness of the
     child while terminating, the slow mark *)
  Definition inv_base (m : mstate) : Prop :=
    memS (m_u m) (e_t (m_x m)) /\ term_live (m_u m) /\ (slow (m_u m) = true <-> 0 < hits (m_u m)).

  Lemma inv_base_init : inv_base (minit cfg).
  Proof.
    split; [|split].
    - cbn [minit m_u m_x senv0 e_t]. change {| t_jc := JNone; t_sh := Sh0 |} with t0.
      rewrite init_abs. apply cert_init with (tbl := tbl). exact Hcert.
    - intros H; discriminate.
    - cbn. split; [discriminate|lia].
  Qed.

  Lemma inv_base_step m e m' :
    inv_base m -> mstep true tbl cfg m e = MOk m' -> inv_base m'.
  Proof.
    intros (Hm & Hl & Hs) Hstep.
    destruct (mstep_fields _ _ _ _ _ _ Hstep) as (Hok & outs & Hu & Hx & _).
    destruct (senv_ok_parts _ _ (Hok eq_refl)) as [Henv _].
    destruct (ustep_cert tbl S Hcert cfg (m_u m) (e_t (m_x m)) e Hm Henv) as (r & Hr & Hm' & _).
    rewrite Hu in Hr. injection Hr as <-. cbn [fst] in Hm'.
    split; [|split].
    - rewrite Hx. cbn [senv_next e_t]. exact Hm'.
    - apply (ustep_signals _ _ _ _ _ _ Hu Hl).
    - destruct (ustep_slow _ _ _ _ _ _ Hu) as [[E1 E2]|(E1 & E2 & _)].
      + rewrite E1, E2. exact Hs.
      + rewrite E1, E2. split; [lia|reflexivity].
  Qed.

  (* no internal failure under the richer environment either *)
  Lemma mstep_no_panic m e : inv_base m -> mstep true tbl cfg m e <> MPanic.
  Proof.
    intros (Hm & _) H. unfold mstep in H. cbn [negb orb] in H.
    destruct (senv_ok (m_x m) e) eqn:Hok; [|discriminate].
    destruct (senv_ok_parts _ _ Hok) as [Henv _].
    destruct (ustep_cert tbl S Hcert cfg (m_u m) (e_t (m_x m)) e Hm Henv) as (r & Hr & _).
    rewrite Hr in H. destruct r; discriminate.
  Qed.

  (* ---------------------------------------------------------- the attempt's stopwatch *)
  Definition inv_sw (m : mstate) : Prop :=
    let u := m_u m in let x := m_x m in
    (rt_phase (ph u) = true -> stopped x = false -> spaused (k_sw (ck u)) = false) /\
    m_rt m <= act (k_sw (ck u)) /\
    m_rt m <= m_upt m /\
    (m_bad m = false ->
       (stopped x = true -> spaused (k_sw (ck u)) = true) /\ act (k_sw (ck u)) <= m_upt m).

  Lemma inv_sw_init : inv_sw (minit cfg).
  Proof. cbn. repeat split; intros; try reflexivity; try lia; discriminate. Qed.

  Lemma rt_phase_not_ignored p : rt_phase p = negb (jc_ignored p).
  Proof. destruct p; reflexivity. Qed.

  Lemma inv_sw_step m e m' :
    inv_base m -> inv_sw m -> mstep true tbl cfg m e = MOk m' -> inv_sw m'.
  Proof.
    intros (Hm & _) (H3 & Hlo & Hru & Hup) Hstep.
    destruct (mstep_fields _ _ _ _ _ _ Hstep)
      as (Hok & outs & Hu & Hx & Eupt & Ert & _ & Ebad & _).
    cbv zeta in Eupt, Ert.
    destruct (senv_ok_parts _ _ (Hok eq_refl)) as [Henv _].
    destruct (ustep_cert tbl S Hcert cfg (m_u m) (e_t (m_x m)) e Hm Henv)
      as (r & Hr & _ & Hstop & Hcont).
    rewrite Hu in Hr. injection Hr as <-. cbn [fst] in Hstop, Hcont.
    pose proof (ustep_sw' _ _ _ _ _ Hu) as Hsw. cbn [fst] in Hsw.
    destruct (ustep_phase _ _ _ _ _ _ Hu) as (Pign & _).
    unfold inv_sw. rewrite Hx, Eupt, Ert, Ebad, stopped_next.
    (* phases never come back to the running / terminating loops *)
    assert (Hrt' : rt_phase (ph (m_u m')) = true -> rt_phase (ph (m_u m)) = true).
    { rewrite !rt_phase_not_ignored. destruct (jc_ignored (ph (m_u m))) eqn:E; [|reflexivity].
      rewrite (Pign eq_refl). discriminate. }
    assert (Eun : forall b : bool, (if b then 0 else 0) = 0) by (intros []; reflexivity).
    destruct e as [dt| | | |ok| |q]; cbn [tick_of_u is_stop_req]; rewrite ?Bool.andb_false_r, ?Bool.orb_false_r.
    - (* tick *)
      rewrite Hsw. unfold swc_tick.
      destruct (spaused (k_sw (ck (m_u m)))) eqn:Hp.
      + (* paused: the stopwatch stands still *)
        assert (Hnr : rt_phase (ph (m_u m)) = true -> stopped (m_x m) = true).
        { intros X. destruct (stopped (m_x m)) eqn:Y; [reflexivity|]. discriminate (H3 X eq_refl). }
        split; [intros X Y; specialize (Hnr (Hrt' X)); congruence|].
        split; [destruct (rt_phase (ph (m_u m))) eqn:R; [rewrite (Hnr eq_refl)|]; lia|].
        split; [destruct (rt_phase (ph (m_u m))); destruct (stopped (m_x m)); lia|].
        intros Hb. destruct (Hup Hb) as [J Hle]. split; [intros _; exact Hp|].
        destruct (stopped (m_x m)); lia.
      + cbn [act spaused].
        split; [intros _ _; reflexivity|].
        split; [destruct (rt_phase (ph (m_u m))); destruct (stopped (m_x m)); lia|].
        split; [destruct (rt_phase (ph (m_u m))); destruct (stopped (m_x m)); lia|].
        intros Hb. destruct (Hup Hb) as [J Hle].
        destruct (stopped (m_x m)) eqn:Hst; [discriminate (J eq_refl)|].
        split; [discriminate|lia].
    - rewrite Hsw, !Eun, !N.add_0_r. repeat split; auto; try (intros X Y; apply H3; auto; fail); try (apply Hup; assumption).
    - rewrite Hsw, !Eun, !N.add_0_r. repeat split; auto; try (intros X Y; apply H3; auto; fail); try (apply Hup; assumption).
    - rewrite Hsw, !Eun, !N.add_0_r. repeat split; auto; try (intros X Y; apply H3; auto; fail); try (apply Hup; assumption).
    - rewrite Hsw, !Eun, !N.add_0_r. repeat split; auto; try (intros X Y; apply H3; auto; fail); try (apply Hup; assumption).
    - rewrite Hsw, !Eun, !N.add_0_r. repeat split; auto; try (intros X Y; apply H3; auto; fail); try (apply Hup; assumption).
    - rewrite !Eun, !N.add_0_r.
      destruct q as [| |sr| |]; cbn [is_stop_req]; rewrite ?Bool.andb_false_r, ?Bool.orb_false_r, ?Bool.andb_true_r.
      + (* Stop *)
        rewrite Hsw. split; [intros _ X; discriminate|]. split; [exact Hlo|]. split; [exact Hru|].
        intros Hb. apply Bool.orb_false_elim in Hb as [Hb Hig].
        destruct (Hup Hb) as [J Hle]. split; [|exact Hle]. intros _.
        assert (Hrt : rt_phase (ph (m_u m)) = true) by (rewrite rt_phase_not_ignored, Hig; reflexivity).
        destruct (Hstop eq_refl Hrt) as [Hop Hph]. unfold owned_paused in Hop. rewrite Hph in Hop.
        destruct (ph (m_u m)) as [|x| | |]; try discriminate.
        * apply andb_prop in Hop as [X _]. exact X.
        * apply andb_prop in Hop as [X _]. apply andb_prop in X as [X _]. exact X.
      + (* Continue *)
        rewrite Hsw. split.
        * intros X _. destruct (Hcont eq_refl (Hrt' X)) as [Hor Hph]. unfold owned_running in Hor. rewrite Hph in Hor.
          specialize (Hrt' X). destruct (ph (m_u m)) as [|x| | |]; try discriminate.
          -- apply andb_prop in Hor as [Y _]. apply negb_true_iff in Y. exact Y.
          -- apply andb_prop in Hor as [Y _]. apply andb_prop in Y as [Y _]. apply negb_true_iff in Y. exact Y.
        * split; [exact Hlo|]. split; [exact Hru|]. intros Hb. destruct (Hup Hb) as [_ Hle].
          split; [discriminate|exact Hle].
      + rewrite Hsw. repeat split; auto; try (intros X Y; apply H3; auto; fail); try (apply Hup; assumption).
      + rewrite Hsw. repeat split; auto; try (intros X Y; apply H3; auto; fail); try (apply Hup; assumption).
      + rewrite Hsw. repeat split; auto; try (intros X Y; apply H3; auto; fail); try (apply Hup; assumption).
  Qed.

  (* ---------------------------------------------------------- the grace period: the sleep created when
     termination begins has, at every later moment, at least (grace - unpaused time since) left *)
  Definition inv_g (m : mstate) : Prop :=
    is_terminating (ph (m_u m)) = true ->
    grace cfg <= rem (k_gsl (ck (m_u m))) + m_gun m /\
    (stopped (m_x m) = true -> lpaused (k_gsl (ck (m_u m))) = true \/ e_quiet (m_x m) = true).

  Lemma inv_g_init : inv_g (minit cfg).
  Proof. intros H; discriminate. Qed.

  Lemma ltb_0 n : (n <? 0) = false.
  Proof. apply N.ltb_ge. lia. Qed.

  Lemma slc_tick_flag dt s : lpaused (slc_tick dt s) = lpaused s.
  Proof. destruct s as [r b]. destruct b; reflexivity. Qed.

  Lemma slc_tick_0 s : slc_tick 0 s = s.
  Proof. unfold slc_tick. destruct s as [r b]. destruct b; cbn; [reflexivity|]. rewrite N.min_0_l, N.sub_0_r. reflexivity. Qed.

  Lemma quiet_next_other x e :
    match e with Tick _ | Req RStop | Req RContinue => False | _ => True end ->
    e_quiet (senv_next x e) = stopped x.
  Proof. destruct e as [| | | | | |[| |[]| |]]; intros H; try contradiction; reflexivity. Qed.

  Lemma inv_g_step m e m' :
    inv_base m -> inv_g m -> mstep true tbl cfg m e = MOk m' -> inv_g m'.
  Proof.
    intros (Hm & _) Hg Hstep.
    destruct (mstep_fields _ _ _ _ _ _ Hstep) as (Hok & outs & Hu & Hx & _ & _ & Egun & _).
    cbv zeta in Egun.
    destruct (senv_ok_parts _ _ (Hok eq_refl)) as [Henv Hq].
    destruct (ustep_cert tbl S Hcert cfg (m_u m) (e_t (m_x m)) e Hm Henv) as (r & Hr & _ & Hstop & _).
    rewrite Hu in Hr. injection Hr as <-. cbn [fst] in Hstop.
    destruct (ustep_gsl _ _ _ _ _ _ Hu) as [G1 G2].
    intros Ht'. unfold inv_g in Hg. rewrite Hx, Egun, stopped_next.
    destruct (is_terminating (ph (m_u m))) eqn:Ht.
    - (* the termination goes on *)
      destruct (Hg eq_refl) as [Hle Hfl]. destruct (G2 eq_refl Ht') as [Hph Hk]. cbn [negb andb].
      destruct e as [dt| | | |ok| |q]; cbn [tick_of_u].
      + rewrite Hk. cbn [senv_next e_quiet]. split.
        * destruct (stopped (m_x m)) eqn:Hs.
          -- destruct (Hfl eq_refl) as [Hp|Hqq].
             ++ unfold slc_tick. rewrite Hp. lia.
             ++ rewrite (Hq dt eq_refl eq_refl Hqq), slc_tick_0. lia.
          -- unfold slc_tick. destruct (lpaused (k_gsl (ck (m_u m)))); cbn [rem]; lia.
        * intros X. destruct (Hfl X) as [Hp|Hqq]; [left|right; exact Hqq].
          unfold slc_tick. rewrite Hp. exact Hp.
      + rewrite Hk. replace (if stopped (m_x m) then 0 else 0) with 0 by (destruct (stopped (m_x m)); reflexivity).
        rewrite N.add_0_r. split; [exact Hle|]. intros X. right. rewrite quiet_next_other by exact I. exact X.
      + rewrite Hk. replace (if stopped (m_x m) then 0 else 0) with 0 by (destruct (stopped (m_x m)); reflexivity).
        rewrite N.add_0_r. split; [exact Hle|]. intros X. right. rewrite quiet_next_other by exact I. exact X.
      + rewrite Hk. replace (if stopped (m_x m) then 0 else 0) with 0 by (destruct (stopped (m_x m)); reflexivity).
        rewrite N.add_0_r. split; [exact Hle|]. intros X. right. rewrite quiet_next_other by exact I. exact X.
      + rewrite Hk. replace (if stopped (m_x m) then 0 else 0) with 0 by (destruct (stopped (m_x m)); reflexivity).
        rewrite N.add_0_r. split; [exact Hle|]. intros X. right. rewrite quiet_next_other by exact I. exact X.
      + rewrite Hk. replace (if stopped (m_x m) then 0 else 0) with 0 by (destruct (stopped (m_x m)); reflexivity).
        rewrite N.add_0_r. split; [exact Hle|]. intros X. right. rewrite quiet_next_other by exact I. exact X.
      + replace (if stopped (m_x m) then 0 else 0) with 0 by (destruct (stopped (m_x m)); reflexivity).
        rewrite N.add_0_r.
        destruct q as [| |sr| |].
        * (* Stop: the terminating loop pauses its grace sleep *)
          rewrite Hk. split; [exact Hle|]. intros _. left.
          assert (Hrt : rt_phase (ph (m_u m)) = true) by (destruct (ph (m_u m)); try discriminate; reflexivity).
          destruct (Hstop eq_refl Hrt) as [Hop _]. unfold owned_paused in Hop.
          destruct (ph (m_u m')) as [|x| | |]; try discriminate.
          apply andb_prop in Hop as [Hop _]. apply andb_prop in Hop as [_ Hop]. exact Hop.
        * rewrite Hk. split; [exact Hle|]. discriminate.
        * rewrite Hk. split; [exact Hle|]. intros X. right. rewrite quiet_next_other by exact I. exact X.
        * rewrite Hk. split; [exact Hle|]. intros X. right. rewrite quiet_next_other by exact I. exact X.
        * rewrite Hk. split; [exact Hle|]. intros X. right. rewrite quiet_next_other by exact I. exact X.
    - (* the termination begins with this step *)
      destruct (G1 eq_refl Ht') as (Hk & _ & Hne). rewrite Ht'. cbn [negb andb]. rewrite Hk. cbn [rem slc_new].
      split; [lia|]. intros X. right.
      assert (Es : stopped (m_x m) = true).
      { destruct e as [| | | | | |[| |[]| |]]; try contradiction; exact X. }
      rewrite quiet_next_other by exact Hne. exact Es.
  Qed.

  (* ---------------------------------------------------------- the slow-timeout interval, as long as no
     shutdown request has been delivered: it only counts unpaused time spent in the running loop *)
  Definition ivl (u : ustate) (T : N) : Prop :=
    rem_isl u <= period cfg /\
    (will_terminate cfg (hits u) = true -> 0 < hits u -> past_timeout u) /\
    (past_timeout u -> will_terminate cfg (hits u) = true /\ 0 < hits u) /\
    hits u * period cfg <= T /\
    (will_terminate cfg (hits u) = false -> ph u = PRunning ->
       hits u * period cfg + (period cfg - rem_isl u) <= T).

  Definition inv_i (m : mstate) : Prop :=
    no_shutdown_yet (m_x m) = true ->
    ph (m_u m) <> PTerminating TSignal /\
    ivl (m_u m) (m_rt m) /\
    (ph (m_u m) = PRunning -> timed_out (m_u m) = false ->
       lpaused (k_isl (ck (m_u m))) = stopped (m_x m)) /\
    (m_late m = false -> hits (m_u m) = 0 ->
       (ph (m_u m) = PRunning -> m_rt m + rem_isl (m_u m) = period cfg) /\ m_rt m <= period cfg).

  Lemma inv_i_init : inv_i (minit cfg).
  Proof.
    intros _. cbn [minit m_u m_x m_rt m_late].
    split; [discriminate|]. split.
    - unfold ivl, rem_isl, past_timeout. cbn. rewrite (will_terminate_zero cfg Hvalid).
      split; [lia|]. split; [discriminate|]. split; [intros [X|X]; discriminate|]. split; [lia|intros _ _; lia].
    - split; [intros _ _; reflexivity|]. intros _ _. unfold rem_isl. cbn. split; [intros _|]; lia.
  Qed.

  Lemma ustep_tick s dt s' outs :
    ustep tbl cfg s (Tick dt) = Ok (s', outs) ->
    ph s' = ph s /\ timed_out s' = timed_out s /\ hits s' = hits s /\
    k_isl (ck s') = slc_tick dt (k_isl (ck s)) /\ outs = [].
  Proof.
    unfold ustep. cbn [annotate ucore]. intros H. injection H as <- <-. repeat split; reflexivity.
  Qed.

  Lemma not_past_running u :
    ivl u 0 \/ True -> True.
  Proof. trivial. Qed.

  Lemma inv_i_step m e m' :
    inv_base m -> inv_i m -> mstep true tbl cfg m e = MOk m' -> inv_i m'.
  Proof.
    intros (Hm & _) Hi Hstep Hsh'.
    destruct (mstep_fields _ _ _ _ _ _ Hstep)
      as (Hok & outs & Hu & Hx & _ & Ert & _ & _ & Elate & _).
    cbv zeta in Ert.
    rewrite Hx in Hsh'. destruct (no_shutdown_next _ _ Hsh') as [Hsh Hnsd].
    destruct (Hi Hsh) as (Hns & (V1 & V2 & V3 & V4 & V5) & Hfl & Htl). clear Hi.
    destruct (senv_ok_parts _ _ (Hok eq_refl)) as [Henv _].
    destruct (ustep_cert tbl S Hcert cfg (m_u m) (e_t (m_x m)) e Hm Henv) as (r & Hr & _ & Hstop & Hcont).
    rewrite Hu in Hr. injection Hr as <-. cbn [fst] in Hstop, Hcont.
    destruct (ustep_phase _ _ _ _ _ _ Hu) as (_ & P2 & P3 & P4 & _).
    destruct (ustep_isl _ _ _ _ _ _ Hu) as [I1 I2].
    assert (Hns' : ph (m_u m') <> PTerminating TSignal).
    { intros X. destruct (P2 X) as [Y|[r Y]]; [exact (Hns Y)|exact (Hnsd r Y)]. }
    (* a unit that is in the running loop and not past its timeout was there before the step *)
    assert (Hback : will_terminate cfg (hits (m_u m)) = false -> ph (m_u m') = PRunning -> ph (m_u m) = PRunning).
    { intros W X. destruct (I1 X) as [Y|Y]; [exact Y|].
      assert (Z : past_timeout (m_u m)).
      { right. destruct (ph (m_u m)) as [|[]| | |]; try discriminate; [reflexivity|exfalso; apply Hns; reflexivity]. }
      destruct (V3 Z) as [W' _]. congruence. }
    assert (Hnp : will_terminate cfg (hits (m_u m)) = false -> timed_out (m_u m) = false).
    { intros W. destruct (timed_out (m_u m)) eqn:T; [|reflexivity].
      destruct (V3 (or_introl T)) as [W' _]. congruence. }
    split; [exact Hns'|]. rewrite Ert, Hx, stopped_next.
    destruct e as [dt| | | |ok| |q].
    - (* tick *)
      destruct (ustep_tick _ _ _ _ Hu) as (Eph & Eto & Ehits & Eisl & _).
      cbn [tick_of_u]. rewrite Elate.
      assert (Erem : rem_isl (m_u m') = rem (slc_tick dt (k_isl (ck (m_u m))))) by (unfold rem_isl; rewrite Eisl; reflexivity).
      assert (Hpt : past_timeout (m_u m') <-> past_timeout (m_u m)) by (unfold past_timeout; rewrite Eph, Eto; tauto).
      split; [|split].
      + unfold ivl. rewrite Ehits, Erem, Eph. split.
        * unfold slc_tick. unfold rem_isl in V1. destruct (lpaused (k_isl (ck (m_u m)))); cbn [rem]; lia.
        * split; [intros X Y; apply Hpt; apply V2; assumption|].
          split; [intros X; apply V3; apply Hpt; exact X|].
          split; [destruct (rt_phase (ph (m_u m))); destruct (stopped (m_x m)); lia|].
          intros W X. specialize (V5 W X). specialize (Hfl X (Hnp W)). rewrite X. cbn [rt_phase].
          unfold rem_isl in *. unfold slc_tick. rewrite Hfl.
          destruct (stopped (m_x m)); cbn [rem]; lia.
      + intros X Y. rewrite Eph in X. rewrite Eto in Y. rewrite Eisl, slc_tick_flag. apply Hfl; assumption.
      + intros L Z. apply Bool.orb_false_elim in L as [L1 L2]. rewrite Ehits in Z.
        destruct (Htl L1 Z) as [T1 T2]. rewrite Eph, Erem.
        assert (W : will_terminate cfg (hits (m_u m)) = false) by (rewrite Z; apply will_terminate_zero; exact Hvalid).
        destruct (ph (m_u m)) as [|x| | |] eqn:Ep; cbn [rt_phase].
        * specialize (T1 eq_refl). specialize (Hfl eq_refl (Hnp W)). rewrite (Hnp W) in L2. cbn [negb andb] in L2.
          unfold rem_isl in *. unfold slc_tick. rewrite Hfl in *.
          destruct (stopped (m_x m)); cbn [rem negb andb] in *.
          -- split; [intros _|]; lia.
          -- apply N.ltb_ge in L2. cbn [tick_of_u] in L2. split; [intros _|]; lia.
        * exfalso. assert (P : past_timeout (m_u m)).
          { right. destruct x; [exact Ep|exfalso; apply Hns; reflexivity]. }
          destruct (V3 P) as [W' _]. congruence.
        * split; [discriminate|lia].
        * split; [discriminate|lia].
        * split; [discriminate|lia].
    - (* interval expiry *)
      cbn [tick_of_u]. rewrite Elate. cbn [tick_of_u]. rewrite ltb_0, Bool.andb_false_r, Bool.orb_false_r.
      replace (if stopped (m_x m) then 0 else 0) with 0 by (destruct (stopped (m_x m)); reflexivity).
      replace (if rt_phase (ph (m_u m)) then 0 else 0) with 0 by (destruct (rt_phase (ph (m_u m))); reflexivity).
      rewrite N.add_0_r.
      destruct (ustep_cases _ _ _ _ _ Hu) as [[Hn E]|(ae & Ha & Hc)].
      { injection E as E1 _. rewrite E1. split; [unfold ivl; split; [exact V1|split; [exact V2|split; [exact V3|split; assumption]]]|].
        split; assumption. }
      destruct (annotate_shape _ _ _ _ Ha) as (Ep & Hd & Eto & _). clear ae Ha Hc.
      assert (W : will_terminate cfg (hits (m_u m)) = false).
      { destruct (will_terminate cfg (hits (m_u m))) eqn:E; [|reflexivity].
        destruct (N.eq_dec (hits (m_u m)) 0) as [Z|Z].
        - rewrite Z in E. rewrite (will_terminate_zero cfg Hvalid) in E. discriminate.
        - assert (P : past_timeout (m_u m)) by (apply V2; [reflexivity|lia]).
          destruct P as [P|P]; congruence. }
      assert (Hrem0 : rem_isl (m_u m) = 0).
      { unfold slc_due in Hd. apply andb_prop in Hd as [_ Hd]. apply N.eqb_eq in Hd. exact Hd. }
      specialize (V5 W Ep). rewrite Hrem0 in V5.
      destruct (interval_fire tbl cfg (m_u m) Ep Eto Hd) as (r' & Hr' & _ & Hh & Hno & _).
      rewrite Hu in Hr'. injection Hr' as <-. cbn [fst snd] in Hh, Hno.
      destruct (will_terminate cfg (hits (m_u m) + 1)) eqn:W1.
      + (* terminates *)
        assert (Hpt : past_timeout (m_u m') /\ rem_isl (m_u m') = rem_isl (m_u m)).
        { unfold ustep, annotate in Hu. rewrite Ep, Hd, Eto in Hu. cbn [andb negb] in Hu.
          unfold ucore in Hu. rewrite Ep, W1 in Hu. enter_cases Hu; injection Hu as <- _;
            (split; [try (left; reflexivity); right; reflexivity|reflexivity]). }
        destruct Hpt as [Hpt Hr0].
        split; [|split].
        * unfold ivl. rewrite Hh, W1, Hr0, Hrem0. repeat split; try lia; try (intros; assumption); discriminate.
        * intros X Y. destruct Hpt as [Z|Z]; congruence.
        * intros _ Z. rewrite Hh in Z. lia.
      + destruct (Hno eq_refl) as (Ep' & Eto' & _).
        assert (Eisl : k_isl (ck (m_u m')) = slc_reset (period cfg) (k_isl (ck (m_u m)))).
        { unfold ustep, annotate in Hu. rewrite Ep, Hd, Eto in Hu. cbn [andb negb] in Hu.
          unfold ucore in Hu. rewrite Ep, W1 in Hu. injection Hu as <- _. reflexivity. }
        split; [|split].
        * unfold ivl, rem_isl, past_timeout. rewrite Hh, W1, Eisl, Ep', Eto'. cbn [slc_reset rem].
          split; [lia|]. split; [discriminate|]. split; [intros [X|X]; discriminate|].
          split; [lia|intros _ _; lia].
        * intros _ _. rewrite Eisl. cbn [slc_reset lpaused]. apply Hfl; assumption.
        * intros _ Z. rewrite Hh in Z. lia.
    - (* grace expiry *)
      destruct (other_steps_frame tbl cfg (m_u m) FireGrace _ ltac:(intros; discriminate) ltac:(discriminate) Hu)
        as (Hh & Hrm & Hp). cbn [fst] in Hh, Hrm, Hp. cbn [tick_of_u] in *.
      rewrite Elate. cbn [tick_of_u]. rewrite ltb_0, Bool.andb_false_r, Bool.orb_false_r.
      replace (if stopped (m_x m) then 0 else 0) with 0 by (destruct (stopped (m_x m)); reflexivity).
      replace (if rt_phase (ph (m_u m)) then 0 else 0) with 0 by (destruct (rt_phase (ph (m_u m))); reflexivity).
      rewrite N.add_0_r.
      split; [|split].
      + unfold ivl. rewrite Hh, Hrm. split; [exact V1|]. split; [intros X Y; apply Hp; apply V2; assumption|].
        split; [intros X; apply V3; apply Hp; exact X|]. split; [exact V4|].
        intros W X. apply V5; [exact W|apply Hback; assumption].
      + intros X Y. rewrite I2.
        assert (W : will_terminate cfg (hits (m_u m)) = false).
        { destruct (will_terminate cfg (hits (m_u m))) eqn:E; [|reflexivity].
          destruct (N.eq_dec (hits (m_u m)) 0) as [Z|Z].
          - rewrite Z in E. rewrite (will_terminate_zero cfg Hvalid) in E. discriminate.
          - assert (P : past_timeout (m_u m')) by (apply Hp; apply V2; [reflexivity|lia]).
            destruct P as [P|P]; congruence. }
        apply Hfl; [apply Hback; assumption|apply Hnp; exact W].
      + intros L Z. rewrite Hh in Z. destruct (Htl L Z) as [T1 T2]. rewrite Hrm. split; [|exact T2].
        intros X. apply T1. apply Hback; [rewrite Z; apply will_terminate_zero; exact Hvalid|exact X].
    - destruct (other_steps_frame tbl cfg (m_u m) FireLeak _ ltac:(intros; discriminate) ltac:(discriminate) Hu)
        as (Hh & Hrm & Hp). cbn [fst] in Hh, Hrm, Hp. cbn [tick_of_u] in *.
      rewrite Elate. cbn [tick_of_u]. rewrite ltb_0, Bool.andb_false_r, Bool.orb_false_r.
      replace (if stopped (m_x m) then 0 else 0) with 0 by (destruct (stopped (m_x m)); reflexivity).
      replace (if rt_phase (ph (m_u m)) then 0 else 0) with 0 by (destruct (rt_phase (ph (m_u m))); reflexivity).
      rewrite N.add_0_r.
      split; [|split].
      + unfold ivl. rewrite Hh, Hrm. split; [exact V1|]. split; [intros X Y; apply Hp; apply V2; assumption|].
        split; [intros X; apply V3; apply Hp; exact X|]. split; [exact V4|].
        intros W X. apply V5; [exact W|apply Hback; assumption].
      + intros X Y. rewrite I2.
        assert (W : will_terminate cfg (hits (m_u m)) = false).
        { destruct (will_terminate cfg (hits (m_u m))) eqn:E; [|reflexivity].
          destruct (N.eq_dec (hits (m_u m)) 0) as [Z|Z].
          - rewrite Z in E. rewrite (will_terminate_zero cfg Hvalid) in E. discriminate.
          - assert (P : past_timeout (m_u m')) by (apply Hp; apply V2; [reflexivity|lia]).
            destruct P as [P|P]; congruence. }
        apply Hfl; [apply Hback; assumption|apply Hnp; exact W].
      + intros L Z. rewrite Hh in Z. destruct (Htl L Z) as [T1 T2]. rewrite Hrm. split; [|exact T2].
        intros X. apply T1. apply Hback; [rewrite Z; apply will_terminate_zero; exact Hvalid|exact X].
    - destruct (other_steps_frame tbl cfg (m_u m) (ChildExit ok) _ ltac:(intros; discriminate) ltac:(discriminate) Hu)
        as (Hh & Hrm & Hp). cbn [fst] in Hh, Hrm, Hp. cbn [tick_of_u] in *.
      rewrite Elate. cbn [tick_of_u]. rewrite ltb_0, Bool.andb_false_r, Bool.orb_false_r.
      replace (if stopped (m_x m) then 0 else 0) with 0 by (destruct (stopped (m_x m)); reflexivity).
      replace (if rt_phase (ph (m_u m)) then 0 else 0) with 0 by (destruct (rt_phase (ph (m_u m))); reflexivity).
      rewrite N.add_0_r.
      split; [|split].
      + unfold ivl. rewrite Hh, Hrm. split; [exact V1|]. split; [intros X Y; apply Hp; apply V2; assumption|].
        split; [intros X; apply V3; apply Hp; exact X|]. split; [exact V4|].
        intros W X. apply V5; [exact W|apply Hback; assumption].
      + intros X Y. rewrite I2.
        assert (W : will_terminate cfg (hits (m_u m)) = false).
        { destruct (will_terminate cfg (hits (m_u m))) eqn:E; [|reflexivity].
          destruct (N.eq_dec (hits (m_u m)) 0) as [Z|Z].
          - rewrite Z in E. rewrite (will_terminate_zero cfg Hvalid) in E. discriminate.
          - assert (P : past_timeout (m_u m')) by (apply Hp; apply V2; [reflexivity|lia]).
            destruct P as [P|P]; congruence. }
        apply Hfl; [apply Hback; assumption|apply Hnp; exact W].
      + intros L Z. rewrite Hh in Z. destruct (Htl L Z) as [T1 T2]. rewrite Hrm. split; [|exact T2].
        intros X. apply T1. apply Hback; [rewrite Z; apply will_terminate_zero; exact Hvalid|exact X].
    - destruct (other_steps_frame tbl cfg (m_u m) FdsDone _ ltac:(intros; discriminate) ltac:(discriminate) Hu)
        as (Hh & Hrm & Hp). cbn [fst] in Hh, Hrm, Hp. cbn [tick_of_u] in *.
      rewrite Elate. cbn [tick_of_u]. rewrite ltb_0, Bool.andb_false_r, Bool.orb_false_r.
      replace (if stopped (m_x m) then 0 else 0) with 0 by (destruct (stopped (m_x m)); reflexivity).
      replace (if rt_phase (ph (m_u m)) then 0 else 0) with 0 by (destruct (rt_phase (ph (m_u m))); reflexivity).
      rewrite N.add_0_r.
      split; [|split].
      + unfold ivl. rewrite Hh, Hrm. split; [exact V1|]. split; [intros X Y; apply Hp; apply V2; assumption|].
        split; [intros X; apply V3; apply Hp; exact X|]. split; [exact V4|].
        intros W X. apply V5; [exact W|apply Hback; assumption].
      + intros X Y. rewrite I2.
        assert (W : will_terminate cfg (hits (m_u m)) = false).
        { destruct (will_terminate cfg (hits (m_u m))) eqn:E; [|reflexivity].
          destruct (N.eq_dec (hits (m_u m)) 0) as [Z|Z].
          - rewrite Z in E. rewrite (will_terminate_zero cfg Hvalid) in E. discriminate.
          - assert (P : past_timeout (m_u m')) by (apply Hp; apply V2; [reflexivity|lia]).
            destruct P as [P|P]; congruence. }
        apply Hfl; [apply Hback; assumption|apply Hnp; exact W].
      + intros L Z. rewrite Hh in Z. destruct (Htl L Z) as [T1 T2]. rewrite Hrm. split; [|exact T2].
        intros X. apply T1. apply Hback; [rewrite Z; apply will_terminate_zero; exact Hvalid|exact X].
    - (* requests *)
      destruct (other_steps_frame tbl cfg (m_u m) (Req q) _ ltac:(intros; discriminate) ltac:(discriminate) Hu)
        as (Hh & Hrm & Hp). cbn [fst] in Hh, Hrm, Hp. cbn [tick_of_u] in *.
      rewrite Elate. cbn [tick_of_u]. rewrite ltb_0, Bool.andb_false_r, Bool.orb_false_r.
      replace (if stopped (m_x m) then 0 else 0) with 0 by (destruct (stopped (m_x m)); reflexivity).
      replace (if rt_phase (ph (m_u m)) then 0 else 0) with 0 by (destruct (rt_phase (ph (m_u m))); reflexivity).
      rewrite N.add_0_r.
      assert (HW : ph (m_u m') = PRunning -> timed_out (m_u m') = false -> will_terminate cfg (hits (m_u m)) = false).
      { intros X Y. destruct (will_terminate cfg (hits (m_u m))) eqn:E; [|reflexivity].
        destruct (N.eq_dec (hits (m_u m)) 0) as [Z|Z].
        - rewrite Z in E. rewrite (will_terminate_zero cfg Hvalid) in E. discriminate.
        - assert (P : past_timeout (m_u m')) by (apply Hp; apply V2; [reflexivity|lia]).
          destruct P as [P|P]; congruence. }
      split; [|split].
      + unfold ivl. rewrite Hh, Hrm. split; [exact V1|]. split; [intros X Y; apply Hp; apply V2; assumption|].
        split; [intros X; apply V3; apply Hp; exact X|]. split; [exact V4|].
        intros W X. apply V5; [exact W|apply Hback; assumption].
      + intros X Y. pose proof (HW X Y) as W. pose proof (Hback W X) as Ep.
        assert (Hrt : rt_phase (ph (m_u m)) = true) by (rewrite Ep; reflexivity).
        destruct q as [| |sr| |].
        * destruct (Hstop eq_refl Hrt) as [Hop _]. unfold owned_paused in Hop. rewrite X in Hop.
          apply andb_prop in Hop as [_ Hop]. exact Hop.
        * destruct (Hcont eq_refl Hrt) as [Hor _]. unfold owned_running in Hor. rewrite X in Hor.
          apply andb_prop in Hor as [_ Hor]. apply negb_true_iff in Hor. exact Hor.
        * exfalso. eapply Hnsd. reflexivity.
        * rewrite I2. apply Hfl; [exact Ep|apply Hnp; exact W].
        * rewrite I2. apply Hfl; [exact Ep|apply Hnp; exact W].
      + intros L Z. rewrite Hh in Z. destruct (Htl L Z) as [T1 T2]. rewrite Hrm. split; [|exact T2].
        intros X. apply T1. apply Hback; [rewrite Z; apply will_terminate_zero; exact Hvalid|exact X].
  Qed.

  (* ---------------------------------------------------------- what is logged *)
  Definition entry_ok (l : mentry) : Prop :=
    (forall sg, le_out l = OSignal sg -> le_exited l = false) /\
    (le_ev l = FireInterval -> le_sh0 l = true -> forall sg, le_out l = OSignal sg ->
       sg = timeout_method cfg /\
       exists ta, terminate_after cfg = Some ta /\ ta * period cfg <= le_rt l) /\
    (le_ev l = FireGrace -> le_out l = OSignal SigKill -> grace cfg <= le_gun l).

  Definition inv_log (m : mstate) : Prop := forall l, In l (m_log m) -> entry_ok l.

  Lemma inv_log_step m e m' :
    inv_base m -> inv_g m -> inv_i m -> inv_log m -> mstep true tbl cfg m e = MOk m' -> inv_log m'.
  Proof.
    intros (Hm & Hl & _) Hg Hi Hlog Hstep.
    destruct (mstep_fields _ _ _ _ _ _ Hstep)
      as (Hok & outs & Hu & _ & _ & Ert & _ & _ & _ & Elog).
    cbv zeta in Ert, Elog.
    intros l Hin. rewrite Elog in Hin. apply in_app_or in Hin as [Hin|Hin]; [|apply Hlog; exact Hin].
    apply in_rev in Hin. apply in_map_iff in Hin as (o & <- & Ho).
    unfold entry_ok. cbn [le_out le_exited le_ev le_sh0 le_rt le_gun].
    destruct (ustep_signals _ _ _ _ _ _ Hu Hl) as [_ Hsig].
    split; [intros sg ->; eapply Hsig; exact Ho|]. split.
    - (* the interval expired and a signal went out: the timeout termination *)
      intros -> Hsh sg ->. cbn [tick_of_u].
      replace (if stopped (m_x m) then 0 else 0) with 0 by (destruct (stopped (m_x m)); reflexivity).
      replace (if rt_phase (ph (m_u m)) then 0 else 0) with 0 by (destruct (rt_phase (ph (m_u m))); reflexivity).
      rewrite N.add_0_r.
      destruct (ustep_cases _ _ _ _ _ Hu) as [[_ E]|(ae & Ha & _)].
      { injection E as _ E2. rewrite E2 in Ho. destruct Ho. }
      destruct (annotate_shape _ _ _ _ Ha) as (Ep & Hd & Eto & _).
      destruct (Hi Hsh) as (_ & (V1 & V2 & V3 & V4 & V5) & _).
      destruct (interval_fire tbl cfg (m_u m) Ep Eto Hd) as (r' & Hr' & _ & _ & Hno & Hyes).
      rewrite Hu in Hr'. injection Hr' as <-. cbn [fst snd] in Hno, Hyes.
      destruct (will_terminate cfg (hits (m_u m) + 1)) eqn:W1.
      + rewrite (Hyes eq_refl (Hsig _ Ho)) in Ho.
        split.
        * destruct (grace cfg =? 0); in_inv; congruence.
        * assert (W : will_terminate cfg (hits (m_u m)) = false).
          { destruct (will_terminate cfg (hits (m_u m))) eqn:E; [|reflexivity].
            destruct (N.eq_dec (hits (m_u m)) 0) as [Z|Z].
            - rewrite Z in E. rewrite (will_terminate_zero cfg Hvalid) in E. discriminate.
            - assert (P : past_timeout (m_u m)) by (apply V2; [reflexivity|lia]).
              destruct P as [P|P]; congruence. }
          specialize (V5 W Ep).
          assert (Hrem0 : rem_isl (m_u m) = 0).
          { unfold slc_due in Hd. apply andb_prop in Hd as [_ Hd]. apply N.eqb_eq in Hd. exact Hd. }
          rewrite Hrem0 in V5. unfold will_terminate in W1.
          destruct (terminate_after cfg) as [ta|]; [|discriminate].
          exists ta. split; [reflexivity|]. apply N.leb_le in W1. nia.
      + destruct (Hno eq_refl) as (_ & _ & Eo). rewrite Eo in Ho. destruct (grace cfg =? 0); in_inv.
    - (* the grace period ended *)
      intros -> ->. cbn [tick_of_u].
      replace (if stopped (m_x m) then 0 else 0) with 0 by (destruct (stopped (m_x m)); reflexivity).
      rewrite N.add_0_r.
      destruct (ustep_cases _ _ _ _ _ Hu) as [[_ E]|(ae & Ha & _)].
      { injection E as _ E2. rewrite E2 in Ho. destruct Ho. }
      destruct (annotate_shape _ _ _ _ Ha) as ((x & Ep) & Hd & _).
      assert (Ht : is_terminating (ph (m_u m)) = true) by (rewrite Ep; reflexivity).
      destruct (Hg Ht) as [Hle _]. unfold slc_due in Hd. apply andb_prop in Hd as [_ Hd].
      apply N.eqb_eq in Hd. lia.
  Qed.

  (* ---------------------------------------------------------- all of it along a run *)
  Definition hinv (m : mstate) : Prop :=
    inv_base m /\ inv_sw m /\ inv_g m /\ inv_i m /\ inv_log m.

  Lemma hinv_init : hinv (minit cfg).
  Proof.
    split; [apply inv_base_init|]. split; [apply inv_sw_init|]. split; [apply inv_g_init|].
    split; [apply inv_i_init|]. intros l [].
  Qed.

  Lemma hinv_step m e m' : hinv m -> mstep true tbl cfg m e = MOk m' -> hinv m'.
  Proof.
    intros (Hb & Hs & Hg & Hi & Hl) Hstep.
    split; [eapply inv_base_step; eassumption|]. split; [eapply inv_sw_step; eassumption|].
    split; [eapply inv_g_step; eassumption|]. split; [eapply inv_i_step; eassumption|].
    eapply inv_log_step; eassumption.
  Qed.

  Lemma hinv_run : forall es m m', hinv m -> mrun true tbl cfg m es = MOk m' -> hinv m'.
  Proof.
    induction es as [|e es IH]; intros m m' Hi H; cbn [mrun] in H.
    - injection H as <-. exact Hi.
    - destruct (mstep true tbl cfg m e) as [m1| |] eqn:E; try discriminate.
      eapply IH; [|exact H]. eapply hinv_step; eassumption.
  Qed.

  (* an environment-valid history never fails internally: the monitored run exists *)
  Lemma mrun_total : forall es m, hinv m -> senv_trace (m_x m) es = true ->
    exists m', mrun true tbl cfg m es = MOk m'.
  Proof.
    induction es as [|e es IH]; intros m Hi Ht; cbn [mrun].
    - exists m. reflexivity.
    - cbn [senv_trace] in Ht. apply andb_prop in Ht as [Hok Ht].
      destruct (mstep true tbl cfg m e) as [m1| |] eqn:E.
      + destruct (mstep_fields _ _ _ _ _ _ E) as (_ & _ & _ & Hx & _).
        apply IH; [eapply hinv_step; eassumption|rewrite Hx; exact Ht].
      + exfalso. eapply mstep_no_panic; [apply Hi|exact E].
      + exfalso. unfold mstep in E. rewrite Hok in E. cbn [negb orb] in E.
        destruct (ustep tbl cfg (m_u m) e) as [[? ?]|]; discriminate.
  Qed.

  Lemma mrun_env_valid : forall es m m', mrun true tbl cfg m es = MOk m' -> senv_trace (m_x m) es = true.
  Proof.
    induction es as [|e es IH]; intros m m' H; cbn [mrun senv_trace] in *; [reflexivity|].
    destruct (mstep true tbl cfg m e) as [m1| |] eqn:E; try discriminate.
    destruct (mstep_fields _ _ _ _ _ _ E) as (Hok & _ & _ & Hx & _).
    rewrite (Hok eq_refl). cbn [andb]. rewrite <- Hx. eapply IH; exact H.
  Qed.
End Hist.

(* ============================================================ Part D: statements *)

(* no signal is sent to the group once the child's exit has been observed: any pause table, any
   history at all (no environment premise, no certificate) *)
Lemma no_signal_after_exit_any chk tbl cfg : forall es m m',
  term_live (m_u m) ->
  (forall l sg, In l (m_log m) -> le_out l = OSignal sg -> le_exited l = false) ->
  mrun chk tbl cfg m es = MOk m' ->
  forall l sg, In l (m_log m') -> le_out l = OSignal sg -> le_exited l = false.
Proof.
  induction es as [|e es IH]; intros m m' Hl Hlog H; cbn [mrun] in H.
  - injection H as <-. exact Hlog.
  - destruct (mstep chk tbl cfg m e) as [m1| |] eqn:E; try discriminate.
    destruct (mstep_fields _ _ _ _ _ _ E) as (_ & outs & Hu & _ & _ & _ & _ & _ & _ & Elog).
    cbv zeta in Elog.
    destruct (ustep_signals _ _ _ _ _ _ Hu Hl) as [Hl' Hsig].
    apply (IH m1 m' Hl'); [|exact H].
    intros l sg Hin Ho. rewrite Elog in Hin. apply in_app_or in Hin as [Hin|Hin]; [|eapply Hlog; eassumption].
    apply in_rev in Hin. apply in_map_iff in Hin as (o & <- & Hin). cbn [le_out le_exited] in *.
    subst o. eapply Hsig; exact Hin.
Qed.

Theorem no_signal_after_exit chk tbl cfg es m :
  mrun chk tbl cfg (minit cfg) es = MOk m ->
  forall l sg, In l (m_log m) -> le_out l = OSignal sg -> le_exited l = false.
Proof.
  intros H. apply (no_signal_after_exit_any chk tbl cfg es (minit cfg) m); [intros X; discriminate| |exact H].
  intros l sg [].
Qed.

Section Statements.
  Variable tbl : ptable.
  Variable S : PositiveSet.t.
  Hypothesis Hcert : cert_with tbl S = true.
  Variable cfg : ucfg.
  Hypothesis Hvalid : cfg_valid cfg.
  Variable es : list uevent.
  Variable m : mstate.
  Hypothesis Hrun : mrun true tbl cfg (minit cfg) es = MOk m.

  Lemma run_hinv : hinv S cfg m.
  Proof. exact (hinv_run tbl S Hcert cfg Hvalid es (minit cfg) m (hinv_init tbl S Hcert cfg Hvalid) Hrun). Qed.

  (* C09: a timeout termination only after terminate-after periods of UNPAUSED running time *)
  Theorem never_terminated_early_running_time :
    (forall l, In l (m_log m) -> le_ev l = FireInterval -> le_sh0 l = true ->
       forall sg, le_out l = OSignal sg ->
       sg = timeout_method cfg /\
       exists ta, terminate_after cfg = Some ta /\ ta * period cfg <= le_rt l) /\
    (no_shutdown_yet (m_x m) = true -> past_timeout (m_u m) ->
       exists ta, terminate_after cfg = Some ta /\ ta * period cfg <= m_rt m).
  Proof.
    destruct run_hinv as (_ & _ & _ & Hi & Hl). split.
    - intros l Hin. exact (proj1 (proj2 (Hl l Hin))).
    - intros Hsh Hpt. destruct (Hi Hsh) as (_ & (_ & _ & V3 & V4 & _) & _).
      destruct (V3 Hpt) as [W _]. unfold will_terminate in W.
      destruct (terminate_after cfg) as [ta|]; [|discriminate].
      exists ta. split; [reflexivity|]. apply N.leb_le in W. nia.
  Qed.

  (* C09: SIGKILL at the end of the grace period only after >= grace of unpaused time since the
     termination began (timeout or signal) *)
  Theorem kill_not_before_grace :
    forall l, In l (m_log m) -> le_ev l = FireGrace -> le_out l = OSignal SigKill ->
    grace cfg <= le_gun l.
  Proof.
    destruct run_hinv as (_ & _ & _ & _ & Hl). intros l Hin. exact (proj2 (proj2 (Hl l Hin))).
  Qed.

  (* C09: the slow mark, before any shutdown request: set => a full period of unpaused running time
     has passed; not set => (when the environment lets no time pass beyond the deadline without
     delivering the expiry) at most one period has *)
  Theorem slow_iff :
    no_shutdown_yet (m_x m) = true ->
    (slow (m_u m) = true -> period cfg <= m_rt m) /\
    (m_late m = false -> slow (m_u m) = false -> m_rt m <= period cfg).
  Proof.
    intros Hsh. destruct run_hinv as ((_ & _ & Hs) & _ & _ & Hi & _).
    destruct (Hi Hsh) as (_ & (_ & _ & _ & V4 & _) & _ & Htl). split.
    - intros X. apply Hs in X. nia.
    - intros L X. assert (Z : hits (m_u m) = 0).
      { destruct (N.eq_dec (hits (m_u m)) 0) as [Z|Z]; [exact Z|].
        assert (Y : slow (m_u m) = true) by (apply Hs; lia). congruence. }
      exact (proj2 (Htl L Z)).
  Qed.

  (* C12: the reported time is the unpaused time -- exactly, up to the unpaused time spent outside
     the running / terminating loops (leak drain) *)
  Theorem time_excluded :
    m_rt m <= time_taken (m_u m) /\ m_rt m <= m_upt m /\
    (m_bad m = false -> time_taken (m_u m) <= m_upt m).
  Proof.
    destruct run_hinv as (_ & (_ & H1 & H2 & H3) & _). unfold time_taken.
    split; [exact H1|]. split; [exact H2|]. intros Hb. exact (proj2 (H3 Hb)).
  Qed.

  (* C12: the grace-period sleep and the slow-timeout interval only advance on unpaused time *)
  Theorem clocks_advance_on_unpaused_time :
    (is_terminating (ph (m_u m)) = true -> grace cfg <= rem (k_gsl (ck (m_u m))) + m_gun m) /\
    (no_shutdown_yet (m_x m) = true -> ph (m_u m) = PRunning -> timed_out (m_u m) = false ->
       hits (m_u m) * period cfg + (period cfg - rem_isl (m_u m)) <= m_rt m).
  Proof.
    destruct run_hinv as (_ & _ & Hg & Hi & _). split.
    - intros Ht. exact (proj1 (Hg Ht)).
    - intros Hsh Hp Hto. destruct (Hi Hsh) as (_ & (_ & V2 & V3 & _ & V5) & _).
      apply V5; [|exact Hp].
      destruct (will_terminate cfg (hits (m_u m))) eqn:E; [|reflexivity].
      destruct (N.eq_dec (hits (m_u m)) 0) as [Z|Z].
      + rewrite Z in E. rewrite (will_terminate_zero cfg Hvalid) in E. discriminate.
      + assert (P : past_timeout (m_u m)) by (apply V2; [reflexivity|lia]).
        destruct P as [P|P]; congruence.
  Qed.
End Statements.

(* an environment-valid history has a monitored run (no internal failure under the richer
   environment either) *)
Theorem env_valid_runs tbl S cfg es :
  cert_with tbl S = true -> cfg_valid cfg -> senv_trace senv0 es = true ->
  exists m, mrun true tbl cfg (minit cfg) es = MOk m.
Proof.
  intros Hc Hv Ht. exact (mrun_total tbl S Hc cfg Hv es (minit cfg) (hinv_init tbl S Hc cfg Hv) Ht).
Qed.
