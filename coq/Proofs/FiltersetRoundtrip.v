(* parse (print e) = e for the filterset parser / printer model (C20), and its consequences for
   precedence and default matchers (C05). *)
From NextestModel Require Import Base.Str Model.FiltersetAst Model.FiltersetParse.
From NextestModel Require Import Base.Tac Proofs.FiltersetParse.
Open Scope N_scope.

(* ---------------------------------------------------------------- the shape of parsed trees
   level 0: a union chain; level 1: an intersection / difference chain; level 2: not, parentheses
   or a set. The parser's left folds only build left-nested chains whose right operands are one
   level tighter, and Display adds no parentheses of its own. *)
Fixpoint canon (lvl : nat) (e : pexpr) : bool :=
  match e with
  | PUnion _ a b => (lvl =? 0)%nat && canon 0 a && canon 1 b
  | PInter _ a b | PDiff _ a b => (lvl <=? 1)%nat && canon 1 a && canon 2 b
  | PNot _ a => canon 2 a
  | PParens a => canon 0 a
  | PSet _ => true
  end.
Definition canonical (e : pexpr) : Prop := canon 0 e = true.

(* what a parsed tree can contain: non-empty matcher texts made of scalar values, globs and
   regexes the engines accept, a regex that does not end in a backslash (such a regex cannot be
   written between slashes at all), and [implicit] only on the predicate's default matcher *)
Definition text_ok (s : str) : bool :=
  match s with [] => false | _ => forallb valid_scalar s end.
Fixpoint no_trailing_backslash (r : str) : bool :=
  match r with
  | [] => true
  | c :: r' => match r' with [] => negb (c =? 92) | _ :: _ => no_trailing_backslash r' end
  end.
Definition dm_eqb (a b : default_matcher) : bool :=
  match a, b with DmEqual, DmEqual | DmContains, DmContains | DmGlob, DmGlob => true | _, _ => false end.
Definition matcher_ok (SO : syntax_oracle) (dm : default_matcher) (m : matcher) : bool :=
  match m with
  | MEqual s imp => text_ok s && (negb imp || dm_eqb dm DmEqual)
  | MContains s imp => text_ok s && (negb imp || dm_eqb dm DmContains)
  | MGlob g imp => text_ok g && glob_ok SO g && (negb imp || dm_eqb dm DmGlob)
  | MRegex r => match regex_check SO r with RxOk => no_trailing_backslash r | _ => false end
  end.
Definition setdef_ok (SO : syntax_oracle) (d : setdef) : bool :=
  match d with
  | SPackage m | SDeps m | SRdeps m | SBinary m | SBinaryId m => matcher_ok SO DmGlob m
  | SKind m => matcher_ok SO DmEqual m
  | STest m => matcher_ok SO DmContains m
  | _ => true
  end.
Fixpoint printable (SO : syntax_oracle) (e : pexpr) : bool :=
  match e with
  | PNot _ a | PParens a => printable SO a
  | PUnion _ a b | PInter _ a b | PDiff _ a b => printable SO a && printable SO b
  | PSet d => setdef_ok SO d
  end.

(* the classes of expressions the printer got wrong before the three repairs (DESIGN F6 a-c) *)
Definition has_quote (s : str) : bool := existsb (fun c => (c =? 39) || (c =? 34)) s.
Definition leading_sigil (s : str) : bool := match s with c :: _ => is_sigil c | [] => false end.
Fixpoint escaped_slash (escaped : bool) (r : str) : bool :=
  match r with
  | [] => false
  | c :: r' => if escaped then (c =? 47) || escaped_slash false r'
               else escaped_slash (c =? 92) r'
  end.
Definition known_quotes_m (m : matcher) : bool :=
  match m with MEqual s _ | MContains s _ | MGlob s _ => has_quote s | MRegex _ => false end.
Definition known_leading_m (m : matcher) : bool :=
  match m with MEqual s i | MContains s i | MGlob s i => i && leading_sigil s | MRegex _ => false end.
Definition known_regex_m (m : matcher) : bool :=
  match m with MRegex r => escaped_slash false r | _ => false end.
Definition on_matcher (f : matcher -> bool) (d : setdef) : bool :=
  match d with
  | SPackage m | SDeps m | SRdeps m | SKind m | SBinary m | SBinaryId m | STest m => f m
  | _ => false
  end.
Fixpoint any_set (f : setdef -> bool) (e : pexpr) : bool :=
  match e with
  | PNot _ a | PParens a => any_set f a
  | PUnion _ a b | PInter _ a b | PDiff _ a b => any_set f a || any_set f b
  | PSet d => f d
  end.
Definition Known_quotes (e : pexpr) : bool := any_set (on_matcher known_quotes_m) e.
Definition Known_leading (e : pexpr) : bool := any_set (on_matcher known_leading_m) e.
Definition Known_regex_pair (e : pexpr) : bool := any_set (on_matcher known_regex_m) e.

(* an expression a printer with the repairs [fx] handles: each missing repair excludes its class *)
Definition matcher_safe (fx : pfix) (m : matcher) : bool :=
  (fx_quotes fx || negb (known_quotes_m m)) &&
  (fx_leading fx || negb (known_leading_m m)) &&
  (fx_regex fx || negb (known_regex_m m)).
Definition safe_for (fx : pfix) (e : pexpr) : bool :=
  negb (any_set (on_matcher (fun m => negb (matcher_safe fx m))) e).

(* ---------------------------------------------------------------- fuel does not matter *)

Section Ext.
Variable SO : syntax_oracle.
Variables b1 b2 : str -> option eres.
Variable L : nat.
Hypothesis Hgood : forall s, (length s <= L)%nat ->
  match b1 s with Some res => egood SO s res | None => True end.
Hypothesis Hext : forall s, (length s <= L)%nat -> b1 s = b2 s.

Lemma expect_basic_ext s : (length s <= L)%nat -> expect_basic b1 s = expect_basic b2 s.
Proof. intros H. unfold expect_basic. rewrite (Hext s H). reflexivity. Qed.

Lemma and_loop_nil (b : str -> option eres) k acc : and_loop b k acc [] = (acc, [], []).
Proof. destruct k; reflexivity. Qed.
Lemma or_loop_nil (b : str -> option eres) k acc : or_loop b k acc [] = (acc, [], []).
Proof. destruct k; reflexivity. Qed.

Lemma and_loop_ext k1 : forall k2 acc s,
  (length s <= L)%nat -> (length s <= k1)%nat -> (length s <= k2)%nat ->
  and_loop b1 k1 acc s = and_loop b2 k2 acc s.
Proof.
  induction k1 as [|k1 IH]; intros k2 acc s HL H1 H2.
  - destruct s; [|cbn in H1; lia]. rewrite !and_loop_nil. reflexivity.
  - destruct k2 as [|k2]; [destruct s; [|cbn in H2; lia]; rewrite !and_loop_nil; reflexivity|].
    cbn [and_loop]. pose proof (parse_and_op_good SO s) as Hop.
    destruct (parse_and_op s) as [[[op s1] e1]|]; [|reflexivity].
    destruct Hop as [S1 [L1 _]].
    rewrite <- (expect_basic_ext s1 ltac:(lia)).
    pose proof (expect_basic_good SO b1 L Hgood s1 ltac:(lia)) as Hb.
    destruct (expect_basic b1 s1) as [[r s2] e2]. destruct Hb as [[S2 _] _].
    rewrite (IH k2 (combine_and op acc r) s2 ltac:(lia) ltac:(lia) ltac:(lia)). reflexivity.
Qed.

Lemma and_expr_ext k1 k2 s :
  (length s <= L)%nat -> (length s <= k1)%nat -> (length s <= k2)%nat ->
  and_expr b1 k1 s = and_expr b2 k2 s.
Proof.
  intros HL H1 H2. unfold and_expr. rewrite <- (expect_basic_ext s HL).
  pose proof (expect_basic_good SO b1 L Hgood s HL) as Hb.
  destruct (expect_basic b1 s) as [[r s1] e1]. destruct Hb as [[S1 _] _].
  rewrite (and_loop_ext k1 k2 r s1 ltac:(lia) ltac:(lia) ltac:(lia)). reflexivity.
Qed.

Lemma or_loop_ext k1 : forall k2 acc s,
  (length s <= L)%nat -> (length s <= k1)%nat -> (length s <= k2)%nat ->
  or_loop b1 k1 acc s = or_loop b2 k2 acc s.
Proof.
  induction k1 as [|k1 IH]; intros k2 acc s HL H1 H2.
  - destruct s; [|cbn in H1; lia]. rewrite !or_loop_nil. reflexivity.
  - destruct k2 as [|k2]; [destruct s; [|cbn in H2; lia]; rewrite !or_loop_nil; reflexivity|].
    cbn [or_loop]. pose proof (parse_or_op_good SO s) as Hop.
    destruct (parse_or_op s) as [[[op s1] e1]|]; [|reflexivity].
    destruct Hop as [S1 [L1 _]].
    rewrite <- (and_expr_ext (S k1) (S k2) s1 ltac:(lia) ltac:(lia) ltac:(lia)).
    pose proof (and_expr_good SO b1 L Hgood (S k1) s1 ltac:(lia) ltac:(lia)) as Hb.
    destruct (and_expr b1 (S k1) s1) as [[r s2] e2]. destruct Hb as [[S2 _] _].
    rewrite (IH k2 (combine_or op acc r) s2 ltac:(lia) ltac:(lia) ltac:(lia)). reflexivity.
Qed.

Lemma or_expr_ext k1 k2 s :
  (length s <= L)%nat -> (length s <= k1)%nat -> (length s <= k2)%nat ->
  or_expr b1 k1 s = or_expr b2 k2 s.
Proof.
  intros HL H1 H2. unfold or_expr. rewrite <- (and_expr_ext k1 k2 s HL H1 H2).
  pose proof (and_expr_good SO b1 L Hgood k1 s HL H1) as Hb.
  destruct (and_expr b1 k1 s) as [[r s1] e1]. destruct Hb as [[S1 _] _].
  rewrite (or_loop_ext k1 k2 r s1 ltac:(lia) ltac:(lia) ltac:(lia)). reflexivity.
Qed.
End Ext.

Lemma basic_fuel SO n1 : forall n2 s,
  (length s < n1)%nat -> (length s < n2)%nat -> basic SO n1 s = basic SO n2 s.
Proof.
  induction n1 as [|n1 IH]; intros n2 s H1 H2; [lia|]. destruct n2 as [|n2]; [lia|].
  cbn [basic]. pose proof (ws_skip_sub s) as Hw. set (s1 := ws_skip s) in *.
  destruct (parse_set_def SO s1) as [[[d rest] es]|]; [reflexivity|].
  destruct (parse_not_op s1) as [[op s2]|] eqn:En.
  { destruct (parse_not_op_lt _ _ _ En) as [_ L2].
    rewrite (IH n2 s2 ltac:(destruct Hw; lia) ltac:(destruct Hw; lia)). reflexivity. }
  destruct s1 as [|c s2]; [reflexivity|]. destruct (c =? 40); [|reflexivity].
  assert (Hl : (length s2 < length s)%nat) by (destruct Hw as [Hw _]; cbn [length] in Hw; lia).
  rewrite (or_expr_ext SO (basic SO n1) (basic SO n2) (Nat.min n1 n2 - 1)%nat
             (fun x Hx => basic_good SO n1 x ltac:(lia))
             (fun x Hx => IH n2 x ltac:(lia) ltac:(lia))
             n1 n2 s2 ltac:(lia) ltac:(lia) ltac:(lia)).
  reflexivity.
Qed.

(* ---------------------------------------------------------------- printed characters and strings *)


Lemma hex_digit_ok d : d < 16 -> is_hex (hex_digit d) = true /\ hex_val (hex_digit d) = d.
Proof.
  intros H. unfold hex_digit, is_hex, hex_val.
  destruct (N.ltb_spec d 10).
  - split.
    + replace ((48 <=? 48 + d) && (48 + d <=? 57)) with true; [reflexivity|].
      symmetry. apply Bool.andb_true_iff. split; apply N.leb_le; lia.
    + replace (48 + d <=? 57) with true by (symmetry; apply N.leb_le; lia). lia.
  - split.
    + replace ((97 <=? 87 + d) && (87 + d <=? 102)) with true; [apply Bool.orb_true_r|].
      symmetry. apply Bool.andb_true_iff. split; apply N.leb_le; lia.
    + replace (87 + d <=? 57) with false by (symmetry; apply N.leb_gt; lia).
      replace (87 + d <=? 70) with false by (symmetry; apply N.leb_gt; lia). lia.
Qed.

Definition hex_step (a d : N) : N := a * 16 + hex_val d.

Lemma hex_digits_spec n : forall v acc, v < 16 ^ N.of_nat n -> (0 < n)%nat ->
  exists ds, hex_digits n v acc = ds ++ acc /\ forallb is_hex ds = true /\
             (1 <= length ds <= n)%nat /\
             forall a, fold_left hex_step ds a = a * 16 ^ N.of_nat (length ds) + v.
Proof.
  induction n as [|n IH]; intros v acc Hv Hn; [lia|].
  cbn [hex_digits].
  assert (Hd : v mod 16 < 16) by (apply N.mod_lt; lia).
  destruct (hex_digit_ok _ Hd) as [Hh Hval].
  destruct (N.eqb_spec (v / 16) 0) as [Hz|Hz].
  - exists [hex_digit (v mod 16)]. split; [reflexivity|]. split; [cbn; rewrite Hh; reflexivity|].
    split; [cbn; lia|]. intros a. cbn [fold_left length]. unfold hex_step. rewrite Hval.
    change (16 ^ N.of_nat 1) with 16. lia.
  - destruct n as [|n].
    + exfalso. change (16 ^ N.of_nat 1) with 16 in Hv. apply Hz. apply N.div_small. exact Hv.
    + assert (Hv' : v / 16 < 16 ^ N.of_nat (S n)).
      { apply N.div_lt_upper_bound; [lia|]. rewrite <- N.pow_succ_r'. rewrite <- Nnat.Nat2N.inj_succ. exact Hv. }
      destruct (IH (v / 16) (hex_digit (v mod 16) :: acc) Hv' ltac:(lia)) as [ds [E [Hf [Hl Hfold]]]].
      exists (ds ++ [hex_digit (v mod 16)]). split; [rewrite E, <- app_assoc; reflexivity|].
      split; [rewrite forallb_app, Hf; cbn; rewrite Hh; reflexivity|].
      split; [rewrite app_length; cbn; lia|].
      intros a. rewrite fold_left_app. cbn [fold_left]. unfold hex_step at 1. rewrite Hfold, Hval.
      rewrite app_length. cbn [length]. rewrite Nat.add_1_r, Nnat.Nat2N.inj_succ, N.pow_succ_r'.
      pose proof (N.div_mod v 16 ltac:(lia)). lia.
Qed.

Lemma take_hex_app ds : forall n x rest,
  forallb is_hex ds = true -> (length ds <= n)%nat -> is_hex x = false ->
  take_hex n (ds ++ x :: rest) = ds.
Proof.
  induction ds as [|d ds IH]; intros n x rest Hf Hl Hx.
  - destruct n; cbn [app take_hex]; [reflexivity|]. rewrite Hx. reflexivity.
  - cbn [forallb] in Hf. apply Bool.andb_true_iff in Hf. destruct Hf as [Hd Hf].
    destruct n; [cbn in Hl; lia|]. cbn [app take_hex]. rewrite Hd. f_equal.
    apply IH; [exact Hf|cbn in Hl; lia|exact Hx].
Qed.

Lemma skipn_app_exact {A} (a b : list A) : skipn (length a) (a ++ b) = b.
Proof. induction a; cbn; auto. Qed.

Lemma valid_scalar_lt c : valid_scalar c = true -> c < 16 ^ N.of_nat 6.
Proof.
  unfold valid_scalar. change (16 ^ N.of_nat 6) with 16777216. intros H.
  apply Bool.orb_true_iff in H. destruct H as [H|H].
  - apply N.ltb_lt in H. lia.
  - apply Bool.andb_true_iff in H. destruct H as [_ H]. apply N.leb_le in H. lia.
Qed.

Lemma esc_decode_unicode c rest :
  valid_scalar c = true ->
  exists k, esc_decode (117 :: 123 :: hex_digits 6 c [] ++ 125 :: rest) = Some (c, k) /\
            k = length (117 :: 123 :: hex_digits 6 c [] ++ [125]).
Proof.
  intros Hv. destruct (hex_digits_spec 6 c [] (valid_scalar_lt c Hv) ltac:(lia))
    as [ds [E [Hf [Hl Hfold]]]]. rewrite app_nil_r in E. rewrite E.
  exists (3 + length ds)%nat. split; [|cbn [length]; rewrite app_length; cbn [length]; lia].
  unfold esc_decode. change (117 =? 117) with true. cbn iota. unfold decode_unicode.
  change (123 =? 123) with true. cbn iota.
  rewrite (take_hex_app ds 6 125 rest Hf ltac:(lia) eq_refl).
  destruct ds as [|d ds']; [cbn in Hl; lia|]. rewrite skipn_app_exact.
  change (125 =? 125) with true. cbn iota.
  unfold hex_value. change (fun a d0 : N => a * 16 + hex_val d0) with hex_step.
  rewrite Hfold. rewrite N.mul_0_l, N.add_0_l. rewrite Hv. reflexivity.
Qed.

Lemma pstr_skip pre rest : pstr (length pre) (pre ++ rest) = pstr 0 rest.
Proof. induction pre as [|x pre IH]; [reflexivity|]. cbn [length app pstr]. exact IH. Qed.

Definition char_ok (fx : pfix) (c : N) : bool :=
  valid_scalar c && (fx_quotes fx || negb ((c =? 39) || (c =? 34))).

Lemma pstr_bs r :
  pstr 0 (92 :: r) =
  match esc_decode r with
  | Some (ch, k) => let '(a, rest, es) := pstr k r in (option_map (cons ch) a, rest, es)
  | None => let '(a, rest, es) := pstr 0 r in
            (None, rest, mkperr EInvalidEscape (blen r + 1) (N.min (blen r) 2) :: es)
  end.
Proof. reflexivity. Qed.

Lemma pstr_escape_gen c pre rest :
  esc_decode (pre ++ rest) = Some (c, length pre) ->
  pstr 0 (92 :: pre ++ rest) = let '(a, r, es) := pstr 0 rest in (option_map (cons c) a, r, es).
Proof. intros H. rewrite pstr_bs, H, pstr_skip. reflexivity. Qed.

Lemma pstr_escape c x rest :
  esc_decode (x :: rest) = Some (c, 1%nat) ->
  pstr 0 (92 :: x :: rest) = let '(a, r, es) := pstr 0 rest in (option_map (cons c) a, r, es).
Proof. intros H. apply (pstr_escape_gen c [x] rest). exact H. Qed.

Lemma pstr_raw c rest :
  c <> 44 -> c <> 41 -> c <> 92 ->
  pstr 0 (c :: rest) = let '(a, r, es) := pstr 0 rest in (option_map (cons c) a, r, es).
Proof.
  intros H1 H2 H3. cbn [pstr].
  rewrite (proj2 (N.eqb_neq c 44) H1), (proj2 (N.eqb_neq c 41) H2), (proj2 (N.eqb_neq c 92) H3).
  reflexivity.
Qed.

Lemma pstr_esc_unicode c rest :
  valid_scalar c = true ->
  pstr 0 (esc_unicode c ++ rest) = let '(a, r, es) := pstr 0 rest in (option_map (cons c) a, r, es).
Proof.
  intros Hv. unfold esc_unicode.
  destruct (esc_decode_unicode c rest Hv) as [k [E Hk]].
  replace (([92; 117; 123] ++ hex_digits 6 c [] ++ [125]) ++ rest)
    with (92 :: (117 :: 123 :: hex_digits 6 c [] ++ [125]) ++ rest)
    by (cbn [app]; rewrite <- !app_assoc; reflexivity).
  apply pstr_escape_gen. rewrite <- Hk, <- E. cbn [app]. rewrite <- app_assoc. reflexivity.
Qed.

Lemma pstr_print_char fx c rest :
  char_ok fx c = true ->
  pstr 0 (print_char fx c ++ rest) = let '(a, r, es) := pstr 0 rest in (option_map (cons c) a, r, es).
Proof.
  intros Hok. unfold char_ok in Hok. apply Bool.andb_true_iff in Hok. destruct Hok as [Hv Hq].
  unfold print_char.
  destruct (N.eqb_spec c 47) as [->|H47]; [apply pstr_escape; reflexivity|].
  destruct (N.eqb_spec c 41) as [->|H41]; [apply pstr_escape; reflexivity|].
  destruct (N.eqb_spec c 44) as [->|H44]; [apply pstr_escape; reflexivity|].
  destruct ((c =? 39) || (c =? 34)) eqn:Eq.
  { rewrite Bool.orb_false_r in Hq. rewrite Hq. apply pstr_raw; [exact H44|exact H41|].
    apply Bool.orb_true_iff in Eq. destruct Eq as [E|E]; apply N.eqb_eq in E; lia. }
  destruct (N.eqb_spec c 9) as [->|H9]; [apply pstr_escape; reflexivity|].
  destruct (N.eqb_spec c 13) as [->|H13]; [apply pstr_escape; reflexivity|].
  destruct (N.eqb_spec c 10) as [->|H10]; [apply pstr_escape; reflexivity|].
  destruct (N.eqb_spec c 92) as [->|H92]; [apply pstr_escape; reflexivity|].
  destruct ((32 <=? c) && (c <=? 126)); [apply pstr_raw; assumption|].
  apply pstr_esc_unicode. exact Hv.
Qed.

Definition str_ok (fx : pfix) (s : str) : bool := forallb (char_ok fx) s.

Lemma pstr_print_string fx s tail :
  str_ok fx s = true -> pstr 0 (print_string fx s ++ 41 :: tail) = (Some s, 41 :: tail, []).
Proof.
  induction s as [|c s IH]; intros H; [reflexivity|].
  cbn [str_ok forallb] in H. apply Bool.andb_true_iff in H. destruct H as [Hc Hs].
  unfold print_string. cbn [flat_map]. rewrite <- app_assoc.
  rewrite (pstr_print_char fx c _ Hc). fold (print_string fx s). rewrite (IH Hs). reflexivity.
Qed.

Lemma pmt_of_pstr s v rest :
  v <> [] -> pstr 0 s = (Some v, rest, []) -> pmt s = (Some v, rest, []).
Proof. intros Hv H. unfold pmt. rewrite H. destruct v; [congruence|reflexivity]. Qed.

(* ---- the first character of an implicit matcher's printed text *)
Definition plain_head (h : N) : bool :=
  negb ((h =? 32) || (h =? 10) || (h =? 13) || (h =? 47) || (h =? 35) || (h =? 61) || (h =? 126)).

Lemma print_char_head fx c :
  is_sigil c = false ->
  exists h t, print_char fx c = h :: t /\ plain_head h = true.
Proof.
  intros Hs. unfold print_char.
  destruct (N.eqb_spec c 47); [eexists _, _; split; [reflexivity|reflexivity]|].
  destruct (N.eqb_spec c 41); [eexists _, _; split; [reflexivity|reflexivity]|].
  destruct (N.eqb_spec c 44); [eexists _, _; split; [reflexivity|reflexivity]|].
  destruct ((c =? 39) || (c =? 34)) eqn:Eq.
  { destruct (fx_quotes fx); [|eexists _, _; split; [reflexivity|reflexivity]].
    eexists _, _; split; [reflexivity|].
    apply Bool.orb_true_iff in Eq. destruct Eq as [E|E]; apply N.eqb_eq in E; subst c; reflexivity. }
  destruct (N.eqb_spec c 9); [eexists _, _; split; [reflexivity|reflexivity]|].
  destruct (N.eqb_spec c 13); [eexists _, _; split; [reflexivity|reflexivity]|].
  destruct (N.eqb_spec c 10); [eexists _, _; split; [reflexivity|reflexivity]|].
  destruct (N.eqb_spec c 92); [eexists _, _; split; [reflexivity|reflexivity]|].
  destruct ((32 <=? c) && (c <=? 126)).
  - eexists _, _; split; [reflexivity|]. unfold plain_head. unfold is_sigil in Hs.
    apply Bool.orb_false_iff in Hs. destruct Hs as [Hs H32].
    apply Bool.orb_false_iff in Hs. destruct Hs as [Hs H35].
    apply Bool.orb_false_iff in Hs. destruct Hs as [H61 H126].
    rewrite H32, H35, H61, H126.
    rewrite (proj2 (N.eqb_neq c 10)), (proj2 (N.eqb_neq c 13)), (proj2 (N.eqb_neq c 47)) by assumption.
    reflexivity.
  - eexists _, _; split; [reflexivity|reflexivity].
Qed.

Lemma print_implicit_head fx s rest :
  s <> [] -> (fx_leading fx || negb (leading_sigil s)) = true ->
  exists h t, print_implicit fx s ++ rest = h :: t /\ plain_head h = true.
Proof.
  intros Hs Hl. destruct s as [|c r]; [congruence|]. cbn [print_implicit leading_sigil] in *.
  destruct (is_sigil c) eqn:Es.
  - rewrite Bool.orb_false_r in Hl. rewrite Hl. cbn [andb]. eexists _, _. split; [reflexivity|reflexivity].
  - rewrite Bool.andb_false_r. destruct (print_char_head fx c Es) as [h [t [E Hp]]].
    unfold print_string. cbn [flat_map]. rewrite E. eexists _, _. split; [reflexivity|exact Hp].
Qed.

Lemma pstr_print_implicit fx s tail :
  str_ok fx s = true -> pstr 0 (print_implicit fx s ++ 41 :: tail) = (Some s, 41 :: tail, []).
Proof.
  intros H. destruct s as [|c r]; [reflexivity|]. cbn [print_implicit].
  destruct (fx_leading fx && is_sigil c); [|apply pstr_print_string; exact H].
  cbn [str_ok forallb] in H. apply Bool.andb_true_iff in H. destruct H as [Hc Hr].
  rewrite <- app_assoc. rewrite pstr_esc_unicode.
  - rewrite (pstr_print_string fx r tail Hr). reflexivity.
  - unfold char_ok in Hc. apply Bool.andb_true_iff in Hc. tauto.
Qed.

Lemma ws_skip_plain h t : plain_head h = true -> ws_skip (h :: t) = h :: t.
Proof.
  unfold plain_head. intros H. apply Bool.negb_true_iff in H.
  repeat (apply Bool.orb_false_iff in H; destruct H as [H ?]).
  cbn [ws_skip]. rewrite H. replace (h =? 10) with false by congruence.
  replace (h =? 13) with false by congruence. reflexivity.
Qed.

Lemma set_matcher_plain SO dm h t :
  plain_head h = true ->
  set_matcher SO dm (h :: t) =
  match dm with
  | DmEqual => map_text (fun v => MEqual v true) (pmt (h :: t))
  | DmContains => map_text (fun v => MContains v true) (pmt (h :: t))
  | DmGlob => parse_glob SO true (h :: t)
  end.
Proof.
  intros H. unfold set_matcher. rewrite (ws_skip_plain h t H).
  unfold plain_head in H. apply Bool.negb_true_iff in H.
  repeat (apply Bool.orb_false_iff in H; destruct H as [H ?]).
  replace (h =? 47) with false by congruence. replace (h =? 35) with false by congruence.
  replace (h =? 61) with false by congruence. replace (h =? 126) with false by congruence.
  reflexivity.
Qed.

(* ---- regexes *)
Definition print_regex_new (s : str) : str := flat_map (fun c => if c =? 47 then [92; 47] else [c]) s.

Lemma prx_slash s : prx (47 :: s) = Some ([], 47 :: s).
Proof. reflexivity. Qed.
Lemma prx_bs_slash s :
  prx (92 :: 47 :: s) = match prx s with Some (p, rest) => Some (47 :: p, rest) | None => None end.
Proof. reflexivity. Qed.
Lemma prx_bs_other d s : d <> 47 ->
  prx (92 :: d :: s) = match prx (d :: s) with Some (p, rest) => Some (92 :: p, rest) | None => None end.
Proof.
  intros H. cbn [prx]. change (92 =? 47) with false. change (92 =? 92) with true. cbn iota.
  rewrite (proj2 (N.eqb_neq d 47) H). reflexivity.
Qed.
Lemma prx_other c s : c <> 47 -> c <> 92 ->
  prx (c :: s) = match prx s with Some (p, rest) => Some (c :: p, rest) | None => None end.
Proof.
  intros H1 H2. cbn [prx]. rewrite (proj2 (N.eqb_neq c 47) H1), (proj2 (N.eqb_neq c 92) H2). reflexivity.
Qed.

Lemma print_regex_new_head r rest :
  r <> [] -> exists d t, print_regex_new r ++ rest = d :: t /\ d <> 47.
Proof.
  destruct r as [|c r]; [congruence|]. intros _. unfold print_regex_new. cbn [flat_map].
  destruct (N.eqb_spec c 47).
  - eexists _, _. split; [reflexivity|discriminate].
  - eexists _, _. split; [reflexivity|assumption].
Qed.

Lemma prx_print_new r : forall rest, no_trailing_backslash r = true ->
  prx (print_regex_new r ++ 47 :: rest) = Some (r, 47 :: rest).
Proof.
  induction r as [|c r IH]; intros rest H; [reflexivity|].
  assert (Hr : no_trailing_backslash r = true).
  { cbn [no_trailing_backslash] in H. destruct r; [reflexivity|exact H]. }
  unfold print_regex_new. cbn [flat_map]. fold (print_regex_new r).
  destruct (N.eqb_spec c 47) as [->|H47].
  - cbn [app]. rewrite prx_bs_slash, (IH rest Hr). reflexivity.
  - cbn [app]. destruct (N.eqb_spec c 92) as [->|H92].
    + assert (Hne : r <> []) by (intros ->; cbn in H; discriminate).
      destruct (print_regex_new_head r (47 :: rest) Hne) as [d [t [E Hd]]].
      pose proof (IH rest Hr) as IH'. rewrite E in *. rewrite (prx_bs_other d t Hd), IH'. reflexivity.
    + rewrite (prx_other c _ H47 H92), (IH rest Hr). reflexivity.
Qed.

Lemma print_regex_old_new r : forall esc,
  escaped_slash esc r = false -> print_regex_old esc r = print_regex_new r.
Proof.
  induction r as [|c r IH]; intros esc H; [reflexivity|].
  unfold print_regex_new. cbn [flat_map print_regex_old escaped_slash] in *. fold (print_regex_new r).
  destruct esc.
  - apply Bool.orb_false_iff in H. destruct H as [Hc Hr]. rewrite Hc. cbn [app]. f_equal. apply IH, Hr.
  - destruct (c =? 92) eqn:E92.
    + apply N.eqb_eq in E92. subst c. change (92 =? 47) with false. cbn [app]. f_equal. apply IH, H.
    + destruct (c =? 47); cbn [app]; repeat f_equal; apply IH, H.
Qed.

Lemma print_regex_eq fx r :
  (fx_regex fx || negb (escaped_slash false r)) = true -> print_regex fx r = print_regex_new r.
Proof.
  intros H. unfold print_regex. destruct (fx_regex fx); [reflexivity|].
  apply print_regex_old_new. cbn in H. apply Bool.negb_true_iff in H. exact H.
Qed.

Section Matchers.
Variable SO : syntax_oracle.
Variable fx : pfix.

Lemma regex_matcher_print r tail :
  regex_check SO r = RxOk -> no_trailing_backslash r = true ->
  (fx_regex fx || negb (escaped_slash false r)) = true ->
  regex_matcher SO (print_regex fx r ++ 47 :: 41 :: tail) = (Some (MRegex r), 41 :: tail, []).
Proof.
  intros Hc Hn Hs. unfold regex_matcher. rewrite (print_regex_eq fx r Hs), (prx_print_new r _ Hn), Hc.
  reflexivity.
Qed.

Lemma text_str_ok s :
  text_ok s = true -> (fx_quotes fx || negb (has_quote s)) = true -> s <> [] /\ str_ok fx s = true.
Proof.
  intros Ht Hq. split; [destruct s; [discriminate|discriminate]|].
  assert (Hv : forallb valid_scalar s = true) by (destruct s; [discriminate|exact Ht]).
  unfold str_ok. apply forallb_forall. intros c Hc. unfold char_ok.
  rewrite (proj1 (forallb_forall _ _) Hv c Hc). cbn [andb].
  destruct (fx_quotes fx); [reflexivity|]. cbn [orb] in *.
  apply Bool.negb_true_iff in Hq. unfold has_quote in Hq.
  destruct ((c =? 39) || (c =? 34)) eqn:E; [|reflexivity].
  exfalso. assert (existsb (fun c => (c =? 39) || (c =? 34)) s = true)
    by (apply existsb_exists; exists c; split; assumption). congruence.
Qed.

(* explicit text after a sigil *)
Lemma set_matcher_explicit dm sig (mk : str -> matcher) s tail :
  (sig = 61 /\ mk = (fun v => MEqual v false)) \/ (sig = 126 /\ mk = (fun v => MContains v false)) ->
  s <> [] -> str_ok fx s = true ->
  set_matcher SO dm (sig :: print_string fx s ++ 41 :: tail) = (Some (mk s), 41 :: tail, []).
Proof.
  intros Hsig Hne Hok.
  pose proof (pmt_of_pstr _ s _ Hne (pstr_print_string fx s tail Hok)) as Hp.
  destruct Hsig as [[-> ->]|[-> ->]]; unfold set_matcher; cbn [ws_skip]; cbn -[pmt print_string];
    rewrite Hp; reflexivity.
Qed.

Lemma matcher_safe_parts m :
  matcher_safe fx m = true ->
  (fx_quotes fx || negb (known_quotes_m m)) = true /\
  (fx_leading fx || negb (known_leading_m m)) = true /\
  (fx_regex fx || negb (known_regex_m m)) = true.
Proof.
  unfold matcher_safe. intros H. apply Bool.andb_true_iff in H. destruct H as [H H3].
  apply Bool.andb_true_iff in H. tauto.
Qed.

(* implicit text in the position of the predicate's default matcher *)
Lemma implicit_text_print s tail :
  text_ok s = true -> (fx_quotes fx || negb (has_quote s)) = true ->
  (fx_leading fx || negb (leading_sigil s)) = true ->
  exists h t, print_implicit fx s ++ 41 :: tail = h :: t /\ plain_head h = true /\
              pmt (h :: t) = (Some s, 41 :: tail, []).
Proof.
  intros Ht Hq Hl. destruct (text_str_ok s Ht Hq) as [Hne Hok].
  destruct (print_implicit_head fx s (41 :: tail) Hne Hl) as [h [t [E Hp]]].
  exists h, t. split; [exact E|]. split; [exact Hp|]. rewrite <- E.
  apply pmt_of_pstr; [exact Hne|]. apply pstr_print_implicit. exact Hok.
Qed.

Lemma set_matcher_print dm m tail :
  matcher_ok SO dm m = true -> matcher_safe fx m = true ->
  set_matcher SO dm (print_matcher fx m ++ 41 :: tail) = (Some m, 41 :: tail, []).
Proof.
  intros Hok Hsafe. destruct (matcher_safe_parts m Hsafe) as [Hq [Hl Hr]].
  destruct m as [s imp|s imp|g imp|r]; cbn [matcher_ok known_quotes_m known_leading_m known_regex_m print_matcher] in *.
  - (* equal *)
    apply Bool.andb_true_iff in Hok. destruct Hok as [Ht Hd]. destruct imp; cbn [print_text negb orb andb] in *.
    + destruct dm; try discriminate.
      destruct (implicit_text_print s tail Ht Hq Hl) as [h [t [E [Hp Hpm]]]].
      rewrite E, (set_matcher_plain SO DmEqual h t Hp), Hpm. reflexivity.
    + destruct (text_str_ok s Ht Hq) as [Hne Hs]. cbn [app].
      apply (set_matcher_explicit dm 61 (fun v => MEqual v false)); auto.
  - (* contains *)
    apply Bool.andb_true_iff in Hok. destruct Hok as [Ht Hd]. destruct imp; cbn [print_text negb orb andb] in *.
    + destruct dm; try discriminate.
      destruct (implicit_text_print s tail Ht Hq Hl) as [h [t [E [Hp Hpm]]]].
      rewrite E, (set_matcher_plain SO DmContains h t Hp), Hpm. reflexivity.
    + destruct (text_str_ok s Ht Hq) as [Hne Hs]. cbn [app].
      apply (set_matcher_explicit dm 126 (fun v => MContains v false)); auto.
  - (* glob *)
    apply Bool.andb_true_iff in Hok. destruct Hok as [Hok Hd].
    apply Bool.andb_true_iff in Hok. destruct Hok as [Ht Hg].
    destruct imp; cbn [print_text negb orb andb] in *.
    + destruct dm; try discriminate.
      destruct (implicit_text_print g tail Ht Hq Hl) as [h [t [E [Hp Hpm]]]].
      rewrite E, (set_matcher_plain SO DmGlob h t Hp). unfold parse_glob. rewrite Hpm, Hg. reflexivity.
    + destruct (text_str_ok g Ht Hq) as [Hne Hs]. cbn [app].
      pose proof (pmt_of_pstr _ g _ Hne (pstr_print_string fx g tail Hs)) as Hp.
      unfold set_matcher. cbn [ws_skip]. cbn -[parse_glob print_string].
      unfold parse_glob. rewrite Hp, Hg. reflexivity.
  - (* regex *)
    destruct (regex_check SO r) eqn:Ec; try discriminate.
    rewrite <- !app_assoc. cbn [app]. unfold set_matcher. cbn [ws_skip]. cbn -[regex_matcher print_regex].
    apply regex_matcher_print; assumption.
Qed.

Lemma unary_set_print dm mk m tail :
  matcher_ok SO dm m = true -> matcher_safe fx m = true ->
  unary_set SO dm mk (40 :: print_matcher fx m ++ 41 :: tail) = (Some (mk m), tail, []).
Proof.
  intros Hok Hs. unfold unary_set. unfold expect_char at 1. cbn [ws_skip]. cbn -[set_matcher print_matcher recover_comma expect_char].
  rewrite (set_matcher_print dm m tail Hok Hs). reflexivity.
Qed.

Definition set_safe (d : setdef) : bool := negb (on_matcher (fun m => negb (matcher_safe fx m)) d).

Lemma parse_set_def_print d tail :
  setdef_ok SO d = true -> set_safe d = true ->
  parse_set_def SO (print_setdef fx d ++ tail) = Some (Some d, tail, []).
Proof.
  intros Hok Hs. unfold set_safe in Hs. apply Bool.negb_true_iff in Hs.
  destruct d as [m|m|m|m|m|m|p| m| | |]; cbn [setdef_ok on_matcher print_setdef] in *;
    try (apply Bool.negb_false_iff in Hs);
    try (rewrite <- !app_assoc; unfold parse_set_def; cbn -[unary_set print_matcher];
         rewrite (unary_set_print _ _ m tail Hok Hs); reflexivity).
  - destruct p; reflexivity.
  - reflexivity.
  - reflexivity.
  - reflexivity.
Qed.
End Matchers.

(* ---------------------------------------------------------------- expression levels *)

Lemma canon_mono l e : canon (S l) e = true -> canon l e = true.
Proof.
  destruct e; cbn [canon]; auto.
  - intros H. discriminate.
  - destruct l; [auto|]. intros H. discriminate.
  - destruct l; [auto|]. intros H. discriminate.
Qed.

Section Levels.
Variable SO : syntax_oracle.
Variable fx : pfix.
Notation pr := (print_with fx).

Lemma and_loop_stop (b : str -> option eres) k acc s :
  parse_and_op s = None -> and_loop b k acc s = (acc, s, []).
Proof. intros H. destruct k; cbn [and_loop]; rewrite H; reflexivity. Qed.
Lemma or_loop_stop (b : str -> option eres) k acc s :
  parse_or_op s = None -> or_loop b k acc s = (acc, s, []).
Proof. intros H. destruct k; cbn [or_loop]; rewrite H; reflexivity. Qed.

Lemma and_loop_refuel n k k' acc s :
  (length s < n)%nat -> (length s <= k)%nat -> (length s <= k')%nat ->
  and_loop (basic SO n) k acc s = and_loop (basic SO n) k' acc s.
Proof.
  intros Hn Hk Hk'.
  apply (and_loop_ext SO (basic SO n) (basic SO n) (n - 1)%nat
           (fun x Hx => basic_good SO n x ltac:(lia)) (fun x Hx => eq_refl)); lia.
Qed.
Lemma or_loop_refuel n k k' acc s :
  (length s < n)%nat -> (length s <= k)%nat -> (length s <= k')%nat ->
  or_loop (basic SO n) k acc s = or_loop (basic SO n) k' acc s.
Proof.
  intros Hn Hk Hk'.
  apply (or_loop_ext SO (basic SO n) (basic SO n) (n - 1)%nat
           (fun x Hx => basic_good SO n x ltac:(lia)) (fun x Hx => eq_refl)); lia.
Qed.

Lemma basic_space n Z : basic SO (S n) (32 :: Z) = basic SO (S n) Z.
Proof. reflexivity. Qed.

(* level 1 from level 2, level 0 from level 1 *)
Lemma and_of_basic n k e s tail :
  basic SO n s = Some (Some e, tail, []) ->
  and_expr (basic SO n) k s = and_loop (basic SO n) k (Some e) tail.
Proof.
  intros H. unfold and_expr, expect_basic. rewrite H.
  destruct (and_loop (basic SO n) k (Some e) tail) as [[res s2] e2]. reflexivity.
Qed.
Lemma or_of_and n k e s tail :
  and_expr (basic SO n) k s = and_loop (basic SO n) k (Some e) tail ->
  parse_and_op tail = None ->
  or_expr (basic SO n) k s = or_loop (basic SO n) k (Some e) tail.
Proof.
  intros H Hstop. unfold or_expr. rewrite H, (and_loop_stop _ k _ tail Hstop).
  destruct (or_loop (basic SO n) k (Some e) tail) as [[res s2] e2]. reflexivity.
Qed.

Definition okexpr (e : pexpr) : Prop := printable SO e = true /\ safe_for fx e = true.

Lemma ok_set d : okexpr (PSet d) -> setdef_ok SO d = true /\ set_safe fx d = true.
Proof. unfold okexpr, safe_for, set_safe. cbn [printable any_set]. tauto. Qed.
Lemma ok_un o a : (okexpr (PNot o a) -> okexpr a) /\ (okexpr (PParens a) -> okexpr a).
Proof. unfold okexpr, safe_for. cbn [printable any_set]. tauto. Qed.
Lemma ok_bin a b :
  (printable SO a && printable SO b = true) ->
  negb (any_set (on_matcher (fun m => negb (matcher_safe fx m))) a ||
        any_set (on_matcher (fun m => negb (matcher_safe fx m))) b) = true ->
  okexpr a /\ okexpr b.
Proof.
  unfold okexpr, safe_for. intros H1 H2. apply Bool.andb_true_iff in H1.
  rewrite Bool.negb_orb in H2. apply Bool.andb_true_iff in H2. tauto.
Qed.

Definition rt1 (e : pexpr) : Prop := forall tail n,
  (length (pr e ++ tail) < n)%nat -> basic SO n (pr e ++ tail) = Some (Some e, tail, []).
Definition rt2 (e : pexpr) : Prop := forall tail n k,
  (length (pr e ++ tail) < n)%nat -> (length (pr e ++ tail) <= k)%nat ->
  and_expr (basic SO n) k (pr e ++ tail) = and_loop (basic SO n) k (Some e) tail.
Definition rt3 (e : pexpr) : Prop := forall tail n k,
  (length (pr e ++ tail) < n)%nat -> (length (pr e ++ tail) <= k)%nat ->
  parse_and_op tail = None ->
  or_expr (basic SO n) k (pr e ++ tail) = or_loop (basic SO n) k (Some e) tail.

Lemma rt2_of_rt1 e : rt1 e -> rt2 e.
Proof. intros H tail n k Hn Hk. apply and_of_basic, H, Hn. Qed.
Lemma rt3_of_rt2 e : rt2 e -> rt3 e.
Proof. intros H tail n k Hn Hk Hs. apply or_of_and; [apply H; assumption|exact Hs]. Qed.

Lemma ws_skip_setdef d X : ws_skip (print_setdef fx d ++ X) = print_setdef fx d ++ X.
Proof. destruct d as [m|m|m|m|m|m|p|m| | |]; try reflexivity. destruct p; reflexivity. Qed.

Lemma rt1_set d : okexpr (PSet d) -> rt1 (PSet d).
Proof.
  intros Hok tail n Hn. destruct (ok_set d Hok) as [H1 H2].
  destruct n as [|n]; [lia|]. cbn [print_with basic]. rewrite ws_skip_setdef.
  rewrite (parse_set_def_print SO fx d tail H1 H2). reflexivity.
Qed.

Lemma rt1_not o a : rt1 a -> rt1 (PNot o a).
Proof.
  intros IH tail n Hn. destruct n as [|n]; [lia|]. cbn [print_with] in *.
  destruct o; cbn [print_not_op app] in *; rewrite <- ?app_assoc in *; cbn [app length] in *.
  - (* "not " *)
    cbn [basic]. change (ws_skip (110 :: 111 :: 116 :: 32 :: pr a ++ tail)) with (110 :: 111 :: 116 :: 32 :: pr a ++ tail).
    change (parse_set_def SO (110 :: 111 :: 116 :: 32 :: pr a ++ tail)) with (@None (option setdef * str * list perr)).
    change (parse_not_op (110 :: 111 :: 116 :: 32 :: pr a ++ tail)) with (Some (NotLiteral, pr a ++ tail)).
    cbn iota. rewrite (IH tail n ltac:(lia)). reflexivity.
  - (* "! " *)
    cbn [basic]. change (ws_skip (33 :: 32 :: pr a ++ tail)) with (33 :: 32 :: pr a ++ tail).
    change (parse_set_def SO (33 :: 32 :: pr a ++ tail)) with (@None (option setdef * str * list perr)).
    change (parse_not_op (33 :: 32 :: pr a ++ tail)) with (Some (NotBang, 32 :: pr a ++ tail)).
    cbn iota. destruct n as [|n]; [lia|]. rewrite basic_space, (IH tail (S n) ltac:(lia)). reflexivity.
Qed.

Lemma rt1_parens u : rt3 u -> rt1 (PParens u).
Proof.
  intros IH tail n Hn. destruct n as [|n]; [lia|]. cbn [print_with app] in *.
  rewrite <- app_assoc in *. cbn [app length] in *.
  cbn [basic]. change (ws_skip (40 :: pr u ++ 41 :: tail)) with (40 :: pr u ++ 41 :: tail).
  change (parse_set_def SO (40 :: pr u ++ 41 :: tail)) with (@None (option setdef * str * list perr)).
  change (parse_not_op (40 :: pr u ++ 41 :: tail)) with (@None (not_op * str)).
  cbn iota. change (40 =? 40) with true. cbn iota.
  rewrite (IH (41 :: tail) n n ltac:(lia) ltac:(lia) eq_refl).
  rewrite (or_loop_stop _ n _ (41 :: tail) eq_refl). reflexivity.
Qed.

Lemma expect_basic_of n s r : basic SO n s = Some r -> expect_basic (basic SO n) s = r.
Proof. intros H. unfold expect_basic. rewrite H. reflexivity. Qed.

Lemma and_loop_step (bf : str -> option eres) k acc s op s1 e1 :
  parse_and_op s = Some (op, s1, e1) ->
  and_loop bf (S k) acc s =
  let '(r, s2, e2) := expect_basic bf s1 in
  let '(res, s3, e3) := and_loop bf k (combine_and op acc r) s2 in (res, s3, e1 ++ e2 ++ e3).
Proof. intros H. cbn [and_loop]. rewrite H. reflexivity. Qed.
Lemma or_loop_step (bf : str -> option eres) k acc s op s1 e1 :
  parse_or_op s = Some (op, s1, e1) ->
  or_loop bf (S k) acc s =
  let '(r, s2, e2) := and_expr bf (S k) s1 in
  let '(res, s3, e3) := or_loop bf k (combine_or op acc r) s2 in (res, s3, e1 ++ e2 ++ e3).
Proof. intros H. cbn [or_loop]. rewrite H. reflexivity. Qed.

Lemma rt2_step a b e op sep tail' tail :
  (* [tail'] is the operator as printed followed by the right operand; the operator parser
     leaves [sep ++ pr b ++ tail] where sep is empty or one space *)
  rt2 a -> rt1 b ->
  (sep = [] \/ sep = [32]) ->
  parse_and_op tail' = Some (Some op, sep ++ pr b ++ tail, []) ->
  combine_and (Some op) (Some a) (Some b) = Some e ->
  (length (sep ++ pr b ++ tail) < length tail')%nat ->
  forall n k, (length (pr a ++ tail') < n)%nat -> (length (pr a ++ tail') <= k)%nat ->
  and_expr (basic SO n) k (pr a ++ tail') = and_loop (basic SO n) k (Some e) tail.
Proof.
  intros IHa IHb Hsep Hop Hc Hlen n k Hn Hk.
  rewrite (IHa _ n k Hn Hk). rewrite app_length in Hn, Hk.
  destruct k as [|k]; [lia|]. rewrite (and_loop_step _ k _ _ _ _ _ Hop).
  assert (Hb : expect_basic (basic SO n) (sep ++ pr b ++ tail) = (Some b, tail, [])).
  { apply expect_basic_of. destruct Hsep as [->| ->]; cbn [app].
    - apply IHb. cbn [app] in Hlen. lia.
    - destruct n as [|n]; [lia|]. rewrite basic_space. apply IHb. cbn [app length] in Hlen. lia. }
  rewrite Hb, Hc. cbn [app].
  assert (Hl : (length tail < length tail')%nat).
  { rewrite !app_length in Hlen. lia. }
  rewrite (and_loop_refuel n k (S k) _ tail) by lia.
  destruct (and_loop (basic SO n) (S k) (Some e) tail) as [[res s3] e3]. reflexivity.
Qed.

Lemma rt2_inter o a b : rt2 a -> rt1 b -> rt2 (PInter o a b).
Proof.
  intros IHa IHb tail n k Hn Hk. cbn [print_with] in *.
  destruct o; cbn [print_and_op] in *; rewrite <- ?app_assoc in *; cbn [app] in *;
    rewrite <- ?app_assoc in *; cbn [app] in *.
  - apply (rt2_step a b _ (AOAnd AndLiteral) [] _ tail IHa IHb); auto; try reflexivity; cbn [app length]; lia.
  - apply (rt2_step a b _ (AOAnd AndAmp) [32] _ tail IHa IHb); auto; try reflexivity; cbn [app length]; lia.
Qed.

Lemma rt2_diff o a b : rt2 a -> rt1 b -> rt2 (PDiff o a b).
Proof.
  intros IHa IHb tail n k Hn Hk. cbn [print_with] in *. destruct o.
  rewrite <- ?app_assoc in *; cbn [app] in *.
  apply (rt2_step a b _ (AODiff DiffMinus) [32] _ tail IHa IHb); auto; try reflexivity; cbn [app length]; lia.
Qed.

Lemma and_expr_space n k Z r rest :
  and_expr (basic SO (S n)) k Z = (r, rest, []) ->
  and_expr (basic SO (S n)) k (32 :: Z) = (r, rest, []).
Proof.
  unfold and_expr, expect_basic. rewrite basic_space. destruct (basic SO (S n) Z); [auto|].
  destruct (and_loop (basic SO (S n)) k None Z) as [[res s2] e2]. discriminate.
Qed.

Lemma rt3_step a b op sep tail' tail :
  rt3 a -> rt2 b ->
  (sep = [] \/ sep = [32]) ->
  parse_and_op tail' = None ->
  parse_or_op tail' = Some (Some op, sep ++ pr b ++ tail, []) ->
  (length (sep ++ pr b ++ tail) < length tail')%nat ->
  parse_and_op tail = None ->
  forall n k, (length (pr a ++ tail') < n)%nat -> (length (pr a ++ tail') <= k)%nat ->
  or_expr (basic SO n) k (pr a ++ tail') = or_loop (basic SO n) k (Some (PUnion op a b)) tail.
Proof.
  intros IHa IHb Hsep Hstop' Hop Hlen Hstop n k Hn Hk.
  rewrite (IHa _ n k Hn Hk Hstop'). rewrite app_length in Hn, Hk.
  destruct k as [|k]; [lia|]. rewrite (or_loop_step _ k _ _ _ _ _ Hop).
  assert (Hb : and_expr (basic SO n) (S k) (sep ++ pr b ++ tail) = (Some b, tail, [])).
  { destruct Hsep as [->| ->]; cbn [app].
    - cbn [app] in Hlen. rewrite (IHb tail n (S k) ltac:(lia) ltac:(lia)). apply and_loop_stop, Hstop.
    - cbn [app length] in Hlen. destruct n as [|n]; [lia|].
      apply and_expr_space.
      rewrite (IHb tail (S n) (S k) ltac:(lia) ltac:(lia)). apply and_loop_stop, Hstop. }
  rewrite Hb. cbn [combine_or app].
  assert (Hl : (length tail < length tail')%nat).
  { rewrite !app_length in Hlen. lia. }
  rewrite (or_loop_refuel n k (S k) _ tail) by lia.
  destruct (or_loop (basic SO n) (S k) (Some (PUnion op a b)) tail) as [[res s3] e3]. reflexivity.
Qed.

Lemma rt3_union o a b : rt3 a -> rt2 b -> rt3 (PUnion o a b).
Proof.
  intros IHa IHb tail n k Hn Hk Hstop. cbn [print_with] in *.
  destruct o; cbn [print_or_op] in *; rewrite <- ?app_assoc in *; cbn [app] in *;
    rewrite <- ?app_assoc in *; cbn [app] in *.
  - apply (rt3_step a b OrLiteral [] _ tail IHa IHb); auto; try reflexivity; cbn [app length]; lia.
  - apply (rt3_step a b OrPipe [32] _ tail IHa IHb); auto; try reflexivity; cbn [app length]; lia.
  - apply (rt3_step a b OrPlus [32] _ tail IHa IHb); auto; try reflexivity; cbn [app length]; lia.
Qed.
End Levels.

(* ---------------------------------------------------------------- the round trip *)

Section Roundtrip.
Variable SO : syntax_oracle.
Variable fx : pfix.

Lemma rt_all e : okexpr SO fx e ->
  (canon 2 e = true -> rt1 SO fx e) /\ (canon 1 e = true -> rt2 SO fx e) /\
  (canon 0 e = true -> rt3 SO fx e).
Proof.
  induction e as [op a IH|op a IHa b IHb|op a IHa b IHb|op a IHa b IHb|a IH|d]; intros Hok.
  - (* not *)
    destruct (IH (proj1 (ok_un SO fx op a) Hok)) as [I1 _].
    assert (R1 : canon 2 a = true -> rt1 SO fx (PNot op a)) by (intros H; apply rt1_not, I1, H).
    cbn [canon]. repeat split; intros H.
    + apply R1, H.
    + apply rt2_of_rt1, R1, H.
    + apply rt3_of_rt2, rt2_of_rt1, R1, H.
  - (* union *)
    destruct Hok as [Hp Hs]. unfold safe_for in Hs. cbn [printable any_set] in Hp, Hs.
    destruct (ok_bin SO fx a b Hp Hs) as [Ha Hb].
    destruct (IHa Ha) as [_ [_ A3]]. destruct (IHb Hb) as [_ [B2 _]].
    cbn [canon]. repeat split; intros H; try discriminate.
    apply Bool.andb_true_iff in H. destruct H as [H Hb1]. apply Bool.andb_true_iff in H. destruct H as [_ Ha0].
    apply rt3_union; auto.
  - (* intersection *)
    destruct Hok as [Hp Hs]. unfold safe_for in Hs. cbn [printable any_set] in Hp, Hs.
    destruct (ok_bin SO fx a b Hp Hs) as [Ha Hb].
    destruct (IHa Ha) as [_ [A2 _]]. destruct (IHb Hb) as [B1 _].
    assert (R2 : canon 1 a && canon 2 b = true -> rt2 SO fx (PInter op a b)).
    { intros H. apply Bool.andb_true_iff in H. destruct H. apply rt2_inter; auto. }
    cbn [canon]. repeat split; intros H; try discriminate.
    + apply R2. cbn in H. exact H.
    + apply rt3_of_rt2, R2. cbn in H. exact H.
  - (* difference *)
    destruct Hok as [Hp Hs]. unfold safe_for in Hs. cbn [printable any_set] in Hp, Hs.
    destruct (ok_bin SO fx a b Hp Hs) as [Ha Hb].
    destruct (IHa Ha) as [_ [A2 _]]. destruct (IHb Hb) as [B1 _].
    assert (R2 : canon 1 a && canon 2 b = true -> rt2 SO fx (PDiff op a b)).
    { intros H. apply Bool.andb_true_iff in H. destruct H. apply rt2_diff; auto. }
    cbn [canon]. repeat split; intros H; try discriminate.
    + apply R2. cbn in H. exact H.
    + apply rt3_of_rt2, R2. cbn in H. exact H.
  - (* parentheses *)
    destruct (IH (proj2 (ok_un SO fx NotLiteral a) Hok)) as [_ [_ I3]].
    assert (R1 : canon 0 a = true -> rt1 SO fx (PParens a)) by (intros H; apply rt1_parens, I3, H).
    cbn [canon]. repeat split; intros H.
    + apply R1, H.
    + apply rt2_of_rt1, R1, H.
    + apply rt3_of_rt2, rt2_of_rt1, R1, H.
  - (* set *)
    pose proof (rt1_set SO fx d Hok) as R1. repeat split; intros _.
    + exact R1.
    + apply rt2_of_rt1, R1.
    + apply rt3_of_rt2, rt2_of_rt1, R1.
Qed.

Theorem roundtrip_gen e :
  canonical e -> printable SO e = true -> safe_for fx e = true ->
  parse SO (print_with fx e) = POk e.
Proof.
  intros Hc Hp Hs. destruct (rt_all e (conj Hp Hs)) as [_ [_ R3]].
  specialize (R3 Hc [] (S (length (print_with fx e))) (S (length (print_with fx e)))).
  rewrite app_nil_r in R3. specialize (R3 ltac:(lia) ltac:(lia) eq_refl).
  unfold parse, parse_raw, parse_fuel. rewrite R3.
  rewrite (or_loop_stop _ _ _ [] eq_refl). reflexivity.
Qed.
End Roundtrip.

Lemma safe_all e : safe_for all_fixes e = true.
Proof.
  unfold safe_for. apply Bool.negb_true_iff.
  induction e; cbn [any_set]; try rewrite IHe; try rewrite IHe1, IHe2; try reflexivity.
  destruct d; reflexivity.
Qed.

Lemma safe_none_outside_known e :
  Known_quotes e = false -> Known_leading e = false -> Known_regex_pair e = false ->
  safe_for no_fixes e = true.
Proof.
  unfold safe_for, Known_quotes, Known_leading, Known_regex_pair. intros H1 H2 H3.
  apply Bool.negb_true_iff.
  induction e as [op a IH|op a IHa b IHb|op a IHa b IHb|op a IHa b IHb|a IH|d]; cbn [any_set] in *;
    try (apply IH; assumption);
    try (apply Bool.orb_false_iff in H1, H2, H3; destruct H1, H2, H3;
         rewrite IHa, IHb by assumption; reflexivity).
  destruct d; cbn [on_matcher] in *; try reflexivity;
    unfold matcher_safe; cbn [fx_quotes fx_leading fx_regex no_fixes orb];
    rewrite H1, H2, H3; reflexivity.
Qed.

Theorem roundtrip SO e :
  canonical e -> printable SO e = true -> parse SO (print e) = POk e.
Proof. intros Hc Hp. apply roundtrip_gen; [exact Hc|exact Hp|apply safe_all]. Qed.

Theorem roundtrip_unfixed_outside_known SO e :
  canonical e -> printable SO e = true ->
  Known_quotes e = false -> Known_leading e = false -> Known_regex_pair e = false ->
  parse SO (print_unfixed e) = POk e.
Proof.
  intros Hc Hp H1 H2 H3. apply roundtrip_gen; [exact Hc|exact Hp|].
  apply safe_none_outside_known; assumption.
Qed.
