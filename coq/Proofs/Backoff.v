(* Lemmas about Model/Backoff.v *)
From NextestModel Require Import Base.Tac Base.Str Model.Backoff.
Open Scope N_scope.

(* ------------------------------------------------------------------ jitter *)

Lemma valid_sample_facts : forall n m, valid_sample (n, m) = true -> m < 2 * n /\ n <= m.
Proof.
  intros n m H. unfold valid_sample in H. apply andb_true_iff in H. destruct H as [H1 H2].
  apply N.ltb_lt in H1. apply N.leb_le in H2. auto.
Qed.

Lemma rdiv_even_cases : forall a b, 0 < b ->
  let q := a / b in let r := a mod b in
  a = b * q + r /\ r < b /\
  ((rdiv_even a b = q /\ 2 * r <= b) \/ (rdiv_even a b = q + 1 /\ b <= 2 * r)).
Proof.
  intros a b Hb q r.
  assert (H1 : a = b * q + r) by (apply N.div_mod; lia).
  assert (H2 : r < b) by (apply N.mod_lt; lia).
  split; [exact H1|]. split; [exact H2|].
  unfold rdiv_even. fold q. fold r.
  destruct (2 * r <? b) eqn:E1.
  - apply N.ltb_lt in E1. left. split; [reflexivity|lia].
  - apply N.ltb_ge in E1. destruct (b <? 2 * r) eqn:E2.
    + right. split; [reflexivity|lia].
    + apply N.ltb_ge in E2. destruct (N.even q); [left|right]; split; try reflexivity; lia.
Qed.

Lemma apply_jitter_bounds : forall d s, valid_sample s = true ->
  d <= 2 * apply_jitter d s /\ apply_jitter d s <= d.
Proof.
  intros d [n m] Hv. apply valid_sample_facts in Hv. destruct Hv as [Hv1 Hv2].
  unfold apply_jitter. cbn [fst snd].
  assert (Hm : 0 < m) by lia.
  destruct (rdiv_even_cases (d * n) m Hm) as (Ha & Hr & Hc).
  cbv zeta in Ha, Hr, Hc.
  remember (d * n / m) as q eqn:Eq. remember ((d * n) mod m) as r eqn:Er. clear Eq Er.
  assert (F1 : d * n <= d * m) by (apply N.mul_le_mono_l; exact Hv2).
  assert (F2 : d * m + d <= 2 * (d * n)).
  { replace (d * m + d) with (d * (m + 1)) by lia.
    replace (2 * (d * n)) with (d * (2 * n)) by lia.
    apply N.mul_le_mono_l. lia. }
  destruct Hc as [[Hx Hc]|[Hx Hc]]; rewrite Hx.
  - split.
    + (* d <= 2q : from d*m + d <= 2(mq + r) <= 2mq + m *)
      destruct (N.le_gt_cases d (2 * q)) as [|Hlt]; [assumption|exfalso].
      assert (m * (2 * q + 1) <= m * d) by (apply N.mul_le_mono_l; lia). nia.
    + destruct (N.le_gt_cases q d) as [|Hlt]; [assumption|exfalso].
      assert (m * (d + 1) <= m * q) by (apply N.mul_le_mono_l; lia). nia.
  - split.
    + destruct (N.le_gt_cases d (2 * (q + 1))) as [|Hlt]; [assumption|exfalso].
      assert (m * (2 * q + 3) <= m * d) by (apply N.mul_le_mono_l; lia). nia.
    + destruct (N.le_gt_cases (q + 1) d) as [|Hlt]; [assumption|exfalso].
      assert (m * d <= m * q) by (apply N.mul_le_mono_l; lia). nia.
Qed.

Lemma in_jitter_range_iff : forall d x,
  in_range (jitter_range d) x = true <-> d <= 2 * x /\ x <= d.
Proof.
  intros d x. unfold in_range, jitter_range. cbn [fst snd].
  rewrite andb_true_iff, !N.leb_le.
  split; intros [H1 H2]; split; try assumption; lia.
Qed.

Lemma apply_jitter_in_range : forall d s, valid_sample s = true ->
  in_range (jitter_range d) (apply_jitter d s) = true.
Proof. intros. apply in_jitter_range_iff. apply apply_jitter_bounds. assumption. Qed.

(* before rounding to whole nanoseconds the product is strictly above d/2 (for d > 0) and at
   most d: 2 * (d * num) > d * den and d * num <= d * den *)
Lemma jitter_factor_strict : forall d n m, valid_sample (n, m) = true -> 0 < d ->
  d * m < 2 * (d * n) /\ d * n <= d * m.
Proof.
  intros d n m Hv Hd. apply valid_sample_facts in Hv. destruct Hv as [H1 H2].
  split.
  - replace (2 * (d * n)) with (d * (2 * n)) by lia. apply N.mul_lt_mono_pos_l; assumption.
  - apply N.mul_le_mono_l. assumption.
Qed.

(* every value of the range is reachable: the range is tight *)
Lemma jitter_range_hi_reached : forall d, apply_jitter d (1, 1) = d.
Proof.
  intro d. unfold apply_jitter, rdiv_even. cbn [fst snd].
  rewrite N.mul_1_r, N.div_1_r, N.mod_1_r. reflexivity.
Qed.

Lemma no_jitter_sample_valid : valid_sample no_jitter_sample = true.
Proof. reflexivity. Qed.

(* ------------------------------------------------------------------ base delays *)

Lemma ndj_policy : forall s, b_policy (snd (next_delay_and_jitter s)) = b_policy s.
Proof.
  intro s. unfold next_delay_and_jitter.
  destruct (b_policy s) as [c d j|c d j [mx|]] eqn:E; cbn [snd]; try assumption; try reflexivity.
  destruct (mx <? d * b_factor s); cbn [snd b_policy]; [assumption|reflexivity].
Qed.

Lemma ndj_remaining : forall s, b_remaining (snd (next_delay_and_jitter s)) = b_remaining s.
Proof.
  intro s. unfold next_delay_and_jitter.
  destruct (b_policy s) as [c d j|c d j [mx|]]; cbn [snd]; try reflexivity.
  destruct (mx <? d * b_factor s); reflexivity.
Qed.

Lemma ndj_jitter : forall s, snd (fst (next_delay_and_jitter s)) = p_jitter (b_policy s).
Proof.
  intro s. unfold next_delay_and_jitter.
  destruct (b_policy s) as [c d j|c d j [mx|]]; cbn [fst snd p_jitter]; try reflexivity.
  destruct (mx <? d * b_factor s); reflexivity.
Qed.

(* the delay sequence depends on policy and factor only *)
Definition same_pf (s1 s2 : bstate) : Prop :=
  b_policy s1 = b_policy s2 /\ b_factor s1 = b_factor s2.

Lemma ndj_same_pf : forall s1 s2, same_pf s1 s2 ->
  fst (next_delay_and_jitter s1) = fst (next_delay_and_jitter s2) /\
  same_pf (snd (next_delay_and_jitter s1)) (snd (next_delay_and_jitter s2)).
Proof.
  intros s1 s2 [Hp Hf]. unfold next_delay_and_jitter. rewrite <- Hp, <- Hf.
  destruct (b_policy s1) as [c d j|c d j [mx|]] eqn:E; cbn [fst snd].
  - split; [reflexivity|]. split; congruence.
  - destruct (mx <? d * b_factor s1); cbn [fst snd].
    + split; [reflexivity|]. split; congruence.
    + split; [reflexivity|]. split; cbn; congruence.
  - split; [reflexivity|]. split; cbn; congruence.
Qed.

Lemma base_delays_same_pf : forall n s1 s2, same_pf s1 s2 ->
  base_delays_from n s1 = base_delays_from n s2.
Proof.
  induction n as [|n IH]; intros s1 s2 H; [reflexivity|].
  cbn [base_delays_from].
  destruct (ndj_same_pf s1 s2 H) as [H1 H2].
  destruct (next_delay_and_jitter s1) as [[d1 j1] s1'].
  destruct (next_delay_and_jitter s2) as [[d2 j2] s2'].
  cbn [fst snd] in *. inversion H1; subst. f_equal. apply IH. assumption.
Qed.

Lemma base_delays_length : forall n s, length (base_delays_from n s) = n.
Proof.
  induction n as [|n IH]; intro s; [reflexivity|].
  cbn [base_delays_from]. destruct (next_delay_and_jitter s) as [[d j] s'].
  cbn [length]. rewrite IH. reflexivity.
Qed.

Lemma delays_length : forall p, length (delays p) = N.to_nat (p_count p).
Proof. intro p. apply base_delays_length. Qed.

(* fixed backoff *)
Lemma base_delays_fixed : forall n s c d j, b_policy s = Fixed c d j ->
  base_delays_from n s = repeat d n.
Proof.
  induction n as [|n IH]; intros s c d j H; [reflexivity|].
  cbn [base_delays_from]. unfold next_delay_and_jitter. rewrite H.
  cbn [repeat]. f_equal. apply (IH s c d j H).
Qed.

Lemma nth_repeat_lt' : forall (d x : N) n k, (k < n)%nat -> nth k (repeat d n) x = d.
Proof.
  induction n as [|n IH]; intros k H; [lia|].
  destruct k; [reflexivity|]. cbn [repeat nth]. apply IH. lia.
Qed.

Lemma delays_fixed_nth : forall c d j k, (k < N.to_nat c)%nat ->
  nth k (delays (Fixed c d j)) 0 = d.
Proof.
  intros c d j k Hk. unfold delays.
  rewrite (base_delays_fixed _ _ c d j) by reflexivity.
  cbn [p_count]. apply nth_repeat_lt'. assumption.
Qed.

(* exponential backoff: the invariant relating the factor to the step number *)
Definition exp_inv (d : N) (m : option N) (k f : N) : Prop :=
  f = 2 ^ k \/ (exists mx i, m = Some mx /\ mx < d * f /\ i <= k /\ f = 2 ^ i).

Lemma exp_step : forall s c d j m k,
  b_policy s = Exponential c d j m -> exp_inv d m k (b_factor s) ->
  fst (fst (next_delay_and_jitter s)) = min_opt (d * 2 ^ k) m /\
  exp_inv d m (k + 1) (b_factor (snd (next_delay_and_jitter s))).
Proof.
  intros s c d j m k Hp Hi. unfold next_delay_and_jitter. rewrite Hp.
  destruct m as [mx|]; cbn [min_opt].
  - destruct (mx <? d * b_factor s) eqn:E; cbn [fst snd b_factor].
    + apply N.ltb_lt in E. destruct Hi as [Hf|(mx' & i & Hm & Hlt & Hik & Hf)].
      * rewrite Hf in E. split; [lia|].
        right. exists mx, k. rewrite Hf. repeat split; try lia; try reflexivity.
      * inversion Hm; subst mx'. split.
        -- assert (2 ^ i <= 2 ^ k) by (apply N.pow_le_mono_r; lia).
           assert (d * 2 ^ i <= d * 2 ^ k) by (apply N.mul_le_mono_l; assumption).
           rewrite Hf in Hlt. lia.
        -- right. exists mx, i. repeat split; try assumption; try lia.
    + apply N.ltb_ge in E. destruct Hi as [Hf|(mx' & i & Hm & Hlt & Hik & Hf)].
      * rewrite Hf in *. split; [lia|]. left. rewrite N.pow_add_r. cbn. lia.
      * inversion Hm; subst mx'. lia.
  - cbn [fst snd b_factor]. destruct Hi as [Hf|(mx' & i & Hm & _)]; [|discriminate].
    rewrite Hf. split; [reflexivity|]. left. rewrite N.pow_add_r. cbn. lia.
Qed.

Lemma base_delays_exp : forall n s c d j m k,
  b_policy s = Exponential c d j m -> exp_inv d m (N.of_nat k) (b_factor s) ->
  forall i, (i < n)%nat ->
    nth i (base_delays_from n s) 0 = min_opt (d * 2 ^ N.of_nat (k + i)) m.
Proof.
  induction n as [|n IH]; intros s c d j m k Hp Hi i Hlt; [lia|].
  cbn [base_delays_from].
  destruct (exp_step s c d j m (N.of_nat k) Hp Hi) as [H1 H2].
  pose proof (ndj_policy s) as H3.
  destruct (next_delay_and_jitter s) as [[d0 j0] s'] eqn:E. cbn [fst snd] in *.
  destruct i as [|i].
  - cbn [nth]. rewrite Nat.add_0_r. exact H1.
  - cbn [nth]. rewrite (IH s' c d j m (S k)).
    + f_equal. f_equal. f_equal. lia.
    + congruence.
    + replace (N.of_nat (S k)) with (N.of_nat k + 1) by lia. exact H2.
    + lia.
Qed.

Lemma delays_exp_nth : forall c d j m k, (k < N.to_nat c)%nat ->
  nth k (delays (Exponential c d j m)) 0 = min_opt (d * 2 ^ N.of_nat k) m.
Proof.
  intros c d j m k Hk. unfold delays. cbn [p_count].
  rewrite (base_delays_exp _ _ c d j m 0%nat); try reflexivity; try assumption.
  left. reflexivity.
Qed.

Lemma delays_nth : forall p k, (k < N.to_nat (p_count p))%nat ->
  nth k (delays p) 0 = delay_spec p k.
Proof.
  intros [c d j|c d j m] k Hk; cbn [delay_spec].
  - apply delays_fixed_nth. exact Hk.
  - apply delays_exp_nth. exact Hk.
Qed.

(* consequences of the closed form *)
Lemma delays_exp_capped : forall c d j mx k, (k < N.to_nat c)%nat ->
  nth k (delays (Exponential c d j (Some mx))) 0 <= mx.
Proof. intros. rewrite delays_exp_nth by assumption. cbn [min_opt]. lia. Qed.

Lemma delays_exp_monotone : forall c d j m k1 k2, (k1 <= k2)%nat -> (k2 < N.to_nat c)%nat ->
  nth k1 (delays (Exponential c d j m)) 0 <= nth k2 (delays (Exponential c d j m)) 0.
Proof.
  intros c d j m k1 k2 H1 H2. rewrite !delays_exp_nth by lia.
  assert (2 ^ N.of_nat k1 <= 2 ^ N.of_nat k2) by (apply N.pow_le_mono_r; lia).
  assert (d * 2 ^ N.of_nat k1 <= d * 2 ^ N.of_nat k2) by (apply N.mul_le_mono_l; assumption).
  destruct m; cbn [min_opt]; lia.
Qed.

(* ------------------------------------------------------------------ the iterator *)

Definition jit (j : bool) (b : N) (s : jsample) : N := if j then apply_jitter b s else b.

Lemma b_next_some : forall js s, 0 < b_remaining s ->
  exists s', b_next js s =
    Some (jit (p_jitter (b_policy s)) (fst (fst (next_delay_and_jitter s))) js, s') /\
    same_pf s' (snd (next_delay_and_jitter s)) /\ b_remaining s' = b_remaining s - 1.
Proof.
  intros js s Hr. unfold b_next.
  apply N.ltb_lt in Hr. rewrite Hr.
  pose proof (ndj_jitter s) as Hj. pose proof (ndj_remaining s) as Hrem.
  destruct (next_delay_and_jitter s) as [[d j] s'] eqn:E. cbn [fst snd] in *.
  eexists. split; [rewrite <- Hj; reflexivity|].
  split; [split; reflexivity|]. cbn [b_remaining]. rewrite Hrem. reflexivity.
Qed.

Lemma b_next_none : forall js s, b_remaining s = 0 -> b_next js s = None.
Proof. intros js s H. unfold b_next. rewrite H. reflexivity. Qed.

Lemma same_pf_policy : forall s1 s2, same_pf s1 s2 -> b_policy s1 = b_policy s2.
Proof. intros s1 s2 [H _]. exact H. Qed.

(* k-th call of next(): Some (jittered k-th base delay) while k < remaining, None afterwards *)
Lemma iter_take_nth : forall take js s k, (k < take)%nat ->
  nth k (iter_take take js s) None =
  if (N.of_nat k <? b_remaining s)
  then Some (jit (p_jitter (b_policy s))
                 (nth k (base_delays_from (N.to_nat (b_remaining s)) s) 0)
                 (nth k js no_jitter_sample))
  else None.
Proof.
  induction take as [|take IH]; intros js s k Hk; [lia|].
  cbn [iter_take].
  destruct (N.eq_dec (b_remaining s) 0) as [Hz|Hnz].
  - rewrite (b_next_none _ _ Hz). rewrite Hz.
    replace (N.of_nat k <? 0) with false by (symmetry; apply N.ltb_ge; lia).
    destruct k as [|k]; [reflexivity|]. cbn [nth].
    rewrite IH by lia. rewrite Hz.
    replace (N.of_nat k <? 0) with false by (symmetry; apply N.ltb_ge; lia). reflexivity.
  - assert (Hr : 0 < b_remaining s) by lia.
    destruct (b_next_some (hd no_jitter_sample js) s Hr) as (s' & Hn & Hpf & Hrem).
    rewrite Hn.
    destruct (N.to_nat (b_remaining s)) as [|r] eqn:Er; [lia|].
    cbn [base_delays_from].
    pose proof (ndj_policy s) as Hpol.
    destruct (next_delay_and_jitter s) as [[d0 j0] s0] eqn:E0. cbn [fst snd] in *.
    destruct k as [|k].
    + cbn [nth]. replace (N.of_nat 0 <? b_remaining s) with true
        by (symmetry; apply N.ltb_lt; lia).
      destruct js; reflexivity.
    + cbn [nth]. rewrite IH by lia.
      rewrite Hrem.
      replace (N.of_nat k <? b_remaining s - 1) with (N.of_nat (S k) <? b_remaining s).
      2:{ destruct (N.of_nat (S k) <? b_remaining s) eqn:E1; symmetry.
          - apply N.ltb_lt in E1. apply N.ltb_lt. lia.
          - apply N.ltb_ge in E1. apply N.ltb_ge. lia. }
      destruct (N.of_nat (S k) <? b_remaining s); [|reflexivity].
      rewrite (same_pf_policy _ _ Hpf), Hpol.
      replace (N.to_nat (b_remaining s - 1)) with r by lia.
      rewrite (base_delays_same_pf r s' s0 Hpf).
      destruct js as [|x js]; cbn [tl nth]; [|reflexivity].
      destruct k; reflexivity.
Qed.

Lemma iter_take_length : forall take js s, length (iter_take take js s) = take.
Proof.
  induction take as [|take IH]; intros js s; [reflexivity|].
  cbn [iter_take]. destruct (b_next (hd no_jitter_sample js) s) as [[d s']|];
    cbn [length]; rewrite IH; reflexivity.
Qed.

Lemma iter_new_nth : forall p take js k, (k < take)%nat ->
  nth k (iter_take take js (b_new p)) None =
  if (N.of_nat k <? p_count p)
  then Some (jit (p_jitter p) (nth k (delays p) 0) (nth k js no_jitter_sample))
  else None.
Proof. intros p take js k Hk. rewrite iter_take_nth by assumption. reflexivity. Qed.

(* ------------------------------------------------------------------ the attempt loop *)

Section LoopProofs.
  Variable R : Type.
  Variable succ : R -> bool.

  Definition nrange (a : N) (n : nat) : list N := map (fun i => a + N.of_nat i) (seq 0 n).

  Lemma nrange_S : forall a n, nrange a (S n) = a :: nrange (a + 1) n.
  Proof.
    intros a n. unfold nrange. cbn [seq map]. f_equal; [lia|].
    rewrite <- seq_shift, map_map. apply map_ext. intro i. lia.
  Qed.

  Lemma nrange_1 : forall a, nrange a 1 = [a].
  Proof. intro a. unfold nrange. cbn [seq map]. f_equal. lia. Qed.

  (* the loop with every retry handshake accepted *)
  Lemma loop_all_accepted : forall fuel a delay bs total outcome accept js,
    (forall k, accept k = true) ->
    1 <= a -> a <= total -> b_remaining bs + a = total ->
    total < a + N.of_nat fuel ->
    exists n : nat,
      let '(l, e) := attempt_loop R succ fuel a delay bs total outcome accept js in
      e = Finished /\
      length l = S n /\
      a + N.of_nat n <= total /\
      map at_no l = nrange a (S n) /\
      map at_result l = map outcome (nrange a (S n)) /\
      (forall i, (i < n)%nat -> succ (outcome (a + N.of_nat i)) = false) /\
      (succ (outcome (a + N.of_nat n)) = true \/ a + N.of_nat n = total) /\
      (forall i, (i < S n)%nat ->
         nth i (map at_delay_before l) 0 =
         match i with
         | O => delay
         | S i' => jit (p_jitter (b_policy bs))
                       (nth i' (base_delays_from (N.to_nat (b_remaining bs)) bs) 0)
                       (js (a + N.of_nat i'))
         end).
  Proof.
    induction fuel as [|fuel IH]; intros a delay bs total outcome accept js Hacc H1 H2 Hrem Hfuel;
      [lia|].
    cbn [attempt_loop]. rewrite Hacc. cbn [negb]. rewrite andb_false_r.
    destruct (succ (outcome a)) eqn:Es.
    - exists 0%nat. cbn [length map nth]. rewrite N.add_0_r, nrange_1. cbn [map at_no at_result].
      repeat split; auto; try lia.
      intros i Hi. destruct i; [reflexivity|lia].
    - destruct (a <? total) eqn:Elt.
      + apply N.ltb_lt in Elt.
        assert (Hr : 0 < b_remaining bs) by lia.
        destruct (b_next_some (js a) bs Hr) as (bs' & Hn & Hpf & Hrem').
        rewrite Hn.
        specialize (IH (a + 1)
                       (jit (p_jitter (b_policy bs)) (fst (fst (next_delay_and_jitter bs))) (js a))
                       bs' total outcome accept js Hacc).
        destruct IH as [n IH]; try lia.
        destruct (attempt_loop R succ fuel (a + 1) _ bs' total outcome accept js) as [l e].
        destruct IH as (He & Hlen & Hle & Hno & Hres & Hfail & Hlast & Hdel).
        exists (S n). cbn [length map].
        rewrite (nrange_S a (S n)). cbn [map].
        replace (a + N.of_nat (S n)) with (a + 1 + N.of_nat n) by lia.
        repeat split; auto; try lia.
        * rewrite Hno. reflexivity.
        * rewrite Hres. reflexivity.
        * intros i Hi. destruct i as [|i]; [rewrite N.add_0_r; exact Es|].
          replace (a + N.of_nat (S i)) with (a + 1 + N.of_nat i) by lia. apply Hfail. lia.
        * intros i Hi. destruct i as [|i]; [reflexivity|].
          cbn [nth]. rewrite (Hdel i) by lia.
          destruct (N.to_nat (b_remaining bs)) as [|r] eqn:Er; [lia|].
          cbn [base_delays_from].
          pose proof (ndj_policy bs) as Hpol.
          destruct (next_delay_and_jitter bs) as [[d0 j0] s0] eqn:E0. cbn [fst snd] in *.
          destruct i as [|i].
          -- cbn [nth]. rewrite N.add_0_r. reflexivity.
          -- cbn [nth]. rewrite (same_pf_policy _ _ Hpf), Hpol.
             replace (N.to_nat (b_remaining bs')) with r by lia.
             rewrite (base_delays_same_pf r bs' s0 Hpf).
             replace (a + 1 + N.of_nat i) with (a + N.of_nat (S i)) by lia. reflexivity.
      + apply N.ltb_ge in Elt. exists 0%nat. cbn [length map nth].
        rewrite N.add_0_r, nrange_1. cbn [map at_no at_result].
        repeat split; auto; try lia.
        intros i Hi. destruct i; [reflexivity|lia].
  Qed.

  (* with arbitrary handshake answers: never a panic, never out of fuel; what was run is a
     prefix of the uncancelled run; after a refusal nothing more is run *)
  Lemma loop_any_accept : forall fuel a delay bs total outcome accept js,
    1 <= a -> a <= total -> b_remaining bs + a = total ->
    total < a + N.of_nat fuel ->
    let '(l, e) := attempt_loop R succ fuel a delay bs total outcome accept js in
    let '(l0, _) := attempt_loop R succ fuel a delay bs total outcome (fun _ => true) js in
    (e = Finished /\ l = l0) \/
    (e = Refused /\ exists rest, l0 = l ++ rest /\ rest <> [] /\
                    1 < a + N.of_nat (length l) /\
                    accept (a + N.of_nat (length l)) = false).
  Proof.
    induction fuel as [|fuel IH]; intros a delay bs total outcome accept js H1 H2 Hrem Hfuel;
      [lia|].
    cbn [attempt_loop]. cbn [negb]. rewrite andb_false_r.
    destruct ((1 <? a) && negb (accept a)) eqn:Eacc.
    - apply andb_true_iff in Eacc. destruct Eacc as [Ea Eb].
      apply N.ltb_lt in Ea. apply negb_true_iff in Eb.
      match goal with |- let '(_, _) := ?X in _ => destruct X as [l0 e0] eqn:E0 end.
      right. split; [reflexivity|]. exists l0. cbn [app length]. rewrite N.add_0_r.
      repeat split; auto.
      destruct (succ (outcome a)); [inversion E0; discriminate|].
      destruct (a <? total); [|inversion E0; discriminate].
      destruct (b_next (js a) bs) as [[d bs']|]; [|inversion E0; discriminate].
      destruct (attempt_loop R succ fuel (a + 1) d bs' total outcome (fun _ => true) js).
      inversion E0; discriminate.
    - destruct (succ (outcome a)) eqn:Es; [left; split; reflexivity|].
      destruct (a <? total) eqn:Elt; [|left; split; reflexivity].
      apply N.ltb_lt in Elt.
      assert (Hr : 0 < b_remaining bs) by lia.
      destruct (b_next_some (js a) bs Hr) as (bs' & Hn & Hpf & Hrem').
      rewrite Hn.
      specialize (IH (a + 1)
                     (jit (p_jitter (b_policy bs)) (fst (fst (next_delay_and_jitter bs))) (js a))
                     bs' total outcome accept js).
      destruct (attempt_loop R succ fuel (a + 1) _ bs' total outcome accept js) as [l e].
      destruct (attempt_loop R succ fuel (a + 1) _ bs' total outcome (fun _ => true) js)
        as [l0 e0].
      destruct IH as [[He Hl]|[He (rest & Hl & Hne & Hgt & Hacc)]]; try lia.
      + left. split; [assumption|]. rewrite Hl. reflexivity.
      + right. split; [assumption|]. exists rest. cbn [app length].
        replace (a + N.of_nat (S (length l))) with (a + 1 + N.of_nat (length l)) by lia.
        repeat split; auto. rewrite Hl. reflexivity.
  Qed.

  (* first_pass *)
  Lemma first_pass_from_spec : forall n k total outcome,
    1 <= k -> k <= total -> total < k + N.of_nat n ->
    let r := first_pass_from R succ n k total outcome in
    k <= r /\ r <= total /\
    (forall i, k <= i -> i < r -> succ (outcome i) = false) /\
    (succ (outcome r) = true \/ r = total).
  Proof.
    induction n as [|n IH]; intros k total outcome H1 H2 H3; [lia|].
    cbn [first_pass_from].
    destruct (succ (outcome k)) eqn:Es.
    - cbn zeta. repeat split; auto; try lia.
    - destruct (k <? total) eqn:Elt.
      + apply N.ltb_lt in Elt.
        specialize (IH (k + 1) total outcome). cbn zeta in IH.
        destruct IH as (Ha & Hb & Hc & Hd); try lia.
        cbn zeta. repeat split; auto; try lia.
        intros i Hi1 Hi2. destruct (N.eq_dec i k) as [->|Hne]; [exact Es|].
        apply Hc; lia.
      + apply N.ltb_ge in Elt. cbn zeta. repeat split; auto; try lia.
  Qed.

  Lemma first_pass_spec : forall total outcome, 1 <= total ->
    let r := first_pass R succ total outcome in
    1 <= r /\ r <= total /\
    (forall i, 1 <= i -> i < r -> succ (outcome i) = false) /\
    (succ (outcome r) = true \/ r = total).
  Proof.
    intros total outcome H. unfold first_pass.
    apply first_pass_from_spec; lia.
  Qed.

  Lemma first_pass_unique : forall total outcome n, 1 <= total ->
    1 <= n -> n <= total ->
    (forall i, 1 <= i -> i < n -> succ (outcome i) = false) ->
    (succ (outcome n) = true \/ n = total) ->
    n = first_pass R succ total outcome.
  Proof.
    intros total outcome n Ht H1 H2 H3 H4.
    destruct (first_pass_spec total outcome Ht) as (F1 & F2 & F3 & F4).
    set (r := first_pass R succ total outcome) in *.
    destruct (N.lt_trichotomy n r) as [Hlt|[Heq|Hgt]]; [|assumption|].
    - destruct H4 as [H4|H4]; [|lia]. rewrite (F3 n H1 Hlt) in H4. discriminate.
    - destruct F4 as [F4|F4]; [|lia]. rewrite (H3 r F1 Hgt) in F4. discriminate.
  Qed.

  (* ---- run_test_instance *)
  Definition applied_delay (p : policy) (js : N -> jsample) (k : nat) : N :=
    jit (p_jitter p) (nth k (delays p) 0) (js (1 + N.of_nat k)).

  Lemma run_all_accepted : forall force settings outcome accept js,
    (forall k, accept k = true) ->
    let p := effective_policy force settings in
    let total := p_count p + 1 in
    let n := first_pass R succ total outcome in
    let '(l, e) := run_test_instance R succ force settings outcome accept js in
    e = Finished /\
    N.of_nat (length l) = n /\
    map at_no l = nrange 1 (N.to_nat n) /\
    map at_result l = map outcome (nrange 1 (N.to_nat n)) /\
    (forall i, (i < length l)%nat ->
       nth i (map at_delay_before l) 0 =
       match i with O => 0 | S i' => applied_delay p js i' end).
  Proof.
    intros force settings outcome accept js Hacc p total n.
    unfold run_test_instance. fold p.
    destruct (loop_all_accepted (S (N.to_nat (p_count p))) 1 0 (b_new p) total outcome accept js
                                Hacc) as [m H]; try (unfold total; cbn [b_new b_remaining]; lia).
    fold total.
    destruct (attempt_loop R succ (S (N.to_nat (p_count p))) 1 0 (b_new p) total outcome accept js)
      as [l e].
    destruct H as (He & Hlen & Hle & Hno & Hres & Hfail & Hlast & Hdel).
    assert (Hn : 1 + N.of_nat m = n).
    { unfold n. apply first_pass_unique; try (unfold total; lia).
      - intros i Hi1 Hi2.
        replace i with (1 + N.of_nat (N.to_nat (i - 1))) by lia. apply Hfail. lia.
      - exact Hlast. }
    replace (N.to_nat n) with (S m) by lia.
    repeat split; auto; try lia.
    intros i Hi. rewrite Hdel by lia. destruct i; reflexivity.
  Qed.

  Lemma run_never_panics : forall force settings outcome accept js,
    let '(l, e) := run_test_instance R succ force settings outcome accept js in
    let '(l0, _) := run_test_instance R succ force settings outcome (fun _ => true) js in
    (e = Finished /\ l = l0) \/
    (e = Refused /\ exists rest, l0 = l ++ rest /\ rest <> [] /\ l <> [] /\
                    accept (1 + N.of_nat (length l)) = false).
  Proof.
    intros force settings outcome accept js. unfold run_test_instance.
    set (p := effective_policy force settings).
    pose proof (loop_any_accept (S (N.to_nat (p_count p))) 1 0 (b_new p) (p_count p + 1)
                                outcome accept js) as H.
    destruct (attempt_loop R succ (S (N.to_nat (p_count p))) 1 0 (b_new p) (p_count p + 1)
                           outcome accept js) as [l e].
    destruct (attempt_loop R succ (S (N.to_nat (p_count p))) 1 0 (b_new p) (p_count p + 1)
                           outcome (fun _ => true) js) as [l0 e0].
    destruct H as [H|[He (rest & Hl & Hne & Hgt & Hacc)]];
      try (cbn [b_new b_remaining]; lia); [left; exact H|].
    right. split; [assumption|]. exists rest. repeat split; auto.
    intro Hnil. subst l. cbn [length] in Hgt. lia.
  Qed.

  (* force_retries replaces the per-test policy: the test's own policy is irrelevant *)
  Lemma force_replaces : forall fp s1 s2 outcome accept js,
    run_test_instance R succ (Some fp) s1 outcome accept js =
    run_test_instance R succ (Some fp) s2 outcome accept js.
  Proof. reflexivity. Qed.

  Lemma force_is_policy : forall fp s outcome accept js,
    run_test_instance R succ (Some fp) s outcome accept js =
    run_test_instance R succ None fp outcome accept js.
  Proof. reflexivity. Qed.
End LoopProofs.

(* --retries N: N retries, no delay, whatever the per-test policy says *)
Lemma cli_delays_zero : forall n k, (k < N.to_nat n)%nat ->
  nth k (delays (new_without_delay n)) 0 = 0.
Proof. intros n k H. unfold new_without_delay. apply delays_fixed_nth. exact H. Qed.

(* ------------------------------------------------------------------ packaged statements *)
Lemma jitter_all : forall d s, valid_sample s = true ->
  in_range (jitter_range d) (apply_jitter d s) = true /\
  d <= 2 * apply_jitter d s /\ apply_jitter d s <= d.
Proof.
  intros d s H. split; [exact (apply_jitter_in_range d s H)|exact (apply_jitter_bounds d s H)].
Qed.

Lemma cli_replaces_both :
  forall (R : Type) (succ : R -> bool) fp s1 s2 outcome accept js,
    run_test_instance R succ (Some fp) s1 outcome accept js =
    run_test_instance R succ (Some fp) s2 outcome accept js /\
    run_test_instance R succ (Some fp) s1 outcome accept js =
    run_test_instance R succ None fp outcome accept js.
Proof. intros. split; [apply force_replaces|apply force_is_policy]. Qed.

Lemma cli_no_delay_both : forall n k, (k < N.to_nat n)%nat ->
  p_count (new_without_delay n) = n /\ nth k (delays (new_without_delay n)) 0 = 0.
Proof. intros n k H. split; [reflexivity|exact (cli_delays_zero n k H)]. Qed.
