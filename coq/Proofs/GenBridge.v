(* Bridge lemmas (DESIGN 11.7): each decision function that harness/src/bin/decisions.rs regenerates
   from the Rust source into gen/GenDecisions.v equals, on ALL inputs, the hand-written model
   function the property theorems are about. The proofs are structure-agnostic: unfold everything
   except arithmetic, split on every [if] and [match] that is stuck, close the leaves with
   lia / congruence. A semantics-preserving rewrite of the Rust function (early returns instead of an
   if-chain, reordered independent arms, or-patterns, renamed locals, an extracted helper) changes
   the generated text but not its meaning, and the same script still proves the lemma; a rewrite
   that changes the decision on some input makes a leaf unprovable and the file stops compiling,
   which lib/gen_tie.py reports as a broken obligation of the properties wired to that function.

   Layout: the file is cut into blocks by marker comments "== block NAME (needs A B) ==", so that
   lib/gen_tie.py can re-check one function at a time when the whole file does not compile (the
   blocks a block needs are listed in its marker). The first block is the preamble. *)
(* == block preamble == *)
From Coq Require Import List NArith ZArith Bool Lia.
From Coq Require Strings.String.
From NextestModel Require Import Base.Tac.
From NextestModel Require gen.GenDecisions.
From NextestModel Require Model.Result Model.Dispatcher Model.Junit Model.UnitTimers Model.Filter Model.FilterFull.
From NextestModel Require Model.Backoff Model.CliRun Proofs.CliRun.
From NextestModel Require Model.EarlyReturn Proofs.EarlyReturn.
From NextestModel Require Model.AttemptDecision Proofs.AttemptDecision.
From NextestModel Require Model.Overrides Model.Scripts.
From NextestModel Require Model.SpawnSetup Proofs.SpawnSetup.
Import ListNotations.
Open Scope N_scope.

Module G := NextestModel.gen.GenDecisions.Gen.
Module MR := NextestModel.Model.Result.
Module MD := NextestModel.Model.Dispatcher.
Module MJ := NextestModel.Model.Junit.
Module MU := NextestModel.Model.UnitTimers.
Module MF := NextestModel.Model.FilterFull.
Module MFl := NextestModel.Model.Filter.
Module MB := NextestModel.Model.Backoff.
Module MC := NextestModel.Model.CliRun.
Module PC := NextestModel.Proofs.CliRun.
Module MER := NextestModel.Model.EarlyReturn.
Module PER := NextestModel.Proofs.EarlyReturn.
Module MA := NextestModel.Model.AttemptDecision.
Module PA := NextestModel.Proofs.AttemptDecision.
Module MO := NextestModel.Model.Overrides.
Module MSc := NextestModel.Model.Scripts.
Module MSp := NextestModel.Model.SpawnSetup.
Module PSp := NextestModel.Proofs.SpawnSetup.

(* boolean comparisons in hypotheses -> propositions lia understands *)
Ltac b2p :=
  repeat match goal with
  | H : N.ltb _ _ = true |- _ => apply N.ltb_lt in H
  | H : N.ltb _ _ = false |- _ => apply N.ltb_ge in H
  | H : N.leb _ _ = true |- _ => apply N.leb_le in H
  | H : N.leb _ _ = false |- _ => apply N.leb_gt in H
  | H : N.eqb _ _ = true |- _ => apply N.eqb_eq in H
  | H : N.eqb _ _ = false |- _ => apply N.eqb_neq in H
  | H : Z.ltb _ _ = true |- _ => apply Z.ltb_lt in H
  | H : Z.ltb _ _ = false |- _ => apply Z.ltb_ge in H
  | H : Z.leb _ _ = true |- _ => apply Z.leb_le in H
  | H : Z.leb _ _ = false |- _ => apply Z.leb_gt in H
  | H : Z.eqb _ _ = true |- _ => apply Z.eqb_eq in H
  | H : Z.eqb _ _ = false |- _ => apply Z.eqb_neq in H
  | H : Bool.eqb _ _ = true |- _ => apply Bool.eqb_prop in H
  | H : Bool.eqb _ _ = false |- _ => apply Bool.eqb_false_iff in H
  | H : negb _ = true |- _ => apply negb_true_iff in H
  | H : negb _ = false |- _ => apply negb_false_iff in H
  | H : andb _ _ = true |- _ => apply andb_true_iff in H; destruct H
  | H : orb _ _ = false |- _ => apply orb_false_iff in H; destruct H
  end.

(* unfold every definition of both sides (whatever it is called), keep arithmetic folded, then
   evaluate the closed arithmetic that remains *)
Ltac bridge_norm :=
  cbv -[N.add N.sub N.mul N.ltb N.leb N.eqb N.min N.max N.of_nat N.to_nat Z.add Z.mul Z.ltb Z.leb Z.eqb
        Z.of_N Z.to_N Bool.eqb List.last List.length List.removelast List.repeat List.app];
  cbn [N.add N.sub N.mul N.ltb N.leb N.eqb N.compare Pos.compare Pos.compare_cont Pos.eqb Pos.add Pos.succ
       Pos.sub Pos.mul List.length List.app Bool.eqb negb andb orb].

(* split on a stuck [if] / [match] whose scrutinee contains no further [match] (innermost first) *)
Ltac no_match t := lazymatch t with context [match _ with _ => _ end] => fail | _ => idtac end.
Ltac bridge_case :=
  match goal with
  | |- context [match ?x with _ => _ end] => is_var x; destruct x
  | |- context [if ?c then _ else _] => no_match c; destruct c eqn:?
  | |- context [match ?x with _ => _ end] => no_match x; destruct x eqn:?
  end.

(* [C a b = C a' b'] for a constructor C: argument by argument (never under an arithmetic
   operator; f_equal is not used because it is very slow on the 17-field statistics record) *)
Lemma f_apply {A B : Type} (f g : A -> B) (a b : A) : f = g -> a = b -> f a = g b.
Proof. intros; subst; reflexivity. Qed.
Ltac head_of t := match t with ?f _ => head_of f | _ => t end.
Ltac ctor_eq :=
  lazymatch goal with
  | |- ?a = _ =>
      first [ reflexivity
            | lazymatch a with
              | ?f _ => let h := head_of f in is_constructor h; apply f_apply; [ctor_eq | ctor_eq]
              end
            | lia ]
  end.

Ltac bridge_leaf :=
  cbn [List.length List.app] in *; b2p; subst;
  first [ solve [ctor_eq] | solve [exfalso; lia] | congruence | solve [exfalso; congruence] ].

(* (bounded: a generated function that makes the case analysis explode is a failure, not a hang) *)
Ltac bridge :=
  timeout 240 (intros; bridge_norm; repeat (bridge_case; cbv beta iota); bridge_leaf).

(* == block conv_stats == *)
(* RunStats: field for field, in declaration order *)
Definition stats_to_model (s : G.RunStats) : MR.stats :=
  MR.mk_stats (G.RunStats_initial_run_count s) (G.RunStats_finished_count s)
    (G.RunStats_setup_scripts_initial_count s) (G.RunStats_setup_scripts_finished_count s)
    (G.RunStats_setup_scripts_passed s) (G.RunStats_setup_scripts_failed s)
    (G.RunStats_setup_scripts_exec_failed s) (G.RunStats_setup_scripts_timed_out s)
    (G.RunStats_passed s) (G.RunStats_passed_slow s) (G.RunStats_flaky s) (G.RunStats_failed s)
    (G.RunStats_failed_slow s) (G.RunStats_timed_out s) (G.RunStats_leaky s) (G.RunStats_exec_failed s)
    (G.RunStats_skipped s).

(* == block conv_result == *)
(* ExecutionResult. The abort status is a signal number: i32 in Rust (Z), N in the model. *)
Definition abort_to_model (a : G.AbortStatus) : N :=
  match a with G.AbortStatus_UnixSignal z => Z.to_N z end.
Definition result_to_model (r : G.ExecutionResult) : MR.result :=
  match r with
  | G.ExecutionResult_Pass => MR.Pass
  | G.ExecutionResult_Leak => MR.Leak
  | G.ExecutionResult_Fail a l => MR.Fail (option_map abort_to_model a) l
  | G.ExecutionResult_ExecFail => MR.ExecFail
  | G.ExecutionResult_Timeout => MR.Timeout
  end.
Definition result_of_model (r : MR.result) : G.ExecutionResult :=
  match r with
  | MR.Pass => G.ExecutionResult_Pass
  | MR.Leak => G.ExecutionResult_Leak
  | MR.Fail a l => G.ExecutionResult_Fail (option_map (fun n => G.AbortStatus_UnixSignal (Z.of_N n)) a) l
  | MR.ExecFail => G.ExecutionResult_ExecFail
  | MR.Timeout => G.ExecutionResult_Timeout
  end.

(* == block conv_final == *)
Definition fkind_to_model (k : G.RunStatsFailureKind) : MR.fkind :=
  match k with
  | G.RunStatsFailureKind_SetupScript => MR.KScript
  | G.RunStatsFailureKind_Test i n => MR.KTest i n
  end.
Definition final_to_model (f : G.FinalRunStats) : MR.final :=
  match f with
  | G.FinalRunStats_Success => MR.Success
  | G.FinalRunStats_NoTestsRun => MR.NoTestsRun
  | G.FinalRunStats_Cancelled k => MR.Cancelled (fkind_to_model k)
  | G.FinalRunStats_Failed k => MR.Failed (fkind_to_model k)
  end.

(* == block conv_statuses (needs conv_result) == *)
(* ExecutionStatuses is a non-empty vector; the generated functions see it through the observers
   last_status(), len() and statuses.len(). This is the view of a model vector. *)
Definition status_view (a : MR.attempt) : G.ExecuteStatus :=
  G.mk_ExecuteStatus (result_of_model (MR.a_res a)) (MR.a_slow a).
Definition statuses_view (st : MR.statuses) : G.ExecutionStatuses :=
  G.mk_ExecutionStatuses (status_view (MR.st_last st)) (MR.st_len st) (MR.st_len st).

(* == block failed_count (needs conv_stats) == *)
Lemma gen_failed_count_is_model :
  forall s, G.RunStats_failed_count s = MR.failed_count (stats_to_model s).
Proof. bridge. Qed.

(* == block failed_setup_script_count (needs conv_stats) == *)
Lemma gen_failed_setup_script_count_is_model :
  forall s, G.RunStats_failed_setup_script_count s = MR.failed_setup_script_count (stats_to_model s).
Proof. bridge. Qed.

(* == block summarize_final (needs conv_stats conv_final) == *)
Lemma gen_summarize_final_is_model :
  forall s, final_to_model (G.RunStats_summarize_final s) = MR.summarize_final (stats_to_model s).
Proof. bridge. Qed.

(* == block is_success (needs conv_result) == *)
Lemma gen_is_success_is_model :
  forall r, G.ExecutionResult_is_success r = MR.is_success (result_to_model r).
Proof. bridge. Qed.

(* == block on_test_finished (needs conv_stats conv_result conv_statuses) == *)
Lemma gen_on_test_finished_is_model :
  forall s st,
    stats_to_model (G.RunStats_on_test_finished s (statuses_view st)) =
    MR.on_test_finished (stats_to_model s) st.
Proof. bridge. Qed.

(* == block on_setup_script_finished (needs conv_stats conv_result) == *)
Lemma gen_on_setup_script_finished_is_model :
  forall s v,
    stats_to_model (G.RunStats_on_setup_script_finished s v) =
    MR.on_script_finished (stats_to_model s) (result_to_model (G.SetupScriptExecuteStatus_result v)).
Proof. bridge. Qed.

(* == block describe (needs conv_result conv_statuses) == *)
Definition desc_code (d : G.ExecutionDescription) : N :=
  match d with
  | G.ExecutionDescription_Success => 0
  | G.ExecutionDescription_Flaky => 1
  | G.ExecutionDescription_Failure => 2
  end.
Lemma gen_describe_is_model :
  forall st, desc_code (G.ExecutionStatuses_describe (statuses_view st)) = MR.describe st.
Proof. bridge. Qed.

(* ---------------------------------------------------------------- the C17 model (Model/Junit.v) *)
(* == block conv_jstats == *)
Definition stats_to_junit (s : G.RunStats) : MJ.stats :=
  MJ.mk_stats (G.RunStats_initial_run_count s) (G.RunStats_finished_count s)
    (G.RunStats_setup_scripts_initial_count s) (G.RunStats_setup_scripts_finished_count s)
    (G.RunStats_setup_scripts_passed s) (G.RunStats_setup_scripts_failed s)
    (G.RunStats_setup_scripts_exec_failed s) (G.RunStats_setup_scripts_timed_out s)
    (G.RunStats_passed s) (G.RunStats_passed_slow s) (G.RunStats_flaky s) (G.RunStats_failed s)
    (G.RunStats_failed_slow s) (G.RunStats_timed_out s) (G.RunStats_leaky s) (G.RunStats_exec_failed s)
    (G.RunStats_skipped s).

(* == block conv_jresult == *)
(* the C17 model keeps "was it an abort" instead of the signal number *)
Definition result_to_junit (r : G.ExecutionResult) : MJ.jresult :=
  match r with
  | G.ExecutionResult_Pass => MJ.JPass
  | G.ExecutionResult_Leak => MJ.JLeak
  | G.ExecutionResult_Fail a l => MJ.JFail (match a with Some _ => true | None => false end) l
  | G.ExecutionResult_ExecFail => MJ.JExecFail
  | G.ExecutionResult_Timeout => MJ.JTimeout
  end.
Definition result_of_junit (r : MJ.jresult) : G.ExecutionResult :=
  match r with
  | MJ.JPass => G.ExecutionResult_Pass
  | MJ.JLeak => G.ExecutionResult_Leak
  | MJ.JFail a l => G.ExecutionResult_Fail (if a then Some (G.AbortStatus_UnixSignal 0%Z) else None) l
  | MJ.JExecFail => G.ExecutionResult_ExecFail
  | MJ.JTimeout => G.ExecutionResult_Timeout
  end.

(* == block conv_jstatuses (needs conv_jresult) == *)
(* first attempt + the remaining ones: last_status() is the last of them, len() their number *)
Definition jstatus_view (a : MJ.jattempt) : G.ExecuteStatus :=
  G.mk_ExecuteStatus (result_of_junit (MJ.ja_res a)) (MJ.ja_slow a).
Definition jstatuses_view (first : MJ.jattempt) (rest : list MJ.jattempt) : G.ExecutionStatuses :=
  G.mk_ExecutionStatuses (jstatus_view (MJ.last_attempt first rest))
    (N.of_nat (length rest) + 1) (N.of_nat (length rest) + 1).

(* == block conv_jfinal == *)
Definition final_to_junit (f : G.FinalRunStats) : MJ.final_stats :=
  match f with
  | G.FinalRunStats_Success => MJ.FSuccess
  | G.FinalRunStats_NoTestsRun => MJ.FNoTestsRun
  | G.FinalRunStats_Cancelled G.RunStatsFailureKind_SetupScript => MJ.FCancelledScript
  | G.FinalRunStats_Failed G.RunStatsFailureKind_SetupScript => MJ.FFailedScript
  | G.FinalRunStats_Cancelled (G.RunStatsFailureKind_Test i n) => MJ.FCancelledTest i n
  | G.FinalRunStats_Failed (G.RunStatsFailureKind_Test i n) => MJ.FFailedTest i n
  end.

(* == block junit_summarize_final (needs conv_jstats conv_jfinal) == *)
Lemma gen_summarize_final_is_junit_model :
  forall s, final_to_junit (G.RunStats_summarize_final s) = MJ.summarize_final (stats_to_junit s).
Proof. bridge. Qed.

(* == block junit_is_success (needs conv_jresult) == *)
Lemma gen_is_success_is_junit_model :
  forall r, G.ExecutionResult_is_success r = MJ.jis_success (result_to_junit r).
Proof. bridge. Qed.

(* == block junit_on_test_finished (needs conv_jstats conv_jresult conv_jstatuses) == *)
Lemma gen_on_test_finished_is_junit_model :
  forall s first rest,
    stats_to_junit (G.RunStats_on_test_finished s (jstatuses_view first rest)) =
    MJ.on_test_finished (stats_to_junit s) first rest.
Proof. bridge. Qed.

(* == block junit_on_setup_script_finished (needs conv_jstats conv_jresult) == *)
Lemma gen_on_setup_script_finished_is_junit_model :
  forall s v,
    stats_to_junit (G.RunStats_on_setup_script_finished s v) =
    MJ.on_script_finished (stats_to_junit s) (result_to_junit (G.SetupScriptExecuteStatus_result v)).
Proof. bridge. Qed.

(* == block junit_describe (needs conv_jresult conv_jstatuses) == *)
(* shape only: which variant *)
Definition jdesc_code (d : MJ.jdesc) : N :=
  match d with MJ.DSuccess _ => 0 | MJ.DFlaky _ _ => 1 | MJ.DFailure _ _ _ => 2 end.
Definition gdesc_code (d : G.ExecutionDescription) : N :=
  match d with
  | G.ExecutionDescription_Success => 0
  | G.ExecutionDescription_Flaky => 1
  | G.ExecutionDescription_Failure => 2
  end.
Lemma gen_describe_is_junit_model :
  forall first rest,
    gdesc_code (G.ExecutionStatuses_describe (jstatuses_view first rest)) =
    jdesc_code (MJ.describe first rest).
Proof. bridge. Qed.

(* ---------------------------------------------------------------- dispatcher (Model/Dispatcher.v) *)
(* == block conv_cancel_reason == *)
Definition reason_to_model (c : G.CancelReason) : MD.cancel_reason :=
  match c with
  | G.CancelReason_SetupScriptFailure => MD.SetupScriptFailure
  | G.CancelReason_TestFailure => MD.TestFailure
  | G.CancelReason_ReportError => MD.ReportError
  | G.CancelReason_Signal => MD.Signal
  | G.CancelReason_Interrupt => MD.Interrupt
  | G.CancelReason_SecondSignal => MD.SecondSignal
  end.

(* == block cancel_reason_rank (needs conv_cancel_reason) == *)
(* derive(PartialOrd, Ord): the declaration order of the variants is the model's [rank] *)
Lemma gen_cancel_reason_rank_is_model :
  forall c, G.CancelReason_rank c = MD.rank (reason_to_model c).
Proof. bridge. Qed.

(* == block is_exceeded == *)
Definition max_fail_to_model (m : G.MaxFail) : option N :=
  match m with G.MaxFail_Count n => Some n | G.MaxFail_All => None end.
Lemma gen_is_exceeded_is_model :
  forall m failed, G.MaxFail_is_exceeded m failed = MD.max_fail_exceeded (max_fail_to_model m) failed.
Proof. bridge. Qed.

(* == block conv_shutdown_event == *)
Definition shutdown_event_to_model (e : G.ShutdownEvent) : MD.shutdown_event :=
  match e with
  | G.ShutdownEvent_Hangup => MD.Hangup
  | G.ShutdownEvent_Term => MD.Term
  | G.ShutdownEvent_Quit => MD.Quit
  | G.ShutdownEvent_Interrupt => MD.SInterrupt
  end.

(* == block event_to_cancel_reason (needs conv_cancel_reason conv_shutdown_event) == *)
Lemma gen_event_to_cancel_reason_is_model :
  forall e, reason_to_model (G.event_to_cancel_reason e) = MD.event_to_cancel_reason (shutdown_event_to_model e).
Proof. bridge. Qed.

(* == block to_request (needs conv_shutdown_event) == *)
Definition sigcount_to_model (c : G.SignalCount) : MD.sigcount :=
  match c with G.SignalCount_Once => MD.SOnce | G.SignalCount_Twice => MD.STwice end.
Definition shutdown_req_to_model (r : G.ShutdownRequest) : MD.shutdown_req :=
  match r with
  | G.ShutdownRequest_Once e => MD.Once (shutdown_event_to_model e)
  | G.ShutdownRequest_Twice => MD.Twice
  end.
Lemma gen_to_request_is_model :
  forall c e,
    shutdown_req_to_model (G.SignalCount_to_request c e) =
    MD.to_request (sigcount_to_model c) (shutdown_event_to_model e).
Proof. bridge. Qed.

(* ---------------------------------------------------------------- unit timers (Model/UnitTimers.v) *)
(* == block conv_terminate == *)
Definition method_to_model (m : G.UnitTerminateMethod) : MU.usig :=
  match m with
  | G.UnitTerminateMethod_Signal G.UnitTerminateSignal_Interrupt => MU.SigInt
  | G.UnitTerminateMethod_Signal G.UnitTerminateSignal_Term => MU.SigTerm
  | G.UnitTerminateMethod_Signal G.UnitTerminateSignal_Hangup => MU.SigHup
  | G.UnitTerminateMethod_Signal G.UnitTerminateSignal_Quit => MU.SigQuit
  | G.UnitTerminateMethod_Signal G.UnitTerminateSignal_Kill => MU.SigKill
  end.
Definition shut_to_model (e : G.ShutdownEvent) : MU.shut :=
  match e with
  | G.ShutdownEvent_Hangup => MU.SHup
  | G.ShutdownEvent_Term => MU.STerm
  | G.ShutdownEvent_Quit => MU.SQuit
  | G.ShutdownEvent_Interrupt => MU.SInt
  end.
Definition shutreq_to_model (r : G.ShutdownRequest) : MU.shutreq :=
  match r with
  | G.ShutdownRequest_Once e => MU.Once (shut_to_model e)
  | G.ShutdownRequest_Twice => MU.Twice
  end.

(* == block timeout_terminate_method (needs conv_terminate) == *)
(* the grace period is a Duration in Rust; both sides only ask whether it is zero *)
Lemma gen_timeout_terminate_method_is_model :
  forall cfg, method_to_model (G.timeout_terminate_method (MU.grace cfg)) = MU.timeout_method cfg.
Proof. bridge. Qed.

(* == block shutdown_terminate_method (needs conv_terminate) == *)
Lemma gen_shutdown_terminate_method_is_model :
  forall cfg req,
    method_to_model (G.shutdown_terminate_method req (MU.grace cfg)) =
    MU.shutdown_method cfg (shutreq_to_model req).
Proof. bridge. Qed.

(* ---------------------------------------------------------------- binary-level filter (Model/FilterFull.v) *)
(* == block conv_bmatch == *)
Definition breason_to_model (r : G.BinaryMismatchReason) : MF.bin_reason :=
  match r with
  | G.BinaryMismatchReason_Expression => MF.BRExpression
  | G.BinaryMismatchReason_DefaultSet => MF.BRDefaultSet
  end.
Definition bmatch_to_model (m : G.FilterBinaryMatch) : MF.bmatch :=
  match m with
  | G.FilterBinaryMatch_Definite => MF.BDefinite
  | G.FilterBinaryMatch_Possible => MF.BPossible
  | G.FilterBinaryMatch_Mismatch r => MF.BMismatch (breason_to_model r)
  end.

(* == block prefer_expression (needs conv_bmatch) == *)
Lemma gen_prefer_expression_is_model :
  forall a b,
    breason_to_model (G.BinaryMismatchReason_prefer_expression a b) =
    MF.prefer_expression (breason_to_model a) (breason_to_model b).
Proof. bridge. Qed.

(* == block logic_or (needs conv_bmatch) == *)
Lemma gen_logic_or_is_model :
  forall a b,
    bmatch_to_model (G.FilterBinaryMatch_logic_or a b) = MF.logic_or (bmatch_to_model a) (bmatch_to_model b).
Proof. bridge. Qed.

(* == block logic_and (needs conv_bmatch) == *)
Lemma gen_logic_and_is_model :
  forall a b,
    bmatch_to_model (G.FilterBinaryMatch_logic_and a b) = MF.logic_and (bmatch_to_model a) (bmatch_to_model b).
Proof. bridge. Qed.

(* == block from_result (needs conv_bmatch) == *)
Lemma gen_from_result_is_model :
  forall o r,
    bmatch_to_model (G.FilterBinaryMatch_from_result o r) = MF.from_result o (breason_to_model r).
Proof. bridge. Qed.

(* == block is_match (needs conv_bmatch) == *)
Lemma gen_is_match_is_model :
  forall m, G.FilterBinaryMatch_is_match m = MF.b_is_match (bmatch_to_model m).
Proof. bridge. Qed.

(* ---------------------------------------------------------------- exit status (cargo-nextest) *)
(* == block exec_run_exit (needs conv_stats) == *)
Definition policy_to_model (p : option G.NoTestsBehavior) : option MR.no_tests :=
  match p with
  | Some G.NoTestsBehavior_Pass => Some MR.NtPass
  | Some G.NoTestsBehavior_Warn => Some MR.NtWarn
  | Some G.NoTestsBehavior_Fail => Some MR.NtFail
  | None => None
  end.
(* what main() does with the value of exec_run: Ok(code) -> exit(code); Err(e) -> exit(e.process_exit_code()) *)
Definition process_exit (r : Z + G.ExpectedError) : Z :=
  match r with inl c => c | inr e => G.ExpectedError_process_exit_code e end.
Lemma gen_exec_run_exit_is_model :
  forall s p,
    process_exit (G.exec_run_exit s p) = MR.exit_code (MR.summarize_final (stats_to_model s)) (policy_to_model p).
Proof. bridge. Qed.

(* ---------------------------------------------------------------- test-level filter stages (Model/Filter.v) *)
(* == block conv_filter == *)
Definition run_ignored_to_model (r : G.RunIgnored) : MFl.run_ignored :=
  match r with
  | G.RunIgnored_Default => MFl.RIDefault
  | G.RunIgnored_Only => MFl.RIOnly
  | G.RunIgnored_All => MFl.RIAll
  end.
Definition mismatch_to_model (m : G.MismatchReason) : MFl.mismatch :=
  match m with
  | G.MismatchReason_Ignored => MFl.MIgnored
  | G.MismatchReason_String => MFl.MString
  | G.MismatchReason_Expression => MFl.MExpression
  | G.MismatchReason_Partition => MFl.MPartition
  | G.MismatchReason_DefaultFilter => MFl.MDefaultFilter
  end.
Definition fmatch_to_model (f : G.FilterMatch) : MFl.fmatch :=
  match f with
  | G.FilterMatch_Matches => MFl.Matches
  | G.FilterMatch_Mismatch r => MFl.Mismatch (mismatch_to_model r)
  end.
Definition name_match_to_model (n : G.FilterNameMatch) : MFl.name_match :=
  match n with
  | G.FilterNameMatch_MatchEmptyPatterns => MFl.MatchEmpty
  | G.FilterNameMatch_MatchWithPatterns => MFl.MatchWith
  | G.FilterNameMatch_Mismatch r => MFl.NMis (mismatch_to_model r)
  end.

(* == block filter_ignored_mismatch (needs conv_filter) == *)
Lemma gen_filter_ignored_mismatch_is_model :
  forall f ignored,
    option_map fmatch_to_model (G.TestFilter_filter_ignored_mismatch f ignored) =
    option_map MFl.Mismatch (MFl.filter_ignored (run_ignored_to_model (G.TestFilter_builder_run_ignored f)) ignored).
Proof. bridge. Qed.

(* == block filter_match (needs conv_filter) == *)
(* The stage order of TestFilter::filter_match: ignored, then (name, expression) with the name reason
   first, then the partition, else Matches. The values of filter_name_match, filter_expression_match
   and filter_partition_mismatch are inputs of the generated function; [part_input] is what the
   partition stage returns for the model's partitioner state (it is consulted only when every
   earlier stage accepts, which is also when the model advances the counter). *)
Definition part_input (pb : option MFl.pbuilder) (cur : N) (name : list N) : option G.FilterMatch :=
  match pb with
  | None => None
  | Some b => if fst (MFl.part_match b cur name) then None
              else Some (G.FilterMatch_Mismatch G.MismatchReason_Partition)
  end.
Lemma gen_filter_match_is_model :
  forall f bound ignored nm em pb cur name,
    fmatch_to_model (G.TestFilter_filter_match f bound ignored nm em (part_input pb cur name)) =
    fst (MFl.filter_match
           (match MFl.filter_ignored (run_ignored_to_model (G.TestFilter_builder_run_ignored f)) ignored with
            | Some r => Some r
            | None => MFl.combine_name_expr (name_match_to_model nm) (name_match_to_model em)
            end) pb cur name).
Proof.
  intros. unfold part_input, MFl.filter_match.
  destruct pb as [b|]; [destruct (MFl.part_match b cur name) as [ok cur'] |]; bridge.
Qed.

(* ---------------------------------------------------------------- command line -> runner (Model/CliRun.v) *)
(* == block conv_cli == *)
Definition fmt_to_model (f : G.MessageFormat) : MC.msg_format :=
  match f with
  | G.MessageFormat_Human => MC.FHuman
  | G.MessageFormat_LibtestJson => MC.FLibtestJson
  | G.MessageFormat_LibtestJsonPlus => MC.FLibtestJsonPlus
  end.
Definition cap_to_model (c : G.CaptureStrategy) : MC.capture :=
  match c with
  | G.CaptureStrategy_Split => MC.CapSplit
  | G.CaptureStrategy_Combined => MC.CapCombined
  | G.CaptureStrategy_None => MC.CapNone
  end.
Definition threads_to_model (t : G.TestThreads) : MC.threads :=
  match t with G.TestThreads_Count n => MC.TCount n | G.TestThreads_NumCpus => MC.TNumCpus end.
Definition mf_to_model (m : G.MaxFail) : option N :=
  match m with G.MaxFail_Count n => Some n | G.MaxFail_All => None end.
Definition retry_policy_to_model (p : G.RetryPolicy) : MB.policy :=
  match p with
  | G.RetryPolicy_Fixed c d j => MB.Fixed c d j
  | G.RetryPolicy_Exponential c d j m => MB.Exponential c d j m
  end.
Definition opts_to_model (o : G.TestRunnerOpts) : MC.run_opts :=
  MC.mk_run_opts (G.TestRunnerOpts_no_run o) (option_map threads_to_model (G.TestRunnerOpts_test_threads o))
    (G.TestRunnerOpts_retries o) (G.TestRunnerOpts_fail_fast o) (G.TestRunnerOpts_no_fail_fast o)
    (option_map mf_to_model (G.TestRunnerOpts_max_fail o)).
(* what TestRunnerBuilder::build stores in the runner, given the profile's values *)
Definition settings_of_builder (pt : G.TestThreads) (pm : G.MaxFail) (ncpus : N) (b : G.TestRunnerBuilder)
  : MC.runner_settings :=
  MC.mk_runner_settings (cap_to_model (G.build_capture_strategy b)) (G.build_test_threads b pt ncpus)
    (mf_to_model (G.build_max_fail b pm)) (option_map retry_policy_to_model (G.build_force_retries b)).

(* == block cap_strat (needs conv_cli) == *)
(* the capture strategy App::exec_run hands to TestRunnerOpts::to_builder *)
Lemma gen_cap_strat_is_model :
  forall nc f, cap_to_model (G.exec_run_cap_strat nc f) = MC.capture_strategy_of nc (fmt_to_model f).
Proof. bridge. Qed.

(* == block build_test_threads (needs conv_cli) == *)
(* TestRunnerBuilder::build: the value stored in TestRunnerInner.test_threads *)
Lemma gen_build_test_threads_is_model :
  forall b pt ncpus,
    G.build_test_threads b pt ncpus =
    MC.effective_test_threads (cap_to_model (G.TestRunnerBuilder_capture_strategy b))
      (option_map threads_to_model (G.TestRunnerBuilder_test_threads b)) (threads_to_model pt) ncpus.
Proof. bridge. Qed.

(* == block runner_settings (needs conv_cli) == *)
(* exec_run's capture strategy -> to_builder -> build, end to end: what the runner is built with as a
   function of the command line, the profile's test-threads / max-fail and the CPU count *)
Lemma gen_runner_settings_is_model :
  forall o nc f pt pm ncpus,
    option_map (settings_of_builder pt pm ncpus) (G.TestRunnerOpts_to_builder o (G.exec_run_cap_strat nc f)) =
    MC.runner_of (opts_to_model o) nc (fmt_to_model f) (threads_to_model pt) (mf_to_model pm) ncpus.
Proof. bridge. Qed.

(* == block no_capture_serial (needs conv_cli runner_settings) == *)
(* C08 at the level of the source text: with --no-capture the runner is built with test_threads = 1,
   for every message format and every other option *)
Lemma gen_no_capture_serial :
  forall o f pt ncpus b,
    G.TestRunnerOpts_to_builder o (G.exec_run_cap_strat true f) = Some b ->
    G.build_test_threads b pt ncpus = 1 /\ G.build_capture_strategy b = G.CaptureStrategy_None.
Proof.
  intros o f pt ncpus b H.
  pose proof (gen_runner_settings_is_model o true f pt G.MaxFail_All ncpus) as E. rewrite H in E. cbn [option_map] in E.
  symmetry in E. destruct (PC.runner_no_capture _ _ _ _ _ _ E) as [Hc Ht].
  cbn [settings_of_builder MC.rs_capture MC.rs_test_threads] in Hc, Ht. split; [exact Ht|].
  destruct (G.build_capture_strategy b); cbn in Hc; congruence.
Qed.

(* == block command_exit (needs conv_stats exec_run_exit) == *)
(* `cargo nextest run` (the Command::Run arm of AppOpts::exec) and `cargo ntr` (NtrOpts::exec): what each does
   with the value of App::exec_run, followed by what main() does with the result *)
Definition entry_gen_exit (e : MC.entry) (r : Z + G.ExpectedError) : Z + G.ExpectedError :=
  match e with MC.EntryNextestRun => G.command_run_exit r | MC.EntryNtr => G.ntr_exit r end.
Lemma gen_command_exit_is_model :
  forall e s p,
    process_exit (entry_gen_exit e (G.exec_run_exit s p)) =
    MC.entry_exit e (MR.summarize_final (stats_to_model s)) (policy_to_model p).
Proof. bridge. Qed.

(* ---------------------------------------------------------------- the decision after each attempt *)
(* == block after_attempt (needs conv_result) == *)
(* what a branch of the `if` chain at the end of run_test_instance's loop body amounts to: leaving the loop
   (Finished is sent after it) or going round again having sent AttemptFailedWillRetry; anything else is
   not a decision the model knows *)
Module SLa. Import Coq.Strings.String.
  Definition attempt_failed_will_retry : string := "AttemptFailedWillRetry"%string.
End SLa.
Definition exit_to_model (x : G.LoopExit * list String.string) : option MA.after :=
  match x with
  | (G.LoopExit_Break, nil) => Some MA.AFinish
  | (G.LoopExit_Continue, cons e nil) =>
      if String.eqb e SLa.attempt_failed_will_retry then Some MA.ARetry else None
  | _ => None
  end.
Lemma gen_after_attempt_is_model :
  forall r attempt total,
    exit_to_model (G.run_test_instance_after_attempt r (G.mk_RetryData attempt total)) =
    Some (MA.after_attempt (MR.is_success (result_to_model r)) attempt total).
Proof. bridge. Qed.

(* == block attempt_loop (needs conv_result is_success after_attempt) == *)
(* one iteration of the loop C07's theorems are about (Model/Backoff.v attempt_loop, instantiated with the
   generated result type and the generated is_success) IS the generated decision *)
Lemma gen_attempt_loop_step :
  forall f attempt delay bs total outcome accept js,
    MB.attempt_loop G.ExecutionResult G.ExecutionResult_is_success (S f) attempt delay bs total outcome accept js =
    if (1 <? attempt) && negb (accept attempt) then (nil, MB.Refused)
    else
      let r := outcome attempt in
      let rec := MB.Build_attempt_rec G.ExecutionResult attempt delay r in
      match exit_to_model (G.run_test_instance_after_attempt r (G.mk_RetryData attempt total)) with
      | Some MA.AFinish => (rec :: nil, MB.Finished)
      | Some MA.ARetry =>
          match MB.b_next (js attempt) bs with
          | None => (rec :: nil, MB.Panicked)
          | Some (d, bs') =>
              let '(l, e) := MB.attempt_loop G.ExecutionResult G.ExecutionResult_is_success f (attempt + 1) d bs' total
                               outcome accept js in
              (rec :: l, e)
          end
      | None => (rec :: nil, MB.Panicked)
      end.
Proof.
  intros. rewrite PA.attempt_loop_step. cbv zeta. rewrite gen_after_attempt_is_model.
  rewrite <- gen_is_success_is_model. reflexivity.
Qed.

(* == block retry_policy (needs conv_cli) == *)
(* `let retry_policy = self.force_retries.unwrap_or_else(|| settings.retries()); let total_attempts = retry_policy.count() + 1;` *)
Lemma gen_retry_policy_is_model :
  forall force own,
    retry_policy_to_model (G.run_test_instance_retry_policy force own) =
    MB.effective_policy (option_map retry_policy_to_model force) (retry_policy_to_model own).
Proof. bridge. Qed.
Lemma gen_total_attempts_is_model :
  forall force own,
    G.run_test_instance_total_attempts force own =
    MB.p_count (MB.effective_policy (option_map retry_policy_to_model force) (retry_policy_to_model own)) + 1.
Proof. bridge. Qed.

Lemma gen_retry_policy_and_total :
  forall force own,
    retry_policy_to_model (G.run_test_instance_retry_policy force own) =
    MB.effective_policy (option_map retry_policy_to_model force) (retry_policy_to_model own) /\
    G.run_test_instance_total_attempts force own =
    MB.p_count (MB.effective_policy (option_map retry_policy_to_model force) (retry_policy_to_model own)) + 1.
Proof. intros. split; [apply gen_retry_policy_is_model | apply gen_total_attempts_is_model]. Qed.

(* == block forced_retries (needs conv_cli runner_settings retry_policy) == *)
(* C07 on the source text, end to end: `--retries n` on the command line makes every test run at most n + 1
   attempts with the delay-free policy, whatever its own policy *)
Lemma gen_forced_retries :
  forall o cs b n own,
    G.TestRunnerOpts_to_builder o cs = Some b ->
    G.TestRunnerOpts_retries o = Some n ->
    retry_policy_to_model (G.run_test_instance_retry_policy (G.build_force_retries b) own) = MB.new_without_delay n /\
    G.run_test_instance_total_attempts (G.build_force_retries b) own = n + 1.
Proof.
  intros o cs b n own Hb Hn. revert Hb. destruct o as [nr tt rt ff nff mf nt]. cbn in Hn. subst rt.
  bridge_norm. destruct nr; [discriminate|]. intro Hb. injection Hb as <-.
  repeat (bridge_case; cbv beta iota); split; reflexivity.
Qed.

(* ---------------------------------------------------------------- platform guards (Model/Overrides.v, Model/Scripts.v) *)
(* == block conv_platform == *)
Definition is_host (p : G.BuildPlatform) : bool :=
  match p with G.BuildPlatform_Host => true | G.BuildPlatform_Target => false end.
Definition platform_of (host : bool) : G.BuildPlatform :=
  if host then G.BuildPlatform_Host else G.BuildPlatform_Target.
Definition state_to_model (s : G.FinalConfig) : MO.ostate :=
  MO.Build_ostate (G.FinalConfig_host_eval s) (G.FinalConfig_host_test_eval s) (G.FinalConfig_target_eval s).

(* == block override_platform_guard (needs conv_platform) == *)
(* the `continue`s at the head of the loop over the overrides in TestSettings::new that look at the platform: an
   override is considered for a test only if host_eval holds AND the evaluation for the test's own build platform
   (host_test_eval for host binaries, target_eval for target binaries) holds *)
Lemma gen_override_platform_guard_is_model :
  forall st p, G.override_platform_guard st p = MO.platform_ok (state_to_model st) (is_host p).
Proof. bridge. Qed.
(* ... which is the platform part of the model's [skips] (the four `continue`s) for every override and test *)
Lemma gen_override_skips_is_model :
  forall e t st o,
    MO.skips e t (state_to_model st, o) =
    negb (G.override_platform_guard st (platform_of (MO.t_host t)))
    || match MO.filter_of o with Some f => negb (MO.e_filter e f (MO.t_id t)) | None => false end.
Proof.
  intros e t st o. unfold MO.skips. destruct st as [h ht tg], t as [id host].
  cbn [MO.t_host MO.t_id state_to_model MO.st_host MO.st_host_test MO.st_target
       G.FinalConfig_host_eval G.FinalConfig_host_test_eval G.FinalConfig_target_eval].
  destruct (match MO.filter_of o with Some f => negb (MO.e_filter e f id) | None => false end);
    destruct h, ht, tg, host; reflexivity.
Qed.

(* == block script_platform_guard (needs conv_platform) == *)
(* CompiledProfileScripts::is_enabled: the three `return false`s before the filterset is looked at *)
Lemma gen_script_platform_guard_is_model :
  forall st p flt setup id,
    MSc.rule_matches
      (MSc.mkrule (G.FinalConfig_host_eval st) (G.FinalConfig_host_test_eval st) (G.FinalConfig_target_eval st) flt setup)
      (MSc.mkq id (is_host p)) =
    G.script_platform_guard st p && match flt with Some f => f (MSc.mkq id (is_host p)) | None => true end.
Proof.
  intros st p flt setup id. destruct flt as [f|]; [destruct (f (MSc.mkq id (is_host p))) eqn:E|];
    unfold MSc.rule_matches; cbn [MSc.r_filter MSc.r_host_eval MSc.r_host_test_eval MSc.r_target_eval MSc.q_host];
    try rewrite E; bridge.
Qed.

(* ---------------------------------------------------------------- spawn-time set-up (Model/SpawnSetup.v, Model/Command.v) *)
(* == block spawn_setup (needs conv_cli) == *)
(* the ordered, guarded calls run_test_inner / TestCommand::spawn / imp::spawn / set_process_group make on the
   Command satisfy everything C15 asks of the set-up, for every capture strategy (the list is closed once the
   strategy is known: evaluation decides) *)
Lemma gen_spawn_setup_is_model :
  forall cap, MSp.setup_ok (cap_to_model cap) (G.run_test_inner_setup cap) = true.
Proof. intros cap. destruct cap; vm_compute; reflexivity. Qed.
Lemma gen_spawn_setup_stdin_and_group :
  forall cap,
    MSp.stdin_null (G.run_test_inner_setup cap) = true /\ MSp.own_process_group (G.run_test_inner_setup cap) = true.
Proof. intros cap. exact (PSp.setup_ok_stdin_and_group _ _ (gen_spawn_setup_is_model cap)). Qed.

(* ---------------------------------------------------------------- threads-required (Model/CliRun.v, Model/FutureQueue.v) *)
(* == block threads_required (needs conv_cli) == *)
Definition tr_to_model (r : G.ThreadsRequired) : MC.threads_required :=
  match r with
  | G.ThreadsRequired_Count n => MC.RCount n
  | G.ThreadsRequired_NumCpus => MC.RNumCpus
  | G.ThreadsRequired_NumTestThreads => MC.RNumTestThreads
  end.
(* the weight TestRunnerInner::execute gives a test in the queue: ThreadsRequired::compute of the test's setting
   against `self.test_threads`, the RUNNER's thread count -- the very value that is the queue's global limit *)
Lemma gen_threads_required_is_model :
  forall r runner_threads ncpus,
    G.execute_threads_required r runner_threads ncpus = MC.threads_required_weight (tr_to_model r) runner_threads ncpus.
Proof. bridge. Qed.
Lemma gen_queue_limit_is_runner_threads :
  forall runner_threads, G.execute_queue_limit runner_threads = runner_threads.
Proof. bridge. Qed.
(* the queue of C08 ([fq_new limit groups items] with weight = threads-required) as execute builds it: a test that
   requires "num-test-threads" weighs exactly the limit, under --no-capture too (limit 1) *)
Lemma gen_num_test_threads_fills_queue :
  forall runner_threads ncpus,
    G.execute_threads_required G.ThreadsRequired_NumTestThreads runner_threads ncpus =
    G.execute_queue_limit runner_threads.
Proof. bridge. Qed.

(* == block exec_run_early_return (needs conv_cli) == *)
(* App::exec_run (fifth round): the value tested by `let Some(runner_builder) = .. else { return Ok(0); }` -- the else
   block holds the only `return Ok(..)` of the function (checked by the translator) -- regenerated from the source with
   the `let`s it depends on (the capture strategy, TestRunnerOpts::to_builder): it is None, i.e. the function leaves with
   exit code 0 before anything is run, iff --no-run was given -- whatever the other options, the capture mode and the
   message format are, and whatever the test list holds ([n]: the model's answer does not depend on it; the test list is
   not among the inputs of the regenerated fragment at all). *)
Lemma gen_exec_run_early_return_is_model :
  forall o nc f n,
    match G.exec_run_early_return o nc f with None => true | Some _ => false end =
    MER.returns_before_running (opts_to_model o) n.
Proof. bridge. Qed.
