(* Lemmas about the dispatcher state machine, for every event history (C10; tallies for C01/C17). *)
From Coq Require Import List NArith ZArith Bool Sorted.
From NextestModel Require Import Base.Tac Model.Result Model.Dispatcher Proofs.Result.
Import ListNotations.
Open Scope N_scope.

(* ------------------------------------------------------------------ begin_cancel *)

Lemma begin_cancel_cases d r ev d' evs rsp :
  begin_cancel d r ev = (d', evs, rsp) ->
  (ev = CeSignal Twice /\ d' = d /\
   evs = [ERunBeginKill (scripts_running d) (running_count d) SecondSignal] /\ rsp = RCancel ev) \/
  (ev <> CeSignal Twice /\ cancel_lt (d_cancel d) r = true /\ d' = set_cancel d (Some r) /\
   evs = [ERunBeginCancel (scripts_running d') (running_count d') r] /\ rsp = RCancel ev) \/
  (ev <> CeSignal Twice /\ cancel_lt (d_cancel d) r = false /\ d' = d /\ evs = [] /\ rsp = RNone).
Proof.
  unfold begin_cancel. intros H.
  destruct ev as [| |[e|]].
  4: { left. inversion H; subst. auto. }
  all: right; destruct (cancel_lt (d_cancel d) r); [left|right]; inversion H; subst;
    repeat split; auto; discriminate.
Qed.

Lemma cancel_lt_spec cur r : cancel_lt cur r = true <-> opt_rank cur < opt_rank (Some r).
Proof. unfold cancel_lt. apply N.ltb_lt. Qed.

Lemma cancel_lt_false cur r : cancel_lt cur r = false <-> opt_rank (Some r) <= opt_rank cur.
Proof. unfold cancel_lt. apply N.ltb_ge. Qed.

Lemma opt_rank_some_pos r : 0 < opt_rank (Some r).
Proof. cbn. lia. Qed.

Lemma opt_rank_none_iff o : opt_rank o = 0 <-> o = None.
Proof. destruct o; cbn; split; intros; try discriminate; auto; try lia. Qed.

Lemma is_some_true {A} (o : option A) : is_some o = true <-> o <> None.
Proof. destruct o; cbn; split; intros; try discriminate; auto; contradiction. Qed.

Lemma is_some_false {A} (o : option A) : is_some o = false <-> o = None.
Proof. destruct o; cbn; split; intros; try discriminate; auto. Qed.

(* ------------------------------------------------------------------ case analysis of one step *)

Lemma finish_with_cancel_cases d pre c reason ev s' evs rsp :
  finish_with_cancel d pre c reason ev = (s', evs, rsp) ->
  (c = false /\ s' = Live d /\ evs = pre /\ rsp = no_resp) \/
  (c = true /\ exists d' evs' r, begin_cancel d reason ev = (d', evs', r) /\
               s' = Live d' /\ evs = pre ++ evs' /\ rsp = mk_resp HNone r).
Proof.
  unfold finish_with_cancel. destruct c.
  - destruct (begin_cancel d reason ev) as [[d' evs'] r] eqn:E. intros H; inversion H; subst.
    right. split; auto. eauto 8.
  - intros H; inversion H; subst. left; auto.
Qed.

(* break a step of a live dispatcher into its arms *)
Ltac step_cases H :=
  unfold dstep_live in H;
  repeat match type of H with
  | context [if ?x then _ else _] => destruct x eqn:?
  | context [match lookup ?t ?l with _ => _ end] => destruct (lookup t l) eqn:?
  | context [match d_sig ?d with _ => _ end] => destruct (d_sig d) as [[|]|] eqn:?
  | context [begin_cancel ?d ?r ?e] =>
      lazymatch type of H with
      | finish_with_cancel _ _ _ _ _ = _ => fail
      | _ =>
        let d2 := fresh "d2" in let evs2 := fresh "evs2" in let r2 := fresh "r2" in
        let Hbc := fresh "Hbc" in
        destruct (begin_cancel d r e) as [[d2 evs2] r2] eqn:Hbc;
        apply begin_cancel_cases in Hbc
      end
  end;
  try match type of H with
  | finish_with_cancel _ _ _ _ _ = _ =>
      apply finish_with_cancel_cases in H;
      destruct H as [(?Hc & ?Hs & ?Hevs & ?Hr) | (?Hc & ?d2 & ?evs2 & ?r2 & ?Hbc & ?Hs & ?Hevs & ?Hr)];
      [| apply begin_cancel_cases in Hbc]
  end.

Ltac proj_simpl :=
  cbn [d_cancel d_stats d_running d_script d_sig d_paused d_dbg d_max_fail
       set_stats set_running set_script set_cancel set_sig set_paused
       r_hs r_resp r_unit no_resp mk_resp fst snd] in *.

Ltac step_inv H :=
  step_cases H;
  try (inversion H; subst; clear H);
  repeat match goal with
  | Hx : _ /\ _ |- _ => destruct Hx
  | Hx : (_ = _ /\ _) \/ _ |- _ => destruct Hx as [Hx|Hx]
  | Hx : (_ <> _ /\ _) \/ _ |- _ => destruct Hx as [Hx|Hx]
  | Hx : Live _ = Live _ |- _ => inversion Hx; subst; clear Hx
  | Hx : Panicked = Live _ |- _ => discriminate Hx
  | Hx : Live _ = Panicked |- _ => discriminate Hx
  end; subst; proj_simpl.

(* ------------------------------------------------------------------ C10: monotone *)

Lemma step_cancel_monotone d e d' evs rsp :
  dstep_live d e = (Live d', evs, rsp) -> opt_rank (d_cancel d) <= opt_rank (d_cancel d').
Proof.
  intros H. destruct e; step_inv H; try lia;
    repeat match goal with Hc : cancel_lt _ _ = true |- _ => apply cancel_lt_spec in Hc end;
    proj_simpl; try lia.
Qed.

Lemma dstep_cancel_monotone s e d' :
  next_state s e = Live d' -> exists d, s = Live d /\ opt_rank (d_cancel d) <= opt_rank (d_cancel d').
Proof.
  unfold next_state. destruct s as [d|]; cbn [dstep]; [|discriminate].
  destruct (dstep_live d e) as [[s' evs] rsp] eqn:E. cbn. intros ->.
  exists d; split; auto. eapply step_cancel_monotone; eauto.
Qed.

Lemma final_state_panicked h : final_state Panicked h = Panicked.
Proof. induction h; cbn; auto. Qed.

Lemma final_state_cons s e h : final_state s (e :: h) = final_state (next_state s e) h.
Proof. reflexivity. Qed.

Lemma final_state_app s h1 h2 : final_state s (h1 ++ h2) = final_state (final_state s h1) h2.
Proof. unfold final_state. apply fold_left_app. Qed.

Lemma final_state_live_prefix s h d' :
  final_state s h = Live d' -> exists d, s = Live d.
Proof.
  destruct s; eauto. rewrite final_state_panicked. discriminate.
Qed.

Lemma run_cancel_monotone h : forall d d',
  final_state (Live d) h = Live d' -> opt_rank (d_cancel d) <= opt_rank (d_cancel d').
Proof.
  induction h as [|e h IH]; intros d d' H.
  - cbn in H. inversion H; subst. lia.
  - rewrite final_state_cons in H.
    destruct (final_state_live_prefix _ _ _ H) as [d1 E1]. rewrite E1 in H.
    apply dstep_cancel_monotone in E1. destruct E1 as (d0 & E0 & Hle). inversion E0; subst.
    specialize (IH _ _ H). lia.
Qed.

(* ------------------------------------------------------------------ C10: nothing new starts *)

Definition cancelled (s : dst) : Prop :=
  match s with Live d => d_cancel d <> None | Panicked => True end.

(* a shutdown signal has been counted only if cancellation has begun *)
Definition sig_inv (s : dst) : Prop :=
  match s with Live d => d_sig d <> None -> d_cancel d <> None | Panicked => True end.

Definition is_ann (e : revent) : bool := is_begin_cancel e || is_begin_kill e.

(* no start event after an announcement; [seen]: an announcement has already been made *)
Fixpoint no_start_after (seen : bool) (l : list revent) : bool :=
  match l with
  | [] => true
  | x :: r => (if seen then negb (is_start_event x) else true) && no_start_after (seen || is_ann x) r
  end.

Lemma no_start_after_app seen l1 l2 :
  no_start_after seen (l1 ++ l2) =
  no_start_after seen l1 && no_start_after (seen || existsb is_ann l1) l2.
Proof.
  revert seen; induction l1 as [|x l1 IH]; intros seen; cbn [app no_start_after existsb].
  - rewrite orb_false_r. reflexivity.
  - rewrite IH. rewrite <- andb_assoc, orb_assoc. reflexivity.
Qed.

Lemma no_start_after_true_forall l :
  no_start_after true l = true <-> Forall (fun x => is_start_event x = false) l.
Proof.
  induction l as [|x l IH]; cbn [no_start_after]; [split; auto|].
  cbn [orb]. rewrite andb_true_iff, IH, negb_true_iff. split.
  - intros [A B]; constructor; auto.
  - intros H; inversion H; auto.
Qed.

(* the reading of [no_start_after] on an explicit decomposition of the stream *)
Lemma no_start_after_decomp l : no_start_after false l = true ->
  forall pre x post, l = pre ++ x :: post -> is_ann x = true ->
    Forall (fun y => is_start_event y = false) post.
Proof.
  intros H pre x post -> Hx. rewrite no_start_after_app in H.
  apply andb_true_iff in H. destruct H as [_ H]. cbn [no_start_after] in H.
  apply andb_true_iff in H. destruct H as [_ H]. rewrite Hx, orb_true_r in H.
  apply no_start_after_true_forall; auto.
Qed.

Ltac kill_some :=
  repeat match goal with
  | Hx : is_some _ = true |- _ => apply is_some_true in Hx
  | Hx : is_some _ = false |- _ => apply is_some_false in Hx
  | Hx : cancel_lt _ _ = true |- _ => apply cancel_lt_spec in Hx
  | Hx : cancel_lt _ _ = false |- _ => apply cancel_lt_false in Hx
  end.

Lemma step_no_new_units d e s' evs rsp :
  dstep_live d e = (s', evs, rsp) -> sig_inv (Live d) ->
  no_start_after (is_some (d_cancel d)) evs = true /\
  (existsb is_ann evs = true -> cancelled s') /\
  (cancelled (Live d) -> cancelled s') /\
  sig_inv s' /\
  (d_cancel d <> None -> r_hs rsp <> HAccepted).
Proof.
  intros H Hinv. unfold sig_inv, cancelled in *.
  destruct e; step_inv H; kill_some; proj_simpl;
    repeat match goal with
    | Hx : ?a = None |- context [is_some ?a] => rewrite Hx
    | Hx : ?a = None, Hy : ?a <> None |- _ => contradiction
    end;
    cbn [no_start_after is_start_event is_ann is_begin_cancel is_begin_kill cancel_reason_of
         existsb app negb orb andb is_some];
    repeat split; intros; try discriminate; try congruence; auto.
  all: try (destruct (d_cancel d); cbn; auto; discriminate).
  all: try (destruct (d_cancel _); cbn; auto; congruence).
  all: try (apply Hinv; discriminate).
  intros E; rewrite E in *; cbn in *; lia.
Qed.

Lemma no_start_after_weaken l : no_start_after true l = true -> forall b, no_start_after b l = true.
Proof.
  induction l as [|x l IH]; intros H b; cbn [no_start_after] in *; auto.
  cbn [orb] in H. apply andb_true_iff in H. destruct H as [H1 H2].
  destruct b; cbn [orb]; [rewrite H1, H2; reflexivity|].
  cbn [andb]. destruct (is_ann x); auto.
Qed.

Lemma dstep_no_new_units s e s' evs rsp :
  dstep s e = (s', evs, rsp) -> sig_inv s ->
  (forall seen, (seen = true -> cancelled s) -> no_start_after seen evs = true) /\
  (existsb is_ann evs = true -> cancelled s') /\
  (cancelled s -> cancelled s') /\
  sig_inv s' /\
  (cancelled s -> r_hs rsp <> HAccepted).
Proof.
  destruct s as [d|]; cbn [dstep].
  - intros H Hinv. destruct (step_no_new_units _ _ _ _ _ H Hinv) as (A & B & C & D & E).
    repeat split; auto.
    intros seen Hs. destruct (is_some (d_cancel d)) eqn:Ec.
    + apply no_start_after_weaken; auto.
    + destruct seen; auto. specialize (Hs eq_refl). cbn in Hs.
      apply is_some_false in Ec. contradiction.
  - intros H _. inversion H; subst. cbn. repeat split; auto; discriminate.
Qed.

Lemma trace_cons s e h :
  trace s (e :: h) = (e, snd (fst (dstep s e)), snd (dstep s e)) :: trace (next_state s e) h.
Proof.
  cbn [trace]. unfold next_state. destruct (dstep s e) as [[s' evs] rsp]. reflexivity.
Qed.

Lemma out_cons s e h : out s (e :: h) = snd (fst (dstep s e)) ++ out (next_state s e) h.
Proof. unfold out. rewrite trace_cons. reflexivity. Qed.

Lemma out_nil s : out s [] = [].
Proof. reflexivity. Qed.

(* C10_no_new_units, emitted-stream half *)
Lemma run_no_start_after h : forall s seen,
  sig_inv s -> (seen = true -> cancelled s) -> no_start_after seen (out s h) = true.
Proof.
  induction h as [|e h IH]; intros s seen Hinv Hseen; [reflexivity|].
  rewrite out_cons, no_start_after_app.
  destruct (dstep s e) as [[s' evs] rsp] eqn:E.
  destruct (dstep_no_new_units _ _ _ _ _ E Hinv) as (A & B & C & D & _).
  unfold next_state. rewrite E. cbn [fst snd].
  rewrite A by auto. cbn [andb]. apply IH; auto.
  intros Hor. apply orb_true_iff in Hor. destruct Hor as [->|Hann]; auto.
Qed.

Lemma run_cancelled_refuses h : forall s,
  sig_inv s -> cancelled s ->
  Forall (fun y => r_hs (step_resp y) <> HAccepted /\
                   Forall (fun x => is_start_event x = false) (step_events y)) (trace s h).
Proof.
  induction h as [|e h IH]; intros s Hinv Hc; [constructor|].
  rewrite trace_cons.
  destruct (dstep s e) as [[s' evs] rsp] eqn:E.
  destruct (dstep_no_new_units _ _ _ _ _ E Hinv) as (A & _ & C & D & F).
  unfold next_state. rewrite E. cbn [fst snd]. constructor.
  - cbn [step_resp step_events fst snd]. split; auto.
    apply no_start_after_true_forall. apply A. auto.
  - apply IH; auto.
Qed.

(* C10_no_new_units, request half: after the step that announces cancellation every start
   request is refused (and no step emits a start event) *)
Lemma run_refuses_after_announcement h : forall s tr1 x tr2,
  sig_inv s -> trace s h = tr1 ++ x :: tr2 ->
  existsb is_ann (step_events x) = true ->
  Forall (fun y => r_hs (step_resp y) <> HAccepted /\
                   Forall (fun z => is_start_event z = false) (step_events y)) tr2.
Proof.
  induction h as [|e h IH]; intros s tr1 x tr2 Hinv Htr Hann.
  - destruct tr1; discriminate.
  - rewrite trace_cons in Htr.
    destruct (dstep s e) as [[s' evs] rsp] eqn:E.
    destruct (dstep_no_new_units _ _ _ _ _ E Hinv) as (_ & B & _ & D & _).
    unfold next_state in Htr. rewrite E in Htr. cbn [fst snd] in Htr.
    destruct tr1 as [|y tr1]; cbn [app] in Htr; inversion Htr; subst.
    + apply run_cancelled_refuses; auto.
    + eapply IH; eauto.
Qed.

(* ------------------------------------------------------------------ C10: announcements escalate *)

Fixpoint reasons (l : list revent) : list cancel_reason :=
  match l with
  | [] => []
  | x :: r => match cancel_reason_of x with Some c => c :: reasons r | None => reasons r end
  end.

Lemma reasons_app l1 l2 : reasons (l1 ++ l2) = reasons l1 ++ reasons l2.
Proof.
  induction l1 as [|x l1 IH]; cbn [app reasons]; auto.
  destruct (cancel_reason_of x); cbn [app]; rewrite IH; reflexivity.
Qed.

Lemma step_reasons d e s' evs rsp :
  dstep_live d e = (s', evs, rsp) ->
  (reasons evs = [] /\ forall d', s' = Live d' -> opt_rank (d_cancel d) <= opt_rank (d_cancel d')) \/
  (exists r d', reasons evs = [r] /\ s' = Live d' /\
                opt_rank (d_cancel d) < opt_rank (Some r) /\ d_cancel d' = Some r).
Proof.
  intros H. destruct e; step_inv H; kill_some; proj_simpl;
    cbn [reasons cancel_reason_of app];
    try (left; split; [reflexivity|]; intros d' Hd; inversion Hd; subst; proj_simpl; lia);
    try (left; split; [reflexivity|]; intros d' Hd; discriminate);
    try (right; eexists; eexists; repeat split; eauto; fail).
Qed.

Lemma out_panicked h : out Panicked h = [].
Proof. induction h as [|e h IH]; [reflexivity|]. rewrite out_cons. cbn. exact IH. Qed.

Definition rank_lt (a b : cancel_reason) : Prop := rank a < rank b.

Lemma run_reasons_sorted h : forall s,
  StronglySorted rank_lt (reasons (out s h)) /\
  Forall (fun r => opt_rank (dst_cancel s) < opt_rank (Some r)) (reasons (out s h)).
Proof.
  induction h as [|e h IH]; intros s; [split; constructor|].
  rewrite out_cons, reasons_app.
  destruct s as [d|]; [|cbn [dstep fst snd app reasons]; rewrite out_panicked; split; constructor].
  cbn [dstep]. unfold next_state. cbn [dstep dst_cancel].
  destruct (dstep_live d e) as [[s' evs] rsp] eqn:E. cbn [fst snd].
  destruct (IH s') as [S F].
  destruct (step_reasons _ _ _ _ _ E) as [[R M]|(r & d' & R & -> & Hlt & Hc)]; rewrite R; cbn [app].
  - split; auto. destruct s' as [d'|]; [|rewrite out_panicked; constructor].
    specialize (M d' eq_refl). eapply Forall_impl; [|exact F]. cbn [dst_cancel]. intros; lia.
  - cbn [dst_cancel] in F. rewrite Hc in F. split.
    + constructor; auto. eapply Forall_impl; [|exact F]. unfold rank_lt. cbn [opt_rank]. intros; lia.
    + constructor; auto. eapply Forall_impl; [|exact F]. cbn [opt_rank] in *. intros; lia.
Qed.

(* ------------------------------------------------------------------ tallies: statistics = ground truth of the history *)

Definition ev_fin (e : devent) : N := match e with Finished _ _ => 1 | _ => 0 end.
Definition ev_fail (e : devent) : N := match e with Finished _ a => fail1 (a_res a) | _ => 0 end.
Definition ev_pass (e : devent) : N := match e with Finished _ a => 1 - fail1 (a_res a) | _ => 0 end.
Definition ev_sfin (e : devent) : N := match e with ScriptFinished _ _ => 1 | _ => 0 end.
Definition ev_sfail (e : devent) : N := match e with ScriptFinished _ r => fail1 r | _ => 0 end.
Definition ev_skip (e : devent) : N := match e with Skipped _ => 1 | _ => 0 end.

Fixpoint tally (f : devent -> N) (h : list devent) : N :=
  match h with [] => 0 | e :: r => f e + tally f r end.

Lemma tally_app f h1 h2 : tally f (h1 ++ h2) = tally f h1 + tally f h2.
Proof. induction h1 as [|e h1 IH]; cbn [app tally]; [reflexivity|]. rewrite IH. lia. Qed.

Lemma step_counts d e d' evs rsp :
  dstep_live d e = (Live d', evs, rsp) ->
  let s := d_stats d in let s' := d_stats d' in
  finished_count s' = finished_count s + ev_fin e /\
  failed_count s' = failed_count s + ev_fail e /\
  passed s' = passed s + ev_pass e /\
  initial_run_count s' = initial_run_count s /\ ss_initial s' = ss_initial s /\
  ss_finished s' = ss_finished s + ev_sfin e /\
  failed_setup_script_count s' = failed_setup_script_count s + ev_sfail e /\
  skipped s' = skipped s + ev_skip e /\
  d_max_fail d' = d_max_fail d /\ d_dbg d' = d_dbg d /\
  (stats_ok s -> stats_ok s').
Proof.
  intros H. cbv zeta.
  destruct e; step_inv H; cbn [ev_fin ev_fail ev_pass ev_sfin ev_sfail ev_skip];
    try (repeat match goal with |- _ /\ _ => split end; auto; lia).
  all: try (match goal with
       | |- context [on_script_finished ?s ?r] =>
           pose proof (on_script_finished_counts s r) as P; cbv zeta in P;
           pose proof (on_script_finished_ok s r)
       | |- context [on_test_finished ?s ?st] =>
           pose proof (on_test_finished_counts s st) as P; cbv zeta in P; cbn [st_last] in P;
           pose proof (on_test_finished_ok s st)
       | |- context [bump FSkipped ?s] =>
           pose proof (bump_skipped_counts s) as P; cbv zeta in P;
           pose proof (bump_skipped_ok s)
       end; intuition lia).
Qed.

Lemma run_counts h : forall d d',
  final_state (Live d) h = Live d' ->
  let s := d_stats d in let s' := d_stats d' in
  finished_count s' = finished_count s + tally ev_fin h /\
  failed_count s' = failed_count s + tally ev_fail h /\
  passed s' = passed s + tally ev_pass h /\
  initial_run_count s' = initial_run_count s /\ ss_initial s' = ss_initial s /\
  ss_finished s' = ss_finished s + tally ev_sfin h /\
  failed_setup_script_count s' = failed_setup_script_count s + tally ev_sfail h /\
  skipped s' = skipped s + tally ev_skip h /\
  d_max_fail d' = d_max_fail d /\ d_dbg d' = d_dbg d /\
  (stats_ok s -> stats_ok s').
Proof.
  induction h as [|e h IH]; intros d d' H; cbv zeta.
  - cbn in H. inversion H; subst. cbn [tally].
    repeat match goal with |- _ /\ _ => split end; auto; lia.
  - rewrite final_state_cons in H.
    destruct (final_state_live_prefix _ _ _ H) as [d1 E1]. rewrite E1 in H.
    unfold next_state in E1. cbn [dstep] in E1.
    destruct (dstep_live d e) as [[s1 evs] rsp] eqn:E. cbn [fst] in E1. subst s1.
    pose proof (step_counts _ _ _ _ _ E) as P. cbv zeta in P.
    specialize (IH _ _ H). cbv zeta in IH. cbn [tally].
    intuition (try lia; try congruence).
Qed.

(* ------------------------------------------------------------------ C10: max-fail *)

Lemma event_reason_not_tf e : event_to_cancel_reason e <> TestFailure.
Proof. destruct e; discriminate. Qed.

(* a TestFailure announcement can only come from a Finished that reaches the limit *)
Lemma step_tf_only_if d e s' evs rsp :
  dstep_live d e = (s', evs, rsp) -> In TestFailure (reasons evs) ->
  exists t a d' n, e = Finished t a /\ s' = Live d' /\ d_max_fail d = Some n /\
                   n <= failed_count (d_stats d') /\
                   opt_rank (d_cancel d) < opt_rank (Some TestFailure).
Proof.
  intros H. destruct e; step_inv H; kill_some; proj_simpl;
    cbn [reasons cancel_reason_of app In]; intros Hin;
    repeat match goal with
    | Hx : _ \/ _ |- _ => destruct Hx
    | Hx : False |- _ => destruct Hx
    | Hx : event_to_cancel_reason _ = TestFailure |- _ => apply event_reason_not_tf in Hx; destruct Hx
    end; try discriminate.
  all: match goal with
       | Hm : max_fail_exceeded ?mf _ = true |- _ =>
           unfold max_fail_exceeded in Hm; destruct mf as [n|] eqn:Emf; [|discriminate];
           apply N.leb_le in Hm
       end.
  all: do 4 eexists; repeat split; eauto.
Qed.

Lemma step_tf_if d t a d' evs rsp n :
  dstep_live d (Finished t a) = (Live d', evs, rsp) ->
  d_max_fail d = Some n -> n <= failed_count (d_stats d') ->
  opt_rank (d_cancel d) < opt_rank (Some TestFailure) ->
  In TestFailure (reasons evs).
Proof.
  intros H Hmf Hn Hlt. step_inv H; kill_some; proj_simpl;
    cbn [reasons cancel_reason_of app In]; auto; try lia.
  (* the limit was not exceeded: contradiction with Hn *)
  all: try discriminate.
  all: match goal with
       | Hm : max_fail_exceeded ?mf _ = false |- _ =>
           unfold max_fail_exceeded in Hm; rewrite Hmf in Hm; apply N.leb_gt in Hm; lia
       end.
Qed.

(* setup-script failure cancels whatever max-fail says *)
Lemma step_script_failure d s r s' evs rsp :
  dstep_live d (ScriptFinished s r) = (s', evs, rsp) ->
  s' <> Panicked -> is_success r = false -> d_cancel d = None ->
  In SetupScriptFailure (reasons evs) /\ r_resp rsp = RCancel CeTestFailure.
Proof.
  intros H Hp Hr Hc. step_inv H; kill_some; proj_simpl; try congruence;
    cbn [reasons cancel_reason_of app In]; auto.
  - rewrite Hr in *. discriminate.
  - rewrite Hc in *. cbn in *. lia.
Qed.

(* once the limit is reached the run is being cancelled for a reason >= TestFailure *)
Definition maxfail_inv (d : dstate) : Prop :=
  forall n, d_max_fail d = Some n -> 1 <= n -> n <= failed_count (d_stats d) ->
            opt_rank (Some TestFailure) <= opt_rank (d_cancel d).

Lemma step_maxfail_inv d e d' evs rsp :
  dstep_live d e = (Live d', evs, rsp) -> maxfail_inv d -> maxfail_inv d'.
Proof.
  intros H Hinv n Hmf H1 Hn.
  pose proof (step_counts _ _ _ _ _ H) as P. cbv zeta in P.
  destruct P as (_ & Pf & _ & _ & _ & _ & _ & _ & Pmf & _).
  pose proof (step_cancel_monotone _ _ _ _ _ H) as Hmono.
  rewrite Pmf in Hmf.
  destruct (N.le_gt_cases n (failed_count (d_stats d))) as [Hold|Hnew].
  - specialize (Hinv n Hmf H1 Hold). lia.
  - (* this step made the count reach n: it is a Finished, and it cancels *)
    destruct e; cbn [ev_fail] in Pf; try lia.
    destruct (N.lt_ge_cases (opt_rank (d_cancel d)) (opt_rank (Some TestFailure))) as [Hlt|Hge]; [|lia].
    pose proof (step_tf_if _ _ _ _ _ _ _ H Hmf Hn Hlt) as Hin.
    destruct (step_reasons _ _ _ _ _ H) as [[R _]|(r & d2 & R & E2 & _ & Hc)].
    + rewrite R in Hin. destruct Hin.
    + rewrite R in Hin. destruct Hin as [->|[]]. inversion E2; subst. rewrite Hc. lia.
Qed.

Lemma run_maxfail_inv h : forall d d',
  final_state (Live d) h = Live d' -> maxfail_inv d -> maxfail_inv d'.
Proof.
  induction h as [|e h IH]; intros d d' H Hinv.
  - cbn in H. inversion H; subst; auto.
  - rewrite final_state_cons in H.
    destruct (final_state_live_prefix _ _ _ H) as [d1 E1]. rewrite E1 in H.
    unfold next_state in E1. cbn [dstep] in E1.
    destruct (dstep_live d e) as [[s1 evs] rsp] eqn:E. cbn [fst] in E1. subst s1.
    eapply IH; eauto. eapply step_maxfail_inv; eauto.
Qed.

Lemma init_maxfail_inv n mf dbg : maxfail_inv (init n mf dbg).
Proof. intros k _ H1 Hk. cbn in Hk. lia. Qed.

(* ------------------------------------------------------------------ C10: signals, kill, broadcast *)

Definition sig_n (o : option sigcount) : nat :=
  match o with None => 0 | Some SOnce => 1 | Some STwice => 2 end.

Definition ev_shutdown (e : devent) : nat := match e with SigShutdown _ => 1 | _ => 0 end.

Lemma shutdown_count_cons e h : shutdown_count (e :: h) = (ev_shutdown e + shutdown_count h)%nat.
Proof. destruct e; reflexivity. Qed.

Lemma shutdown_count_app h1 h2 :
  shutdown_count (h1 ++ h2) = (shutdown_count h1 + shutdown_count h2)%nat.
Proof.
  induction h1 as [|e h1 IH]; [reflexivity|].
  cbn [app]. rewrite !shutdown_count_cons, IH. lia.
Qed.

Lemma step_sig_count d e d' evs rsp :
  dstep_live d e = (Live d', evs, rsp) -> sig_n (d_sig d') = (sig_n (d_sig d) + ev_shutdown e)%nat.
Proof.
  intros H. destruct e; step_inv H; cbn [ev_shutdown sig_n]; try lia;
    repeat match goal with Hx : d_sig _ = _ |- _ => rewrite Hx end; cbn [sig_n]; lia.
Qed.

Lemma run_sig_count h : forall d d',
  final_state (Live d) h = Live d' -> sig_n (d_sig d') = (sig_n (d_sig d) + shutdown_count h)%nat.
Proof.
  induction h as [|e h IH]; intros d d' H.
  - cbn in H. inversion H; subst. cbn. lia.
  - rewrite final_state_cons in H.
    destruct (final_state_live_prefix _ _ _ H) as [d1 E1]. rewrite E1 in H.
    unfold next_state in E1. cbn [dstep] in E1.
    destruct (dstep_live d e) as [[s1 evs] rsp] eqn:E. cbn [fst] in E1. subst s1.
    rewrite (IH _ _ H), (step_sig_count _ _ _ _ _ E), shutdown_count_cons. lia.
Qed.

Lemma step_third_signal d ev :
  d_sig d = Some STwice -> dstep_live d (SigShutdown ev) = (Panicked, [], no_resp).
Proof. intros H. unfold dstep_live. rewrite H. reflexivity. Qed.

Lemma step_kill_iff d e s' evs rsp :
  dstep_live d e = (s', evs, rsp) ->
  (existsb is_begin_kill evs = true <-> (exists ev, e = SigShutdown ev) /\ d_sig d = Some SOnce).
Proof.
  intros H. destruct e; step_inv H; kill_some; proj_simpl;
    cbn [existsb is_begin_kill app orb];
    (split; [intros Hx; try discriminate; split; eauto | intros [[ev Hev] Hs]; try discriminate; try congruence; auto]).
  all: try (destruct e; discriminate).
  all: try congruence.
Qed.

(* which request the dispatcher hands to the running units, per cause *)
Definition cancel_broadcast (b : option broadcast) : bool :=
  match b with Some BOtherCancel | Some (BShutdown _) => true | _ => false end.

Lemma step_broadcast d e s' evs rsp :
  dstep_live d e = (s', evs, rsp) ->
  let b := broadcast_of (r_resp rsp) in
  (forall r, In r (reasons evs) ->
     (rank r <= 2 -> b = Some BOtherCancel) /\
     (3 <= rank r -> exists ev, e = SigShutdown ev /\ r = event_to_cancel_reason ev /\
                                b = Some (BShutdown (Once ev))) /\
     match e with
     | ScriptFinished _ _ => r = SetupScriptFailure
     | Finished _ _ => r = TestFailure
     | ReportCancel => r = ReportError
     | SigShutdown ev => r = event_to_cancel_reason ev
     | _ => False
     end) /\
  (existsb is_begin_kill evs = true -> b = Some (BShutdown Twice)) /\
  (reasons evs = [] -> existsb is_begin_kill evs = false -> cancel_broadcast b = false).
Proof.
  intros H. cbv zeta.
  destruct e; step_inv H; kill_some; proj_simpl;
    cbn [reasons cancel_reason_of app In existsb is_begin_kill orb broadcast_of cancel_broadcast rank];
    (split; [intros rr Hin | split; [intros Hk|intros Hr Hk]]);
    try discriminate; try reflexivity; try contradiction;
    repeat match goal with Hx : _ \/ False |- _ => destruct Hx as [Hx|[]] end; subst;
    cbn [rank]; try (repeat split; auto; intros; try lia; fail).
  all: try (match goal with e : shutdown_event |- _ => destruct e end;
            cbn [event_to_cancel_reason rank to_request]; repeat split; intros; try lia; eauto; fail).
Qed.

(* ------------------------------------------------------------------ statements as used in Properties/C10.v *)

Lemma init_sig_inv n mf dbg : sig_inv (Live (init n mf dbg)).
Proof. cbn. intros H; contradiction. Qed.

Lemma run_sig_inv h : forall s, sig_inv s -> sig_inv (final_state s h).
Proof.
  induction h as [|e h IH]; intros s H; [exact H|].
  rewrite final_state_cons. apply IH.
  unfold next_state. destruct (dstep s e) as [[s' evs] rsp] eqn:E.
  destruct (dstep_no_new_units _ _ _ _ _ E H) as (_ & _ & _ & D & _). exact D.
Qed.

Lemma no_new_units s h : sig_inv s ->
  (forall pre x post, out s h = pre ++ x :: post -> is_ann x = true ->
     Forall (fun y => is_start_event y = false) post) /\
  (forall tr1 x tr2, trace s h = tr1 ++ x :: tr2 -> existsb is_ann (step_events x) = true ->
     Forall (fun y => r_hs (step_resp y) <> HAccepted /\
                      Forall (fun z => is_start_event z = false) (step_events y)) tr2).
Proof.
  intros Hinv. split.
  - apply no_start_after_decomp. apply run_no_start_after; auto. discriminate.
  - intros tr1 x tr2. apply run_refuses_after_announcement; auto.
Qed.

Lemma cancel_never_resets d h d' :
  final_state (Live d) h = Live d' -> d_cancel d <> None -> d_cancel d' <> None.
Proof.
  intros H Hc E. apply run_cancel_monotone in H. rewrite E in H. cbn in H.
  destruct (d_cancel d); [cbn in H; lia|contradiction].
Qed.

Lemma announce_once s h :
  StronglySorted rank_lt (reasons (out s h)) /\
  Forall (fun r => opt_rank (dst_cancel s) < opt_rank (Some r)) (reasons (out s h)).
Proof. apply run_reasons_sorted. Qed.

Lemma init_failed_count n mf dbg : failed_count (d_stats (init n mf dbg)) = 0.
Proof. reflexivity. Qed.

Lemma maxfail_exact c0 mf dbg h e d s' evs rsp :
  final_state (Live (init c0 mf dbg)) h = Live d ->
  dstep (Live d) e = (s', evs, rsp) ->
  (In TestFailure (reasons evs) <->
   exists t a n, e = Finished t a /\ s' <> Panicked /\ mf = Some n /\
                 n <= tally ev_fail (h ++ [e]) /\
                 opt_rank (d_cancel d) < opt_rank (Some TestFailure)).
Proof.
  intros Hrun Hstep. cbn [dstep] in Hstep.
  pose proof (run_counts _ _ _ Hrun) as P. cbv zeta in P.
  destruct P as (_ & Pf & _ & _ & _ & _ & _ & _ & Pmf & _).
  cbn [init d_stats d_max_fail] in Pf, Pmf. rewrite init_failed_count in Pf || idtac.
  change (failed_count (stats0 c0)) with 0 in Pf.
  split.
  - intros Hin. destruct (step_tf_only_if _ _ _ _ _ Hstep Hin) as (t & a & d' & n & -> & -> & Hmf & Hn & Hlt).
    exists t, a, n. repeat split; auto; try discriminate; try congruence.
    pose proof (step_counts _ _ _ _ _ Hstep) as Q. cbv zeta in Q.
    destruct Q as (_ & Qf & _). rewrite tally_app. cbn [tally]. cbn [ev_fail] in *. lia.
  - intros (t & a & n & -> & Hp & -> & Hn & Hlt).
    destruct s' as [d'|]; [|contradiction].
    eapply step_tf_if; eauto.
    pose proof (step_counts _ _ _ _ _ Hstep) as Q. cbv zeta in Q.
    destruct Q as (_ & Qf & _). rewrite tally_app in Hn. cbn [tally] in Hn. cbn [ev_fail] in *. lia.
Qed.

(* ... and that step is the one at which the count reaches n *)
Lemma maxfail_reach c0 n dbg h e d s' evs rsp :
  1 <= n ->
  final_state (Live (init c0 (Some n) dbg)) h = Live d ->
  dstep (Live d) e = (s', evs, rsp) ->
  In TestFailure (reasons evs) ->
  tally ev_fail h < n /\ tally ev_fail (h ++ [e]) = n.
Proof.
  intros H1 Hrun Hstep Hin.
  pose proof (proj1 (maxfail_exact _ _ _ _ _ _ _ _ _ Hrun Hstep) Hin)
    as (t & a & n' & -> & Hp & Hmf & Hn & Hlt).
  inversion Hmf; subst n'.
  pose proof (run_counts _ _ _ Hrun) as P. cbv zeta in P.
  destruct P as (_ & Pf & _ & _ & _ & _ & _ & _ & Pmf & _).
  change (failed_count (d_stats (init c0 (Some n) dbg))) with 0 in Pf.
  cbn [init d_max_fail] in Pmf.
  pose proof (run_maxfail_inv _ _ _ Hrun (init_maxfail_inv _ _ _)) as Hinv.
  assert (Hlt' : tally ev_fail h < n).
  { destruct (N.lt_ge_cases (tally ev_fail h) n) as [|Hge]; auto.
    specialize (Hinv n Pmf H1). rewrite Pf in Hinv. specialize (Hinv ltac:(lia)). lia. }
  split; auto. rewrite tally_app in *. cbn [tally ev_fail] in *.
  unfold fail1 in *. destruct (is_success (a_res a)); lia.
Qed.

Lemma kill_exactly_second_signal c0 mf dbg h e d s' evs rsp :
  final_state (Live (init c0 mf dbg)) h = Live d ->
  dstep (Live d) e = (s', evs, rsp) ->
  (existsb is_begin_kill evs = true <-> (exists ev, e = SigShutdown ev) /\ shutdown_count h = 1%nat).
Proof.
  intros Hrun Hstep. cbn [dstep] in Hstep.
  rewrite (step_kill_iff _ _ _ _ _ Hstep).
  pose proof (run_sig_count _ _ _ Hrun) as P. cbn [init d_sig sig_n] in P.
  split; intros [A B]; split; auto.
  - rewrite B in P. cbn in P. lia.
  - destruct (d_sig d) as [[|]|]; cbn in P; auto; lia.
Qed.

Lemma third_signal_panics c0 mf dbg h ev d :
  final_state (Live (init c0 mf dbg)) h = Live d -> shutdown_count h = 2%nat ->
  dstep (Live d) (SigShutdown ev) = (Panicked, [], no_resp).
Proof.
  intros Hrun Hc. cbn [dstep]. apply step_third_signal.
  pose proof (run_sig_count _ _ _ Hrun) as P. cbn [init d_sig sig_n] in P.
  destruct (d_sig d) as [[|]|]; cbn in P; auto; lia.
Qed.

Lemma at_most_two_signals_survive c0 mf dbg h d :
  final_state (Live (init c0 mf dbg)) h = Live d -> (shutdown_count h <= 2)%nat.
Proof.
  intros Hrun. pose proof (run_sig_count _ _ _ Hrun) as P. cbn [init d_sig sig_n] in P.
  destruct (d_sig d) as [[|]|]; cbn in P; lia.
Qed.

Lemma stats_partition c0 mf dbg h d :
  final_state (Live (init c0 mf dbg)) h = Live d -> stats_ok (d_stats d).
Proof.
  intros Hrun. pose proof (run_counts _ _ _ Hrun) as P. cbv zeta in P.
  apply P. apply stats0_ok.
Qed.

Lemma reachable_sig_inv n mf dbg h : sig_inv (final_state (Live (init n mf dbg)) h).
Proof. apply run_sig_inv. apply init_sig_inv. Qed.

(* ------------------------------------------------------------------ fixtures of the closed examples *)

Definition fail_att (no total : N) : attempt := mk_attempt (Fail None false) false no total.
Definition pass_att (no total : N) : attempt := mk_attempt Pass false no total.

(* max-fail = 2 over four tests: the second failure announces TestFailure, the later start request
   and the retry request are refused, a SIGTERM then escalates, a second signal kills *)
Definition ex_history : list devent :=
  [Started 0; Started 1; Started 2;
   Finished 0 (fail_att 1 1);
   AttemptFailedWillRetry 2 (fail_att 1 2);
   Finished 1 (fail_att 1 1);
   Started 3; RetryStarted 2 2 2;
   SigShutdown Term; ReportCancel; SigShutdown SInterrupt].


(* ------------------------------------------------------------------ the per-unit repeat of the cancel request *)

(* handle_event itself addresses a single unit exactly when that unit reports a failed attempt
   (with retries left) while the run is being cancelled; what it sends is OtherCancel *)
Lemma step_unicast_iff d e s' evs rsp t :
  dstep_live d e = (s', evs, rsp) ->
  (r_unit rsp = Some t <->
   exists a, e = AttemptFailedWillRetry t a /\ d_cancel d <> None /\ s' <> Panicked).
Proof.
  intros H. destruct e; step_inv H; kill_some; proj_simpl;
    (split; [intros Hx; try discriminate | intros (a' & Ha & Hcc & Hpp); try discriminate; try congruence]).
  all: try (inversion Hx; subst; eexists; repeat split; eauto; discriminate).
  all: try (inversion Ha; subst; reflexivity).
Qed.

Lemma dstep_unicast_iff d e s' evs rsp t :
  dstep (Live d) e = (s', evs, rsp) ->
  (r_unit rsp = Some t <->
   exists a, e = AttemptFailedWillRetry t a /\ d_cancel d <> None /\ s' <> Panicked).
Proof. apply step_unicast_iff. Qed.

(* the step that begins cancellation broadcasts a cancel request *)
Lemma step_begins_cancel_broadcasts d e d' evs rsp :
  dstep_live d e = (Live d', evs, rsp) -> d_cancel d = None -> d_cancel d' <> None ->
  cancel_broadcast (broadcast_of (r_resp rsp)) = true.
Proof.
  intros H Hnone Hsome. destruct e; step_inv H; kill_some; proj_simpl; try congruence;
    cbn [broadcast_of cancel_broadcast]; try reflexivity.
  all: try (match goal with e : shutdown_event |- _ => destruct e end; reflexivity).
Qed.
