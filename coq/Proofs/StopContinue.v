(* C12: a stop / continue pair is invisible to a unit's state (current pause table). *)
From NextestModel Require Import Base.Str Base.Tac Model.Clocks Model.UnitTimers Model.AbsTimers
  Proofs.Timers gen.GenPauseTable.
Open Scope N_scope.

(* In the running loop: Stop, any amount of stopped time, Continue leave the unit in exactly the
   state it was in; what the process group sees is SIGTSTP and SIGCONT, and the stop is
   acknowledged. Whatever happens afterwards therefore happens as it would have without the pause. *)
Lemma stop_continue_identity_running cfg s dt :
  ph s = PRunning -> owned_running s = true -> reaped s = false ->
  urun pause_table cfg s [Req RStop; Tick dt; Req RContinue]
  = Ok (s, [OSignal SigTstp; OAck; OSignal SigCont]).
Proof.
  destruct s as [p [[a1 b1] [r2 b2] [r3 b3] [a4 b4] [r5 b5] [a6 b6]] [rl bl] h to sl rp ex lk fd].
  cbn [ph reaped mk]. intros -> Hrun ->.
  unfold owned_running in Hrun. cbn in Hrun.
  destruct b1; [discriminate|]. destruct b2; [discriminate|].
  destruct b3, b4, b5, b6; reflexivity.
Qed.

(* In the terminating loop the same holds for every clock that loop owns; the slow-timeout
   interval sleep is not owned by it and, unless it was already paused, keeps counting. *)
Lemma stop_continue_identity_terminating cfg s x dt :
  ph s = PTerminating x -> owned_running s = true -> reaped s = false ->
  urun pause_table cfg s [Req RStop; Tick dt; Req RContinue]
  = Ok (with_ck s (set_isl (ck s) (slc_tick dt (k_isl (ck s)))),
        [OSignal SigTstp; OAck; OSignal SigCont]).
Proof.
  destruct s as [p [[a1 b1] [r2 b2] [r3 b3] [a4 b4] [r5 b5] [a6 b6]] [rl bl] h to sl rp ex lk fd].
  cbn [ph reaped mk]. intros -> Hrun ->.
  unfold owned_running in Hrun. cbn in Hrun.
  destruct b1; [discriminate|]. destruct b3; [discriminate|]. destruct b4; [discriminate|].
  destruct b2, b5, b6; reflexivity.
Qed.

(* hence any continuation gives the same final state and the same later outputs *)
Lemma stop_continue_same_results cfg s dt es :
  ph s = PRunning -> owned_running s = true -> reaped s = false ->
  urun pause_table cfg s ([Req RStop; Tick dt; Req RContinue] ++ es) =
  match urun pause_table cfg s es with
  | Ok r => Ok (fst r, [OSignal SigTstp; OAck; OSignal SigCont] ++ snd r)
  | Panicked => Panicked
  end.
Proof.
  intros Hp Hrun Hr.
  assert (H3 : urun pause_table cfg s [Req RStop; Tick dt; Req RContinue]
               = Ok (s, [OSignal SigTstp; OAck; OSignal SigCont])).
  { apply stop_continue_identity_running; assumption. }
  change ([Req RStop; Tick dt; Req RContinue] ++ es)
    with (Req RStop :: Tick dt :: Req RContinue :: es).
  cbn [urun] in H3 |- *.
  destruct (ustep pause_table cfg s (Req RStop)) as [[s1 o1]|]; cbn [obind fst snd] in *; [|discriminate].
  destruct (ustep pause_table cfg s1 (Tick dt)) as [[s2 o2]|]; cbn [obind fst snd] in *; [|discriminate].
  destruct (ustep pause_table cfg s2 (Req RContinue)) as [[s3 o3]|]; cbn [obind fst snd] in *; [|discriminate].
  injection H3 as H3a H3b. subst s3.
  destruct (urun pause_table cfg s es) as [[s4 o4]|]; cbn [obind fst snd]; [|reflexivity].
  rewrite app_nil_r in H3b.
  f_equal. f_equal. rewrite <- H3b. rewrite <- !app_assoc. reflexivity.
Qed.
