(* C19, composition: what Archiver::archive produces from a build, encoded as tar entries with
   UTF-8 path names, extracted by the (repaired) extraction machine into a destination without a
   target/ directory, seen through PathMapper's target-directory remapping. *)
From NextestModel Require Import Base.Str Model.Archive Proofs.StrFacts Proofs.Archive.
From NextestModel Require Import Base.Tac.
Open Scope N_scope.

(* ================================================================== UTF-8 round trip *)

(* a Unicode scalar value (what a Rust `char` can hold) *)
Definition scalar (c : N) : bool := (c <? 1114112) && negb ((55296 <=? c) && (c <? 57344)).

Lemma utf8_char_len c : (1 <= length (utf8_char c))%nat.
Proof. unfold utf8_char. destruct (c <? 128), (c <? 2048), (c <? 65536); cbn [length]; lia. Qed.

Lemma utf8_cons c s : utf8 (c :: s) = utf8_char c ++ utf8 s.
Proof. reflexivity. Qed.

Lemma utf8_decode_char c f rest :
  scalar c = true ->
  utf8_decode_fuel (S f) (utf8_char c ++ rest) = option_map (cons c) (utf8_decode_fuel f rest).
Proof.
  unfold scalar. rewrite andb_true_iff, negb_true_iff, andb_false_iff.
  rewrite N.ltb_lt, N.leb_gt, N.ltb_ge. intros [Hmax Hsur].
  unfold utf8_char.
  destruct (N.ltb_spec c 128) as [H1|H1].
  { cbn [app utf8_decode_fuel]. apply N.ltb_lt in H1. rewrite H1. reflexivity. }
  destruct (N.ltb_spec c 2048) as [H2|H2].
  { cbn [app utf8_decode_fuel].
    assert (E1 : 192 + c / 64 <? 128 = false) by (apply N.ltb_ge; lia).
    assert (E2 : 192 + c / 64 <? 194 = false) by (apply N.ltb_ge; lia).
    assert (E3 : 192 + c / 64 <? 224 = true) by (apply N.ltb_lt; lia).
    rewrite E1, E2, E3.
    assert (E4 : cont (128 + c mod 64) = true).
    { unfold cont. apply andb_true_iff. split; [apply N.leb_le | apply N.ltb_lt]; lia. }
    rewrite E4.
    replace ((192 + c / 64 - 192) * 64 + (128 + c mod 64 - 128)) with c by lia. reflexivity. }
  destruct (N.ltb_spec c 65536) as [H3|H3].
  { cbn [app utf8_decode_fuel].
    assert (E1 : 224 + c / 4096 <? 128 = false) by (apply N.ltb_ge; lia).
    assert (E2 : 224 + c / 4096 <? 194 = false) by (apply N.ltb_ge; lia).
    assert (E3 : 224 + c / 4096 <? 224 = false) by (apply N.ltb_ge; lia).
    assert (E3' : 224 + c / 4096 <? 240 = true) by (apply N.ltb_lt; lia).
    rewrite E1, E2, E3, E3'.
    assert (E4 : cont (128 + (c / 64) mod 64) = true).
    { unfold cont. apply andb_true_iff. split; [apply N.leb_le | apply N.ltb_lt]; lia. }
    assert (E5 : cont (128 + c mod 64) = true).
    { unfold cont. apply andb_true_iff. split; [apply N.leb_le | apply N.ltb_lt]; lia. }
    rewrite E4, E5.
    replace ((224 + c / 4096 - 224) * 4096 + (128 + (c / 64) mod 64 - 128) * 64 + (128 + c mod 64 - 128))
      with c by lia.
    assert (E6 : 2048 <=? c = true) by (apply N.leb_le; lia).
    assert (E7 : negb ((55296 <=? c) && (c <? 57344)) = true).
    { apply negb_true_iff, andb_false_iff. rewrite N.leb_gt, N.ltb_ge. exact Hsur. }
    rewrite E6, E7. reflexivity. }
  cbn [app utf8_decode_fuel].
  assert (E1 : 240 + c / 262144 <? 128 = false) by (apply N.ltb_ge; lia).
  assert (E2 : 240 + c / 262144 <? 194 = false) by (apply N.ltb_ge; lia).
  assert (E3 : 240 + c / 262144 <? 224 = false) by (apply N.ltb_ge; lia).
  assert (E3' : 240 + c / 262144 <? 240 = false) by (apply N.ltb_ge; lia).
  assert (E3'' : 240 + c / 262144 <? 245 = true) by (apply N.ltb_lt; lia).
  rewrite E1, E2, E3, E3', E3''.
  assert (E4 : cont (128 + (c / 4096) mod 64) = true).
  { unfold cont. apply andb_true_iff. split; [apply N.leb_le | apply N.ltb_lt]; lia. }
  assert (E5 : cont (128 + (c / 64) mod 64) = true).
  { unfold cont. apply andb_true_iff. split; [apply N.leb_le | apply N.ltb_lt]; lia. }
  assert (E6 : cont (128 + c mod 64) = true).
  { unfold cont. apply andb_true_iff. split; [apply N.leb_le | apply N.ltb_lt]; lia. }
  rewrite E4, E5, E6.
  replace ((240 + c / 262144 - 240) * 262144 + (128 + (c / 4096) mod 64 - 128) * 4096
           + (128 + (c / 64) mod 64 - 128) * 64 + (128 + c mod 64 - 128)) with c by lia.
  assert (E7 : 65536 <=? c = true) by (apply N.leb_le; lia).
  assert (E8 : c <? 1114112 = true) by (apply N.ltb_lt; lia).
  rewrite E7, E8. reflexivity.
Qed.

Lemma utf8_decode_utf8_fuel : forall s f,
  forallb scalar s = true -> (length (utf8 s) <= f)%nat -> utf8_decode_fuel f (utf8 s) = Some s.
Proof.
  induction s as [|c s IH]; intros f Hs Hf.
  - destruct f; reflexivity.
  - cbn [forallb] in Hs. apply andb_true_iff in Hs as [Hc Hs].
    rewrite utf8_cons in *. rewrite app_length in Hf. pose proof (utf8_char_len c).
    destruct f as [|f]; [lia|].
    rewrite utf8_decode_char by exact Hc. rewrite IH; [reflexivity | exact Hs | lia].
Qed.

(* strict UTF-8 decoding inverts the encoder on every string of scalar values *)
Theorem utf8_decode_utf8 s : forallb scalar s = true -> utf8_decode (utf8 s) = Some s.
Proof. intros H. unfold utf8_decode. apply utf8_decode_utf8_fuel; [exact H | lia]. Qed.

Lemma render_rel_scalar p :
  forallb (forallb scalar) p = true -> forallb scalar (render_rel p) = true.
Proof.
  induction p as [|n p IH]; intros H; [reflexivity|].
  cbn [forallb] in H. apply andb_true_iff in H as [Hn Hp].
  destruct p as [|m p'].
  - cbn [render_rel]. exact Hn.
  - change (render_rel (n :: m :: p')) with (n ++ slash :: render_rel (m :: p')).
    rewrite forallb_app. cbn [forallb]. rewrite Hn, (IH Hp). reflexivity.
Qed.

Lemma encodes_tentry_of_scalar e :
  forallb (forallb scalar) (fst e) = true -> encodes (tentry_of e) e.
Proof.
  intros H. unfold encodes, tentry_of, utf8_path. cbn [te_raw te_cksum_ok te_kind te_data].
  rewrite utf8_decode_utf8 by (apply render_rel_scalar; exact H). auto.
Qed.

(* ================================================================== well-formed builds *)

(* a directory entry name as read_dir / a path component as camino yields it: no '/', not empty,
   not `.` or `..`, made of scalar values *)
Definition name_ok (n : name) : bool := normal_name n && forallb scalar n.

Fixpoint tree_ok (t : tree) : bool :=
  match t with
  | Dir es =>
      (fix go (es : list (name * tree)) : bool :=
         match es with
         | [] => true
         | (n, c) :: es' => name_ok n && tree_ok c && go es'
         end) es
  | _ => true
  end.

Definition src_ok (t : option tree) : bool :=
  match t with Some t => tree_ok t | None => true end.

Definition item_ok (x : rpath * option tree) : bool := forallb name_ok (fst x) && src_ok (snd x).

Definition build_ok (b : build) : bool :=
  forallb item_ok (b_test_bins b)
  && forallb item_ok (b_non_test_bins b)
  && forallb (fun o : outdir =>
                item_ok (fst o) && match snd o with Some f => item_ok f | None => true end)
             (b_out_dirs b)
  && forallb item_ok (b_linked b)
  && forallb (fun i => forallb name_ok (inc_path i) && src_ok (inc_src i)) (b_includes b)
  && forallb item_ok (b_stdlibs b).

Lemma tree_ok_dir es :
  tree_ok (Dir es) = forallb (fun e : name * tree => name_ok (fst e) && tree_ok (snd e)) es.
Proof.
  cbn [tree_ok]. induction es as [|[n c] es IH]; [reflexivity|].
  cbn [forallb fst snd]. rewrite <- IH. reflexivity.
Qed.

Lemma leaves_names t : tree_ok t = true ->
  forall r k s, In (r, (k, s)) (leaves t) -> forallb name_ok r = true.
Proof.
  induction t as [b|l| |es IH] using tree_ind'; intros Hok r k s Hin.
  - cbn [leaves In] in Hin. destruct Hin as [H|[]]. inversion H; subst. reflexivity.
  - cbn [leaves In] in Hin. destruct Hin as [H|[]]. inversion H; subst. reflexivity.
  - destruct Hin.
  - rewrite leaves_dir in Hin. rewrite tree_ok_dir in Hok.
    apply in_flat_map in Hin as [[n c] [He Hx]]. apply in_rev in He. cbn [fst snd] in Hx.
    apply in_map_iff in Hx as [[r' [k' s']] [Hb Hl]]. unfold bump in Hb. cbn [fst snd] in Hb.
    inversion Hb; subst r k s.
    rewrite forallb_forall in Hok. specialize (Hok _ He). cbn [fst snd] in Hok.
    apply andb_true_iff in Hok as [Hn Hc].
    rewrite Forall_forall in IH. specialize (IH _ He). cbn [snd] in IH.
    cbn [forallb]. rewrite Hn. cbn [andb]. exact (IH Hc _ _ _ Hl).
Qed.

(* target/<names that are fine> *)
Definition good_path (p : rpath) : Prop :=
  exists rest, p = target_name :: rest /\ forallb name_ok rest = true.

Lemma name_ok_normal rest :
  forallb name_ok rest = true -> Forall (fun n => normal_name n = true) rest.
Proof.
  intros H. apply Forall_forall. intros n Hn. rewrite forallb_forall in H.
  specialize (H n Hn). unfold name_ok in H. apply andb_true_iff in H. tauto.
Qed.

Lemma name_ok_scalar rest :
  forallb name_ok rest = true -> forallb (forallb scalar) rest = true.
Proof.
  intros H. apply forallb_forall. intros n Hn. rewrite forallb_forall in H.
  specialize (H n Hn). unfold name_ok in H. apply andb_true_iff in H. tauto.
Qed.

Lemma good_path_archive_path p : good_path p -> archive_path p.
Proof. intros [rest [-> H]]. exists rest. split; [reflexivity | apply name_ok_normal; exact H]. Qed.

Lemma target_name_scalar : forallb scalar target_name = true.
Proof. vm_compute. reflexivity. Qed.

Lemma good_path_scalar p : good_path p -> forallb (forallb scalar) p = true.
Proof.
  intros [rest [-> H]]. cbn [forallb]. rewrite target_name_scalar. cbn [andb].
  apply name_ok_scalar. exact H.
Qed.

Lemma good_under_target p r :
  forallb name_ok p = true -> forallb name_ok r = true -> good_path (under_target p ++ r).
Proof.
  intros Hp Hr. exists (p ++ r). split; [reflexivity|]. rewrite forallb_app, Hp, Hr. reflexivity.
Qed.

Lemma walk_ops_path g dpt p t o q :
  In o (walk_ops g dpt p t) -> op_path o = Some q -> src_ok t = true ->
  exists r, q = p ++ r /\ forallb name_ok r = true.
Proof.
  unfold walk_ops. destruct (g && negb (exists_follow t)); [intros []|].
  destruct t as [t|].
  - intros Hin Hq Hok. cbn [src_ok] in Hok. unfold items_ops in Hin.
    apply in_map_iff in Hin as [[q' s] [Ho Hin]]. subst o. cbn [op_path fst] in Hq.
    inversion Hq; subst q'.
    apply collect_depth_iff in Hin as [r [k [-> [Hl _]]]].
    exists r. split; [reflexivity|]. exact (leaves_names t Hok _ _ _ Hl).
  - intros [Ho|[]] Hq. subst o. discriminate Hq.
Qed.

Lemma metadata_paths_good : good_path binaries_metadata_path /\ good_path cargo_metadata_path.
Proof.
  split; eexists; (split; [reflexivity|]); vm_compute; reflexivity.
Qed.

Lemma item_ok_parts x : item_ok x = true -> forallb name_ok (fst x) = true /\ src_ok (snd x) = true.
Proof. unfold item_ok. intros H. apply andb_true_iff in H. exact H. Qed.

(* every path Archiver::archive names is target/<fine names> *)
Lemma ops_paths b : build_ok b = true ->
  forall o p, In o (archive_ops b) -> op_path o = Some p -> good_path p.
Proof.
  unfold build_ok. rewrite !andb_true_iff. intros [[[[[H1 H2] H3] H4] H5] H6] o p Hin Hp.
  rewrite forallb_forall in H1, H2, H3, H4, H5, H6.
  unfold archive_ops in Hin.
  assert (Hbin : forall (l : list (rpath * option tree)),
             (forall x, In x l -> item_ok x = true) ->
             In o (map (fun x => OFile (under_target (fst x)) (resolve_direct (snd x))) l) ->
             good_path p).
  { intros l Hl Ho. apply in_map_iff in Ho as [x [Ho Hx]]. subst o. cbn [op_path] in Hp.
    inversion Hp; subst p. destruct (item_ok_parts _ (Hl _ Hx)) as [Hn _].
    rewrite <- (app_nil_r (under_target (fst x))). apply good_under_target; [exact Hn | reflexivity]. }
  assert (Hwalk : forall g dpt q t, forallb name_ok q = true -> src_ok t = true ->
             In o (walk_ops g dpt (under_target q) t) -> good_path p).
  { intros g dpt q t Hq Ht Ho. destruct (walk_ops_path _ _ _ _ _ _ Ho Hp Ht) as [r [-> Hr]].
    apply good_under_target; assumption. }
  apply in_app_or in Hin as [Hin|Hin].
  { destruct Hin as [Ho|[Ho|[]]]; subst o; cbn [op_path] in Hp; inversion Hp; subst p;
      apply metadata_paths_good. }
  apply in_app_or in Hin as [Hin|Hin].
  { destruct (includes_ok (b_includes b)); [destruct Hin|]. destruct Hin as [Ho|[]]. subst o.
    discriminate Hp. }
  apply in_app_or in Hin as [Hin|Hin]; [exact (Hbin _ H1 Hin)|].
  apply in_app_or in Hin as [Hin|Hin]; [exact (Hbin _ H2 Hin)|].
  apply in_app_or in Hin as [Hin|Hin].
  { apply in_flat_map in Hin as [od [Hod Ho]]. specialize (H3 _ Hod).
    apply andb_true_iff in H3 as [Ha Hb]. destruct (item_ok_parts _ Ha) as [Hn Ht].
    apply in_app_or in Ho as [Ho|Ho]; [exact (Hwalk _ _ _ _ Hn Ht Ho)|].
    destruct (snd od) as [f|]; [|destruct Ho]. destruct Ho as [Ho|[]]. subst o.
    cbn [op_path] in Hp. inversion Hp; subst p. destruct (item_ok_parts _ Hb) as [Hf _].
    rewrite <- (app_nil_r (under_target (fst f))). apply good_under_target; [exact Hf | reflexivity]. }
  apply in_app_or in Hin as [Hin|Hin].
  { apply in_flat_map in Hin as [x [Hx Ho]]. destruct (item_ok_parts _ (H4 _ Hx)) as [Hn Ht].
    exact (Hwalk _ _ _ _ Hn Ht Ho). }
  apply in_app_or in Hin as [Hin|Hin]; [|exact (Hbin _ H6 Hin)].
  apply in_flat_map in Hin as [i [Hi Ho]]. specialize (H5 _ Hi).
  apply andb_true_iff in H5 as [Hn Ht].
  destruct (include_check i) as [[|]|]; try destruct Ho. exact (Hwalk _ _ _ _ Hn Ht Ho).
Qed.

(* ================================================================== every named path is archived *)

Lemma run_ops_mono : forall ops st st',
  run_ops st ops = Some st' -> forall p, In p (snd st) -> In p (snd st').
Proof.
  induction ops as [|o ops IH]; intros st st' H p Hp.
  - cbn [run_ops] in H. inversion H; subst. exact Hp.
  - destruct o as [q b|q c|]; cbn [run_ops] in H.
    + apply (IH _ _ H). cbn [snd]. right. exact Hp.
    + destruct (mem_path q (snd st)); [exact (IH _ _ H _ Hp)|].
      destruct c as [c|]; [|discriminate H]. apply (IH _ _ H). cbn [snd]. right. exact Hp.
    + discriminate H.
Qed.

Lemma run_ops_total : forall ops st st',
  run_ops st ops = Some st' ->
  forall o p, In o ops -> op_path o = Some p -> In p (snd st').
Proof.
  induction ops as [|o0 ops IH]; intros st st' H o p Hin Hp; [destruct Hin|].
  destruct Hin as [->|Hin].
  - destruct o as [q b|q c|]; cbn [op_path] in Hp; try discriminate Hp; inversion Hp; subst q;
      cbn [run_ops] in H.
    + apply (run_ops_mono _ _ _ H). cbn [snd]. left. reflexivity.
    + destruct (mem_path p (snd st)) eqn:E.
      * apply mem_path_In in E. exact (run_ops_mono _ _ _ H _ E).
      * destruct c as [c|]; [|discriminate H]. apply (run_ops_mono _ _ _ H). cbn [snd]. left. reflexivity.
  - destruct o0 as [q b|q c|]; cbn [run_ops] in H.
    + exact (IH _ _ H _ _ Hin Hp).
    + destruct (mem_path q (snd st)); [exact (IH _ _ H _ _ Hin Hp)|].
      destruct c as [c|]; [|discriminate H]. exact (IH _ _ H _ _ Hin Hp).
    + discriminate H.
Qed.

Lemma run_ops_added : forall ops es a es' a',
  run_ops (es, a) ops = Some (es', a') ->
  (forall p, In p a <-> In p (map fst es)) -> (forall p, In p a' <-> In p (map fst es')).
Proof.
  induction ops as [|o ops IH]; intros es a es' a' H Hset.
  - cbn [run_ops] in H. inversion H; subst. exact Hset.
  - assert (Hadd : forall q c, (forall p, In p (q :: a) <-> In p (map fst (es ++ [(q, c)])))).
    { intros q c p. rewrite map_app, in_app_iff. cbn [map fst In]. rewrite Hset. tauto. }
    destruct o as [q b|q c|]; cbn [run_ops fst snd] in H.
    + exact (IH _ _ _ _ H (Hadd q (CFile b))).
    + destruct (mem_path q a); [exact (IH _ _ _ _ H Hset)|].
      destruct c as [c|]; [|discriminate H]. exact (IH _ _ _ _ H (Hadd q c)).
    + discriminate H.
Qed.

Lemma archive_named b es o p :
  archive b = Some es -> In o (archive_ops b) -> op_path o = Some p ->
  exists c, In (p, c) es.
Proof.
  unfold archive. destruct (run_ops ([], []) (archive_ops b)) as [[es' a']|] eqn:E; [|discriminate].
  cbn [option_map fst]. intros H Hin Hp. inversion H; subst es'.
  pose proof (run_ops_total _ _ _ E _ _ Hin Hp) as Ha. cbn [snd] in Ha.
  apply (run_ops_added _ _ _ _ _ E) in Ha; [|intros q; reflexivity].
  apply in_map_iff in Ha as [[p' c] [Hp' Hc]]. cbn [fst] in Hp'. subst p'. exists c. exact Hc.
Qed.

Lemma wins_op ops p c :
  wins ops p c -> exists o, In o ops /\ op_path o = Some p /\ op_content o = Some c.
Proof.
  intros [o [Hf Hc]]. unfold first_mention in Hf. apply find_some in Hf as [Hin Hm].
  exists o. split; [exact Hin|]. split; [|exact Hc].
  unfold mentions in Hm. destruct (op_path o) as [q|]; [|discriminate Hm].
  apply path_eqb_eq in Hm. subst q. reflexivity.
Qed.

Lemma archive_entries_good b es :
  archive b = Some es -> build_ok b = true -> Forall (fun e => good_path (fst e)) es.
Proof.
  intros H Hok. apply Forall_forall. intros [p c] Hin. cbn [fst].
  destruct (archive_no_dup_first_wins b es H) as [_ Hw]. apply Hw in Hin.
  destruct (wins_op _ _ _ Hin) as [o [Ho [Hp _]]]. exact (ops_paths b Hok o p Ho Hp).
Qed.

(* ================================================================== what is in archive_ops *)

Lemma in_ops_test_bin b x :
  In x (b_test_bins b) ->
  In (OFile (under_target (fst x)) (resolve_direct (snd x))) (archive_ops b).
Proof.
  intros H. unfold archive_ops. apply in_or_app. right. apply in_or_app. right.
  apply in_or_app. left.
  exact (in_map (fun x => OFile (under_target (fst x)) (resolve_direct (snd x))) _ _ H).
Qed.

Lemma in_ops_non_test_bin b x :
  In x (b_non_test_bins b) ->
  In (OFile (under_target (fst x)) (resolve_direct (snd x))) (archive_ops b).
Proof.
  intros H. unfold archive_ops. do 3 (apply in_or_app; right). apply in_or_app. left.
  exact (in_map (fun x => OFile (under_target (fst x)) (resolve_direct (snd x))) _ _ H).
Qed.

Lemma in_ops_walk g dpt p t q s :
  g && negb (exists_follow (Some t)) = false -> In (q, s) (appends (collect dpt p t)) ->
  In (OFile q (resolve_src s)) (walk_ops g dpt p (Some t)).
Proof.
  intros Hg Hin. unfold walk_ops. rewrite Hg. unfold items_ops.
  exact (in_map (fun x => OFile (fst x) (resolve_src (snd x))) _ _ Hin).
Qed.

(* a build script out dir: its files down to depth 1, and the sibling `output` file *)
Lemma in_ops_out_dir b (o : outdir) t q s :
  In o (b_out_dirs b) -> snd (fst o) = Some t ->
  In (q, s) (appends (collect (Finite 1) (under_target (fst (fst o))) t)) ->
  In (OFile q (resolve_src s)) (archive_ops b).
Proof.
  intros Ho Ht Hin. unfold archive_ops. do 4 (apply in_or_app; right). apply in_or_app. left.
  apply in_flat_map. exists o. split; [exact Ho|]. apply in_or_app. left. rewrite Ht.
  apply in_ops_walk; [reflexivity | exact Hin].
Qed.

Lemma in_ops_out_dir_output b (o : outdir) f :
  In o (b_out_dirs b) -> snd o = Some f ->
  In (OFile (under_target (fst f)) (resolve_direct (snd f))) (archive_ops b).
Proof.
  intros Ho Hf. unfold archive_ops. do 4 (apply in_or_app; right). apply in_or_app. left.
  apply in_flat_map. exists o. split; [exact Ho|]. apply in_or_app. right. rewrite Hf. left. reflexivity.
Qed.

(* a linked path that exists: its files down to depth 1 *)
Lemma in_ops_linked b x t q s :
  In x (b_linked b) -> snd x = Some t -> exists_follow (Some t) = true ->
  In (q, s) (appends (collect (Finite 1) (under_target (fst x)) t)) ->
  In (OFile q (resolve_src s)) (archive_ops b).
Proof.
  intros Hx Ht He Hin. unfold archive_ops. do 5 (apply in_or_app; right). apply in_or_app. left.
  apply in_flat_map. exists x. split; [exact Hx|]. rewrite Ht.
  apply in_ops_walk; [rewrite He; reflexivity | exact Hin].
Qed.

(* a configured extra path that passed the pre-check and exists: its files down to its depth *)
Lemma in_ops_include b i t q s :
  In i (b_includes b) -> include_check i = Some true -> inc_src i = Some t ->
  exists_follow (Some t) = true ->
  In (q, s) (appends (collect (inc_depth i) (under_target (inc_path i)) t)) ->
  In (OFile q (resolve_src s)) (archive_ops b).
Proof.
  intros Hi Hc Ht He Hin. unfold archive_ops. do 6 (apply in_or_app; right). apply in_or_app. left.
  apply in_flat_map. exists i. split; [exact Hi|]. rewrite Hc, Ht.
  apply in_ops_walk; [rewrite He; reflexivity | exact Hin].
Qed.

Lemma in_ops_stdlib b x :
  In x (b_stdlibs b) ->
  In (OFile (under_target (fst x)) (resolve_direct (snd x))) (archive_ops b).
Proof.
  intros H. unfold archive_ops. do 7 (apply in_or_app; right).
  exact (in_map (fun x => OFile (under_target (fst x)) (resolve_direct (snd x))) _ _ H).
Qed.

(* ... and nothing else: where an operation of Archiver::archive comes from *)
Inductive op_origin (b : build) (o : op) : Prop :=
| OrMeta : o = OMem binaries_metadata_path (b_meta_binaries b)
           \/ o = OMem cargo_metadata_path (b_meta_cargo b) -> op_origin b o
| OrFail : o = OFail -> op_origin b o
| OrBin x : In x (b_test_bins b) \/ In x (b_non_test_bins b) \/ In x (b_stdlibs b) ->
            o = OFile (under_target (fst x)) (resolve_direct (snd x)) -> op_origin b o
| OrOutput (od : outdir) f : In od (b_out_dirs b) -> snd od = Some f ->
            o = OFile (under_target (fst f)) (resolve_direct (snd f)) -> op_origin b o
| OrWalk dpt p t q s :
    (exists od : outdir, In od (b_out_dirs b) /\ dpt = Finite 1 /\ p = fst (fst od)
                         /\ snd (fst od) = Some t)
    \/ (exists x, In x (b_linked b) /\ dpt = Finite 1 /\ p = fst x /\ snd x = Some t)
    \/ (exists i, In i (b_includes b) /\ include_check i = Some true /\ dpt = inc_depth i
                  /\ p = inc_path i /\ inc_src i = Some t) ->
    In (q, s) (appends (collect dpt (under_target p) t)) ->
    o = OFile q (resolve_src s) -> op_origin b o.

Lemma walk_ops_origin g dpt p t o :
  In o (walk_ops g dpt p t) ->
  o = OFail \/ exists t' q s, t = Some t' /\ In (q, s) (appends (collect dpt p t'))
                              /\ o = OFile q (resolve_src s).
Proof.
  unfold walk_ops. destruct (g && negb (exists_follow t)); [intros []|].
  destruct t as [t|].
  - intros Hin. unfold items_ops in Hin. apply in_map_iff in Hin as [[q s] [Ho Hin]].
    right. exists t, q, s. cbn [fst snd] in Ho. auto.
  - intros [Ho|[]]. left. auto.
Qed.

Lemma ops_origin b o : In o (archive_ops b) -> op_origin b o.
Proof.
  unfold archive_ops. intros Hin.
  apply in_app_or in Hin as [Hin|Hin].
  { apply OrMeta. destruct Hin as [H|[H|[]]]; auto. }
  apply in_app_or in Hin as [Hin|Hin].
  { destruct (includes_ok (b_includes b)); [destruct Hin|]. destruct Hin as [H|[]]. apply OrFail. auto. }
  apply in_app_or in Hin as [Hin|Hin].
  { apply in_map_iff in Hin as [x [Ho Hx]]. apply (OrBin b o x); auto. }
  apply in_app_or in Hin as [Hin|Hin].
  { apply in_map_iff in Hin as [x [Ho Hx]]. apply (OrBin b o x); auto. }
  apply in_app_or in Hin as [Hin|Hin].
  { apply in_flat_map in Hin as [od [Hod Ho]]. apply in_app_or in Ho as [Ho|Ho].
    - destruct (walk_ops_origin _ _ _ _ _ Ho) as [->|[t [q [s [Ht [Hl ->]]]]]]; [apply OrFail; reflexivity|].
      apply (OrWalk b _ (Finite 1) (fst (fst od)) t q s); auto.
      left. exists od. auto.
    - destruct (snd od) as [f|] eqn:Hf; [|destruct Ho]. destruct Ho as [Ho|[]].
      apply (OrOutput b o od f); auto. }
  apply in_app_or in Hin as [Hin|Hin].
  { apply in_flat_map in Hin as [x [Hx Ho]].
    destruct (walk_ops_origin _ _ _ _ _ Ho) as [->|[t [q [s [Ht [Hl ->]]]]]]; [apply OrFail; reflexivity|].
    apply (OrWalk b _ (Finite 1) (fst x) t q s); auto. right. left. exists x. auto. }
  apply in_app_or in Hin as [Hin|Hin].
  { apply in_flat_map in Hin as [i [Hi Ho]]. destruct (include_check i) as [[|]|] eqn:Hc; try destruct Ho.
    destruct (walk_ops_origin _ _ _ _ _ Ho) as [->|[t [q [s [Ht [Hl ->]]]]]]; [apply OrFail; reflexivity|].
    apply (OrWalk b _ (inc_depth i) (inc_path i) t q s); auto. right. right. exists i. auto. }
  apply in_map_iff in Hin as [x [Ho Hx]]. apply (OrBin b o x); auto.
Qed.

(* ================================================================== composition *)

(* one path, one content: two operations of the archiver that name the same path found the same
   thing there (true whenever the build directory is not modified while it is archived, except
   for a file that shadows one of the two in-memory metadata entries) *)
Definition coherent (ops : list op) : Prop :=
  forall o1 o2 p, In o1 ops -> In o2 ops -> op_path o1 = Some p -> op_path o2 = Some p ->
                  op_content o1 = op_content o2.

Definition files_of (d : fsys) : files :=
  fun q => match lookup d q with Some (NFile b) => Some b | _ => None end.

Definition bytes_of (c : option content) : option bytes :=
  match c with Some (CFile b) => Some b | _ => None end.

Definition target_remap (orig dest : rpath) : option (rpath * rpath) :=
  Some (orig, dest ++ [target_name]).

Lemma remap_into_target orig dest p :
  remap (target_remap orig dest) (orig ++ p) = dest ++ target_name :: p.
Proof. unfold target_remap. rewrite remap_prefixed, <- app_assoc. reflexivity. Qed.

(* archive b = Some es, then extraction of exactly these entries (tar entries with UTF-8 names)
   into a destination whose target/ does not exist, with or without overwrite; m = the remapping
   ReuseBuildInfo::extract_archive installs (original target dir -> dest/target) *)
Theorem archive_extract_remap b es lo ow dest orig d0 :
  archive b = Some es -> build_ok b = true -> tree_like es ->
  dest_canonical d0 dest = true -> fresh_target d0 dest ->
  exists d, extract_to lo false ow dest d0 (map tentry_of es) = XOk d
    /\ (forall o p, In o (archive_ops b) -> op_path o = Some (target_name :: p) ->
          exists c, wins (archive_ops b) (target_name :: p) c
                    /\ lookup d (remap (target_remap orig dest) (orig ++ p)) = Some (node_of_content c))
    /\ (forall rel n, lookup d (dest ++ target_name :: rel) = Some n ->
          (exists c, wins (archive_ops b) (target_name :: rel) c /\ n = node_of_content c)
          \/ (n = NDir /\ exists p c, wins (archive_ops b) p c
                                      /\ proper_prefix (target_name :: rel) p))
    /\ (forall q, path_prefix (dest ++ [target_name]) q = false -> lookup d q = lookup d0 q).
Proof.
  intros Har Hok Htl Hcan Hfresh.
  destruct (archive_no_dup_first_wins b es Har) as [Hnd Hw].
  pose proof (archive_entries_good b es Har Hok) as Hgood.
  assert (Henc : Forall2 encodes (map tentry_of es) es).
  { clear -Hgood. induction es as [|e es IH]; [constructor|].
    inversion Hgood; subst. cbn [map]. constructor; [|apply IH; assumption].
    apply encodes_tentry_of_scalar. apply good_path_scalar. assumption. }
  assert (Hap : Forall (fun e => archive_path (fst e)) es).
  { eapply Forall_impl; [|exact Hgood]. intros e. apply good_path_archive_path. }
  destruct (roundtrip lo ow dest _ es d0 Henc Hnd Hap Htl Hcan Hfresh) as [d [Hx [J1 [J2 J3]]]].
  exists d. split; [exact Hx|]. split; [|split; [|exact J3]].
  - intros o p Ho Hp. destruct (archive_named b es o _ Har Ho Hp) as [c Hc].
    exists c. split; [apply Hw; exact Hc|]. rewrite remap_into_target. exact (J1 _ _ Hc).
  - intros rel n H. destruct (J2 rel n H) as [[c [Hc ->]]|[-> [p [c [Hc Hpp]]]]].
    + left. exists c. split; [apply Hw; exact Hc | reflexivity].
    + right. split; [reflexivity|]. exists p, c. split; [apply Hw; exact Hc | exact Hpp].
Qed.

(* with one content per path, every operation's own content is what is found after extraction *)
Lemma coherent_wins ops o p c c' :
  coherent ops -> wins ops p c -> In o ops -> op_path o = Some p -> op_content o = Some c' -> c' = c.
Proof.
  intros Hco Hw Ho Hp Hc. destruct (wins_op _ _ _ Hw) as [o' [Ho' [Hp' Hc']]].
  pose proof (Hco o o' p Ho Ho' Hp Hp') as E. congruence.
Qed.

(* C19_remap: after extraction the test binaries' paths, mapped the way map_binary maps them
   (prefix substitution original target dir -> dest/target), point at the extracted copies, byte
   for byte; so listing them selects the tests of the original build *)
Theorem remap_points_at_copies b es lo ow dest orig d0 (ids : rpath -> str)
        (lister : option bytes -> list str) :
  archive b = Some es -> build_ok b = true -> tree_like es -> coherent (archive_ops b) ->
  (forall x, In x (b_test_bins b) -> exists by_, resolve_direct (snd x) = Some (CFile by_)) ->
  dest_canonical d0 dest = true -> fresh_target d0 dest ->
  exists d, extract_to lo false ow dest d0 (map tentry_of es) = XOk d
    /\ (forall x, In x (b_test_bins b) ->
          files_of d (remap (target_remap orig dest) (orig ++ fst x))
          = bytes_of (resolve_direct (snd x)))
    /\ selection lister (files_of d)
                 (map (fun x => (ids (fst x), remap (target_remap orig dest) (orig ++ fst x)))
                      (b_test_bins b))
       = flat_map (fun x => map (fun t => (ids (fst x), t))
                                (lister (bytes_of (resolve_direct (snd x))))) (b_test_bins b).
Proof.
  intros Har Hok Htl Hco Hfiles Hcan Hfresh.
  destruct (archive_extract_remap b es lo ow dest orig d0 Har Hok Htl Hcan Hfresh)
    as [d [Hx [H1 _]]].
  exists d. split; [exact Hx|].
  assert (Hbin : forall x, In x (b_test_bins b) ->
             files_of d (remap (target_remap orig dest) (orig ++ fst x))
             = bytes_of (resolve_direct (snd x))).
  { intros x Hin. destruct (Hfiles x Hin) as [by_ Hb].
    pose proof (in_ops_test_bin b x Hin) as Ho.
    destruct (H1 _ (fst x) Ho eq_refl) as [c [Hw Hl]].
    assert (CFile by_ = c).
    { apply (coherent_wins _ _ _ _ _ Hco Hw Ho eq_refl). cbn [op_content]. exact Hb. }
    subst c. unfold files_of. rewrite Hl, Hb. reflexivity. }
  split; [exact Hbin|].
  unfold selection. induction (b_test_bins b) as [|x l IH]; [reflexivity|].
  cbn [map flat_map fst snd]. rewrite (Hbin x) by (left; reflexivity).
  rewrite IH; [reflexivity| |].
  - intros y Hy. apply Hfiles. right. exact Hy.
  - intros y Hy. apply Hbin. right. exact Hy.
Qed.

(* tree_like as a test *)
Definition tree_likeb (es : list entry) : bool :=
  forallb (fun e1 : entry =>
             match snd e1 with
             | CDir => true
             | _ => forallb (fun e2 : entry =>
                               negb (path_prefix (fst e1) (fst e2)) || path_eqb (fst e1) (fst e2)) es
             end) es.

Lemma tree_likeb_sound es : tree_likeb es = true -> tree_like es.
Proof.
  unfold tree_likeb. rewrite forallb_forall. intros H p c q c' H1 H2 [r [Hr Hq]].
  specialize (H _ H1). cbn [fst snd] in H. destruct c; try reflexivity;
    rewrite forallb_forall in H; specialize (H _ H2); cbn [fst] in H; subst q;
    rewrite path_prefix_app in H; cbn [negb orb] in H; apply path_eqb_eq in H;
    exfalso; exact (app_self_neq _ _ Hr H).
Qed.

(* coherent as a test *)
Definition content_eqb (a b : content) : bool :=
  match a, b with
  | CFile x, CFile y => str_eqb x y
  | CDir, CDir => true
  | CSpecial, CSpecial => true
  | _, _ => false
  end.

Definition ocontent_eqb (a b : option content) : bool :=
  match a, b with
  | Some x, Some y => content_eqb x y
  | None, None => true
  | _, _ => false
  end.

Lemma ocontent_eqb_eq a b : ocontent_eqb a b = true -> a = b.
Proof.
  destruct a as [[x| |]|], b as [[y| |]|]; cbn [ocontent_eqb content_eqb]; intros H;
    try discriminate H; try reflexivity.
  apply str_eqb_eq in H. subst. reflexivity.
Qed.

Definition coherentb (ops : list op) : bool :=
  forallb (fun o1 =>
             forallb (fun o2 =>
                        match op_path o1, op_path o2 with
                        | Some p1, Some p2 =>
                            negb (path_eqb p1 p2) || ocontent_eqb (op_content o1) (op_content o2)
                        | _, _ => true
                        end) ops) ops.

Lemma coherentb_sound ops : coherentb ops = true -> coherent ops.
Proof.
  unfold coherentb. rewrite forallb_forall. intros H o1 o2 p H1 H2 Hp1 Hp2.
  specialize (H _ H1). rewrite forallb_forall in H. specialize (H _ H2).
  rewrite Hp1, Hp2, path_eqb_refl in H. cbn [negb orb] in H. apply ocontent_eqb_eq. exact H.
Qed.

Lemma own_entries_encoded b es :
  archive b = Some es -> build_ok b = true ->
  Forall (fun e => good_path (fst e) /\ encodes (tentry_of e) e) es.
Proof.
  intros H Hok. pose proof (archive_entries_good b es H Hok) as Hg.
  eapply Forall_impl; [|exact Hg]. intros e He. split; [exact He|].
  apply encodes_tentry_of_scalar, good_path_scalar, He.
Qed.

Lemma archiver_takes b :
  (forall x, In x (b_test_bins b) \/ In x (b_non_test_bins b) \/ In x (b_stdlibs b) ->
     In (OFile (under_target (fst x)) (resolve_direct (snd x))) (archive_ops b))
  /\ (forall (o : outdir) t q s, In o (b_out_dirs b) -> snd (fst o) = Some t ->
        In (q, s) (appends (collect (Finite 1) (under_target (fst (fst o))) t)) ->
        In (OFile q (resolve_src s)) (archive_ops b))
  /\ (forall (o : outdir) f, In o (b_out_dirs b) -> snd o = Some f ->
        In (OFile (under_target (fst f)) (resolve_direct (snd f))) (archive_ops b))
  /\ (forall x t q s, In x (b_linked b) -> snd x = Some t -> exists_follow (Some t) = true ->
        In (q, s) (appends (collect (Finite 1) (under_target (fst x)) t)) ->
        In (OFile q (resolve_src s)) (archive_ops b))
  /\ (forall i t q s, In i (b_includes b) -> include_check i = Some true -> inc_src i = Some t ->
        exists_follow (Some t) = true ->
        In (q, s) (appends (collect (inc_depth i) (under_target (inc_path i)) t)) ->
        In (OFile q (resolve_src s)) (archive_ops b)).
Proof.
  split; [|split; [|split; [|split]]].
  - intros x [H|[H|H]]; [apply in_ops_test_bin | apply in_ops_non_test_bin | apply in_ops_stdlib]; exact H.
  - exact (in_ops_out_dir b).
  - exact (in_ops_out_dir_output b).
  - exact (in_ops_linked b).
  - exact (in_ops_include b).
Qed.
