(* Facts about the unit model used by C09, C11 and C12: what each step does to signals and
   clocks, and the "never before the deadline" invariant. *)
From NextestModel Require Import Base.Str Base.Tac Model.Clocks Model.UnitTimers Model.AbsTimers
  Proofs.Timers.
Open Scope N_scope.

(* ---------------------------------------------------------------- single steps (C09 / C11) *)

(* a shutdown request reaching a running, not yet reaped unit: the same signal goes to the group
   (SIGKILL when the grace period is zero or on the second signal) *)
Lemma shutdown_running tbl cfg s r :
  ph s = PRunning -> reaped s = false ->
  exists s', ucore tbl cfg s (AReq (RShutdown r)) = Ok (s', [OSignal (shutdown_method cfg r)]) /\
             (is_kill (shutdown_method cfg r) = false -> ph s' = PTerminating TSignal /\
                k_gsl (ck s') = slc_new (grace cfg)) /\
             (is_kill (shutdown_method cfg r) = true -> ph s' = PRunning).
Proof.
  intros Hp Hr. unfold ucore. rewrite Hp. unfold enter_terminate. rewrite Hr.
  destruct (is_kill (shutdown_method cfg r)) eqn:Hk.
  - destruct (shutdown_method cfg r); try discriminate.
    eexists; split; [reflexivity|]. split; [discriminate|]. intros _. exact Hp.
  - eexists; split; [reflexivity|]. split; [|discriminate]. intros _. split; reflexivity.
Qed.

Lemma shutdown_method_once cfg ev :
  grace cfg <> 0 -> shutdown_method cfg (Once ev) = sig_of_shut ev.
Proof. intros H. unfold shutdown_method. destruct (N.eqb_spec (grace cfg) 0); [contradiction|reflexivity]. Qed.
Lemma shutdown_method_zero_grace cfg r : grace cfg = 0 -> shutdown_method cfg r = SigKill.
Proof. intros H. unfold shutdown_method. rewrite H. reflexivity. Qed.
Lemma shutdown_method_twice cfg : shutdown_method cfg Twice = SigKill.
Proof. unfold shutdown_method. destruct (grace cfg =? 0); reflexivity. Qed.

(* while a unit is being terminated (for a timeout or a signal): any shutdown request, and the
   end of the grace period, kill the group at once *)
Lemma shutdown_terminating tbl cfg s x r :
  ph s = PTerminating x ->
  exists s', ucore tbl cfg s (AReq (RShutdown r)) = Ok (s', [OSignal SigKill]) /\ ph s' = PRunning.
Proof.
  intros Hp. unfold ucore. rewrite Hp. eexists; split; [reflexivity|]. destruct x; reflexivity.
Qed.
Lemma grace_expiry tbl cfg s x :
  ph s = PTerminating x -> slc_due (k_gsl (ck s)) = true ->
  exists s', ustep tbl cfg s FireGrace = Ok (s', [OSignal SigKill]) /\ ph s' = PRunning /\
             (x = TTimeout -> timed_out s' = true).
Proof.
  intros Hp Hd. unfold ustep, annotate. rewrite Hp, Hd. unfold ucore. rewrite Hp.
  eexists; split; [reflexivity|]. destruct x; (split; [reflexivity|]); intros H; try discriminate H; reflexivity.
Qed.
Lemma grace_not_early tbl cfg s :
  slc_due (k_gsl (ck s)) = false -> ustep tbl cfg s FireGrace = Ok (s, []).
Proof.
  intros Hd. unfold ustep, annotate. destruct (ph s); try reflexivity. rewrite Hd. reflexivity.
Qed.

(* the interval elapsing: slow mark, and termination exactly when the count reaches
   terminate-after *)
Lemma interval_fire tbl cfg s :
  ph s = PRunning -> timed_out s = false -> slc_due (k_isl (ck s)) = true ->
  exists r, ustep tbl cfg s FireInterval = Ok r /\ slow (fst r) = true /\ hits (fst r) = hits s + 1 /\
    (will_terminate cfg (hits s + 1) = false ->
       ph (fst r) = PRunning /\ timed_out (fst r) = false /\
       snd r = (if grace cfg =? 0 then [] else [OSlow false])) /\
    (will_terminate cfg (hits s + 1) = true -> reaped s = false ->
       snd r = (if grace cfg =? 0 then [] else [OSlow true]) ++ [OSignal (timeout_method cfg)]).
Proof.
  intros Hp Ht Hd. unfold ustep, annotate. rewrite Hp, Hd, Ht. cbn [andb negb].
  unfold ucore. rewrite Hp.
  destruct (will_terminate cfg (hits s + 1)) eqn:Hw.
  - unfold enter_terminate. cbn [reaped with_hits with_slow mk].
    destruct (reaped s) eqn:Hr.
    + eexists; split; [reflexivity|]. cbn.
      split; [reflexivity|]. split; [reflexivity|]. split; intros; discriminate.
    + destruct (is_kill (timeout_method cfg)) eqn:Hk.
      * unfold timeout_method in *. destruct (grace cfg =? 0) eqn:Hg; [|discriminate].
        eexists; split; [reflexivity|]. cbn.
        split; [reflexivity|]. split; [reflexivity|]. split; intros; try discriminate. reflexivity.
      * unfold timeout_method in *. destruct (grace cfg =? 0) eqn:Hg; [discriminate|].
        eexists; split; [reflexivity|]. cbn.
        split; [reflexivity|]. split; [reflexivity|]. split; intros; try discriminate. reflexivity.
  - eexists; split; [reflexivity|]. cbn.
    split; [reflexivity|]. split; [reflexivity|]. split; intros; try discriminate.
    split; [exact Hp|]. split; [exact Ht|]. reflexivity.
Qed.

Lemma interval_not_due tbl cfg s :
  slc_due (k_isl (ck s)) = false -> ustep tbl cfg s FireInterval = Ok (s, []).
Proof.
  intros Hd. unfold ustep, annotate. destruct (ph s); try reflexivity. rewrite Hd. reflexivity.
Qed.

Lemma timeout_method_spec cfg :
  timeout_method cfg = if grace cfg =? 0 then SigKill else SigTerm.
Proof. reflexivity. Qed.

(* a child that exits while the unit is simply running: no signal is sent by that step *)
Lemma child_exit_running tbl cfg s ok :
  ph s = PRunning -> ucore tbl cfg s (AChildExit ok) = Ok (with_ph (with_reaped s true ok) (after_exit s), []).
Proof. intros Hp. unfold ucore. rewrite Hp. reflexivity. Qed.

(* information requests: exactly one response, tagged with the loop the unit is in; the state is
   unchanged *)
Definition info_tag (p : phase) : option itag :=
  match p with
  | PRunning => Some IRunning | PTerminating _ => Some ITerminating | PExiting => Some IExiting
  | PSyncWait | PDone => None
  end.
Lemma info_once tbl cfg s :
  ucore tbl cfg s (AReq RGetInfo) =
  Ok (s, match info_tag (ph s) with Some i => [OInfo i] | None => [] end).
Proof. unfold ucore. destruct (ph s); reflexivity. Qed.

(* ---------------------------------------------------------------- time only counts while running *)
Lemma tick_paused_stopwatch dt w : spaused w = true -> swc_tick dt w = w.
Proof. intros H. unfold swc_tick. rewrite H. reflexivity. Qed.
Lemma tick_paused_sleep dt s : lpaused s = true -> slc_tick dt s = s.
Proof. intros H. unfold slc_tick. rewrite H. reflexivity. Qed.
Lemma tick_running_stopwatch dt w : spaused w = false -> act (swc_tick dt w) = act w + dt.
Proof. intros H. unfold swc_tick. rewrite H. reflexivity. Qed.

Lemma stopped_time_excluded_running tbl cfg s dt :
  ph s = PRunning -> owned_paused s = true ->
  exists s', ustep tbl cfg s (Tick dt) = Ok (s', []) /\ ph s' = ph s /\
             time_taken s' = time_taken s /\ rem (k_isl (ck s')) = rem (k_isl (ck s)).
Proof.
  intros Hp Ho. unfold owned_paused in Ho. rewrite Hp in Ho.
  apply andb_prop in Ho as [H1 H2].
  unfold ustep. cbn [annotate ucore]. rewrite Hp. cbn [is_terminating].
  eexists. split; [reflexivity|].
  unfold time_taken. cbn [with_lsl with_ck mk ck ph unit_tick k_sw k_isl].
  rewrite (tick_paused_stopwatch _ _ H1), (tick_paused_sleep _ _ H2). repeat split. exact Hp.
Qed.

Lemma stopped_time_excluded_terminating tbl cfg s x dt :
  ph s = PTerminating x -> owned_paused s = true ->
  exists s', ustep tbl cfg s (Tick dt) = Ok (s', []) /\ ph s' = ph s /\
             time_taken s' = time_taken s /\ rem (k_gsl (ck s')) = rem (k_gsl (ck s)).
Proof.
  intros Hp Ho. unfold owned_paused in Ho. rewrite Hp in Ho.
  apply andb_prop in Ho as [H12 H3]. apply andb_prop in H12 as [H1 H2].
  unfold ustep. cbn [annotate ucore]. rewrite Hp. cbn [is_terminating].
  eexists. split; [reflexivity|].
  unfold time_taken. cbn [with_lsl with_ck mk ck ph unit_tick k_sw k_gsl].
  rewrite (tick_paused_stopwatch _ _ H1), (tick_paused_sleep _ _ H2). repeat split. exact Hp.
Qed.

(* stopwatch as coded vs the abstract one *)
Lemma sw_snapshot_running now w :
  sw_paused_at w = None -> sw_snapshot now w = (now - sw_start w) - sw_paused_total w.
Proof. intros H. unfold sw_snapshot. rewrite H. reflexivity. Qed.
Lemma sw_snapshot_paused_const now now' w p :
  sw_paused_at w = Some p -> sw_snapshot now w = sw_snapshot now' w.
Proof. intros H. unfold sw_snapshot. rewrite H. reflexivity. Qed.
(* pausing at p, any amount of stopped time, resuming at q: the snapshot afterwards counts
   exactly the time not spent paused *)
Lemma sw_pause_resume_excludes w p q now :
  sw_paused_at w = None -> sw_start w + sw_paused_total w <= p -> p <= q -> q <= now ->
  exists w1 w2, sw_pause p w = Ok w1 /\ sw_resume q w1 = Ok w2 /\
                sw_snapshot now w2 + (q - p) = sw_snapshot now w.
Proof.
  intros Hn H1 H2 H3. unfold sw_pause, sw_resume. rewrite Hn. cbn.
  eexists; eexists; split; [reflexivity|split; [reflexivity|]].
  unfold sw_snapshot. cbn. rewrite Hn. lia.
Qed.

(* ---------------------------------------------------------------- never before the deadline *)
Fixpoint real_time (es : list uevent) : N :=
  match es with
  | [] => 0
  | Tick dt :: es' => dt + real_time es'
  | _ :: es' => real_time es'
  end.

(* pause-table operations never touch a number *)
Definition nums (c : clocks) : N * N * N * N * N * N :=
  (act (k_sw c), rem (k_isl c), rem (k_gsl c), act (k_wsw c), rem (k_dsl c), act (k_dwsw c)).

Lemma clk_pause_nums c k c' : clk_pause c k = Ok c' -> nums c' = nums c.
Proof.
  destruct k; cbn [clk_pause]; unfold swc_pause, slc_pause;
    match goal with |- context [if ?b then _ else _] => destruct b end; cbn [obind];
    intros H; try discriminate; injection H as <-; reflexivity.
Qed.
Lemma clk_resume_nums c k c' : clk_resume c k = Ok c' -> nums c' = nums c.
Proof.
  destruct k; cbn [clk_resume]; unfold swc_resume, slc_resume;
    match goal with |- context [if ?b then _ else _] => destruct b end; cbn [obind];
    intros H; try discriminate; injection H as <-; reflexivity.
Qed.
Lemma exec_pop_nums rp c o r : exec_pop rp c o = Ok r -> nums (fst r) = nums c.
Proof.
  destruct o; cbn [exec_pop]; intros H.
  - destruct (clk_pause c k) eqn:E; cbn [obind] in H; [|discriminate]. injection H as <-.
    cbn [fst]. eapply clk_pause_nums; eassumption.
  - destruct (clk_resume c k) eqn:E; cbn [obind] in H; [|discriminate]. injection H as <-.
    cbn [fst]. eapply clk_resume_nums; eassumption.
  - injection H as <-; reflexivity.
  - injection H as <-; reflexivity.
  - injection H as <-; reflexivity.
Qed.
Lemma exec_pops_nums rp os : forall c r, exec_pops rp c os = Ok r -> nums (fst r) = nums c.
Proof.
  induction os as [|o os IH]; intros c r H; cbn [exec_pops] in H.
  - injection H as <-; reflexivity.
  - destruct (exec_pop rp c o) as [r1|] eqn:E1; cbn [obind] in H; [|discriminate].
    destruct (exec_pops rp (fst r1) os) as [r2|] eqn:E2; cbn [obind] in H; [|discriminate].
    injection H as <-. cbn [fst]. rewrite (IH _ _ E2). eapply exec_pop_nums; eassumption.
Qed.
Lemma exec_arm_nums rp a : forall c r, exec_arm rp c a = Ok r -> nums (fst r) = nums c.
Proof.
  induction a as [|st a IH]; intros c r H; cbn [exec_arm] in H.
  - injection H as <-; reflexivity.
  - match type of H with obind (exec_pops rp c ?b) _ = _ =>
      destruct (exec_pops rp c b) as [r1|] eqn:E1 end; cbn [obind] in H; [|discriminate].
    destruct (exec_arm rp (fst r1) a) as [r2|] eqn:E2; cbn [obind] in H; [|discriminate].
    injection H as <-. cbn [fst]. rewrite (IH _ _ E2). eapply exec_pops_nums; eassumption.
Qed.

Definition rem_isl (s : ustate) : N := rem (k_isl (ck s)).

Definition cfg_valid (cfg : ucfg) : Prop :=
  match terminate_after cfg with Some ta => 1 <= ta | None => True end.

(* phases reached only through / after a timeout termination *)
Definition past_timeout (s : ustate) : Prop :=
  timed_out s = true \/ ph s = PTerminating TTimeout.

Definition dl_inv (cfg : ucfg) (s : ustate) (T : N) : Prop :=
  rem_isl s <= period cfg /\
  (will_terminate cfg (hits s) = true -> 0 < hits s -> past_timeout s) /\
  (past_timeout s -> will_terminate cfg (hits s) = true /\ 0 < hits s) /\
  (if will_terminate cfg (hits s) then hits s * period cfg <= T
   else hits s * period cfg + (period cfg - rem_isl s) <= T).

Lemma will_terminate_mono cfg h : will_terminate cfg h = true -> will_terminate cfg (h + 1) = true.
Proof.
  unfold will_terminate. destruct (terminate_after cfg) as [ta|]; [|discriminate].
  intros H. apply N.leb_le in H. apply N.leb_le. lia.
Qed.

Lemma will_terminate_zero cfg : cfg_valid cfg -> will_terminate cfg 0 = false.
Proof.
  unfold cfg_valid, will_terminate. destruct (terminate_after cfg) as [ta|]; [|reflexivity].
  intros H. apply N.leb_gt. lia.
Qed.

Lemma dl_inv_init cfg : cfg_valid cfg -> dl_inv cfg (uinit cfg) 0.
Proof.
  intros Hv. unfold dl_inv, rem_isl, past_timeout. cbn.
  rewrite (will_terminate_zero cfg Hv).
  split; [lia|]. split; [discriminate|]. split; [intros [H0|H0]; discriminate|lia].
Qed.

(* every event other than a tick or an interval expiry leaves the count, the interval sleep's
   remaining time and the "terminated for timeout" status alone *)
Lemma arm_frame s c' : nums c' = nums (ck s) ->
  hits (with_ck s c') = hits s /\ rem_isl (with_ck s c') = rem_isl s /\
  (past_timeout (with_ck s c') <-> past_timeout s).
Proof.
  intros H. unfold rem_isl, past_timeout. cbn [with_ck mk hits ck timed_out ph].
  unfold nums in H. injection H as _ H2 _ _ _ _. repeat split; auto; tauto.
Qed.

Ltac frame_tac Hp :=
  unfold rem_isl, past_timeout, leave_terminate, after_exit;
  cbn [fst with_ph with_ck with_reaped with_fds_done with_leaked with_timed_out set_wsw set_gsl
       mk hits ck timed_out ph k_isl];
  rewrite ?Hp;
  try match goal with |- context [if ?b then PDone else PExiting] => destruct b end;
  repeat split; try reflexivity;
  intuition (try discriminate; try congruence).

Lemma other_steps_frame tbl cfg s e r :
  (forall dt, e <> Tick dt) -> e <> FireInterval ->
  ustep tbl cfg s e = Ok r ->
  hits (fst r) = hits s /\ rem_isl (fst r) = rem_isl s /\ (past_timeout (fst r) <-> past_timeout s).
Proof.
  intros Hnt Hni H. unfold ustep in H.
  destruct (annotate cfg s e) as [ae|] eqn:Ha.
  2:{ injection H as <-. cbn [fst]. repeat split; tauto. }
  assert (Hae : (forall dt, ae <> ATick dt) /\ (forall w, ae <> AFireInterval w)).
  { destruct e; cbn [annotate] in Ha;
      try (destruct (ph s); try discriminate;
           match type of Ha with (if ?b then _ else _) = _ => destruct b end; try discriminate);
      try (injection Ha as <-; split; intros; discriminate).
    - exfalso; eapply Hnt; reflexivity.
    - exfalso; apply Hni; reflexivity. }
  destruct Hae as [Hat Hai].
  unfold ucore in H.
  assert (Triv : forall s0 : ustate, hits s0 = hits s0 /\ rem_isl s0 = rem_isl s0 /\
                                     (past_timeout s0 <-> past_timeout s0)) by (intros; repeat split; tauto).
  destruct ae as [dt|w| | |ok| |q].
  - exfalso; eapply Hat; reflexivity.
  - exfalso; eapply Hai; reflexivity.
  - destruct (ph s) as [|[]| | |] eqn:Hp; try (injection H as <-; apply Triv);
      injection H as <-; frame_tac Hp.
  - destruct (ph s) as [|[]| | |] eqn:Hp; try (injection H as <-; apply Triv);
      injection H as <-; frame_tac Hp.
  - destruct (ph s) as [|[]| | |] eqn:Hp; try (injection H as <-; apply Triv);
      injection H as <-; frame_tac Hp.
  - destruct (ph s) as [|[]| | |] eqn:Hp; try (injection H as <-; apply Triv);
      injection H as <-; frame_tac Hp.
  - destruct (ph s) as [|[]| | |] eqn:Hp; destruct q as [| |sr| |];
      try (injection H as <-; apply Triv);
      try (match type of H with obind (exec_arm ?rp ?c ?a) _ = _ =>
              destruct (exec_arm rp c a) as [x1|] eqn:Ea; cbn [obind] in H; [|discriminate];
              injection H as <-; cbn [fst]; apply arm_frame; eapply exec_arm_nums; eassumption
            end);
      try (injection H as <-; frame_tac Hp; fail).
    (* shutdown while running *)
    injection H as <-. unfold enter_terminate.
    destruct (reaped s); [apply Triv|].
    destruct (is_kill (shutdown_method cfg sr)); [apply Triv|].
    frame_tac Hp.
Qed.

Definition tick_amount (e : uevent) : N := match e with Tick dt => dt | _ => 0 end.

Lemma real_time_cons e es : real_time (e :: es) = tick_amount e + real_time es.
Proof. destruct e; reflexivity. Qed.

Lemma dl_inv_weaken cfg s T T' : T <= T' -> dl_inv cfg s T -> dl_inv cfg s T'.
Proof.
  intros HT (H1 & H2 & H3 & H4). repeat split; try assumption; try (apply H3; assumption).
  destruct (will_terminate cfg (hits s)); lia.
Qed.

Lemma dl_inv_frame cfg s s' T :
  hits s' = hits s -> rem_isl s' = rem_isl s -> (past_timeout s' <-> past_timeout s) ->
  dl_inv cfg s T -> dl_inv cfg s' T.
Proof.
  intros Hh Hr Hp (H1 & H2 & H3 & H4). unfold dl_inv. rewrite Hh, Hr.
  split; [assumption|]. split; [intros X Y; apply Hp; apply H2; assumption|].
  split; [intros X; apply H3; apply Hp; assumption|assumption].
Qed.

Lemma dl_inv_step tbl cfg s T e r :
  cfg_valid cfg -> dl_inv cfg s T -> ustep tbl cfg s e = Ok r ->
  dl_inv cfg (fst r) (T + tick_amount e).
Proof.
  intros Hv Hinv H.
  destruct e as [dt| | | |ok| |q].
  - (* tick *)
    unfold ustep in H. cbn [annotate ucore] in H. injection H as <-. cbn [fst tick_amount].
    destruct Hinv as (H1 & H2 & H3 & H4).
    unfold dl_inv, rem_isl, past_timeout in *.
    cbn [with_lsl with_ck mk hits ck timed_out ph unit_tick k_isl].
    assert (Hrem : rem (slc_tick dt (k_isl (ck s))) <= rem (k_isl (ck s)) /\
                   rem (k_isl (ck s)) <= rem (slc_tick dt (k_isl (ck s))) + dt).
    { unfold slc_tick. destruct (lpaused (k_isl (ck s))); cbn [rem]; lia. }
    repeat split; try assumption; try (apply H3; assumption); try lia.
    destruct (will_terminate cfg (hits s)); lia.
  - (* interval *)
    cbn [tick_amount]. rewrite N.add_0_r.
    destruct (slc_due (k_isl (ck s)) && negb (timed_out s) &&
              match ph s with PRunning => true | _ => false end) eqn:Hen.
    2:{ assert (r = (s, [])) as ->; [|exact Hinv].
        unfold ustep, annotate in H. destruct (ph s); try (injection H as <-; reflexivity).
        rewrite andb_true_r in Hen. rewrite Hen in H. injection H as <-; reflexivity. }
    apply andb_prop in Hen as [Hen Hp]. apply andb_prop in Hen as [Hd Ht].
    destruct (ph s) eqn:Hph; try discriminate. clear Hp.
    apply negb_true_iff in Ht.
    destruct Hinv as (H1 & H2 & H3 & H4).
    assert (Hnp : ~ past_timeout s).
    { unfold past_timeout. rewrite Ht, Hph. intros [X|X]; discriminate. }
    assert (Hw : will_terminate cfg (hits s) = false).
    { destruct (will_terminate cfg (hits s)) eqn:E; [|reflexivity].
      destruct (N.eq_dec (hits s) 0) as [Z|Z].
      - rewrite Z in E. rewrite (will_terminate_zero cfg Hv) in E. discriminate.
      - exfalso. apply Hnp. apply H2; [reflexivity|lia]. }
    rewrite Hw in H4.
    assert (Hrem0 : rem_isl s = 0).
    { unfold slc_due in Hd. apply andb_prop in Hd as [_ Hd]. apply N.eqb_eq in Hd. exact Hd. }
    rewrite Hrem0 in H4.
    destruct (interval_fire tbl cfg s Hph Ht Hd) as (r' & Hr' & _ & Hh & Hno & _).
    rewrite Hr' in H. injection H as <-.
    destruct (will_terminate cfg (hits s + 1)) eqn:Hw1.
    + (* terminates *)
      unfold ustep, annotate in Hr'. rewrite Hph, Hd, Ht in Hr'. cbn [andb negb] in Hr'.
      unfold ucore in Hr'. rewrite Hph, Hw1 in Hr'.
      unfold enter_terminate in Hr'. cbn [reaped with_hits with_slow mk] in Hr'.
      assert (Hpt : past_timeout (fst r') /\ rem_isl (fst r') = rem_isl s).
      { destruct (reaped s); [injection Hr' as <-; split; [left|]; reflexivity|].
        destruct (is_kill (timeout_method cfg)).
        - destruct (grace cfg =? 0); injection Hr' as <-; split; try (left; reflexivity); reflexivity.
        - injection Hr' as <-. split; [right; reflexivity|reflexivity]. }
      destruct Hpt as [Hpt Hr0].
      unfold dl_inv. rewrite Hh, Hw1, Hr0, Hrem0.
      repeat split; try lia; try (intros; assumption).
    + destruct (Hno eq_refl) as (Hp' & Ht' & _).
      unfold ustep, annotate in Hr'. rewrite Hph, Hd, Ht in Hr'. cbn [andb negb] in Hr'.
      unfold ucore in Hr'. rewrite Hph, Hw1 in Hr'. injection Hr' as <-.
      unfold dl_inv, rem_isl, past_timeout.
      cbn [fst with_ck with_hits with_slow set_isl slc_reset mk hits ck timed_out ph k_isl rem].
      rewrite Hw1, Ht, Hph.
      repeat split; try lia; try discriminate; try (intros [X|X]; discriminate);
        try (intros; match goal with X : _ \/ _ |- _ => destruct X; discriminate end).
  - destruct (other_steps_frame tbl cfg s FireGrace r ltac:(intros; discriminate) ltac:(discriminate) H)
      as (Hh & Hr & Hp).
    cbn [tick_amount]. rewrite N.add_0_r. eapply dl_inv_frame; eassumption.
  - destruct (other_steps_frame tbl cfg s FireLeak r ltac:(intros; discriminate) ltac:(discriminate) H)
      as (Hh & Hr & Hp).
    cbn [tick_amount]. rewrite N.add_0_r. eapply dl_inv_frame; eassumption.
  - destruct (other_steps_frame tbl cfg s (ChildExit ok) r ltac:(intros; discriminate) ltac:(discriminate) H)
      as (Hh & Hr & Hp).
    cbn [tick_amount]. rewrite N.add_0_r. eapply dl_inv_frame; eassumption.
  - destruct (other_steps_frame tbl cfg s FdsDone r ltac:(intros; discriminate) ltac:(discriminate) H)
      as (Hh & Hr & Hp).
    cbn [tick_amount]. rewrite N.add_0_r. eapply dl_inv_frame; eassumption.
  - destruct (other_steps_frame tbl cfg s (Req q) r ltac:(intros; discriminate) ltac:(discriminate) H)
      as (Hh & Hr & Hp).
    cbn [tick_amount]. rewrite N.add_0_r. eapply dl_inv_frame; eassumption.
Qed.

Lemma dl_inv_run tbl cfg : cfg_valid cfg -> forall es s T r,
  dl_inv cfg s T -> urun tbl cfg s es = Ok r -> dl_inv cfg (fst r) (T + real_time es).
Proof.
  intros Hv. induction es as [|e es IH]; intros s T r Hinv H.
  - cbn in H. injection H as <-. cbn [fst real_time]. rewrite N.add_0_r. exact Hinv.
  - cbn [urun] in H.
    destruct (ustep tbl cfg s e) as [r1|] eqn:E1; cbn [obind] in H; [|discriminate].
    destruct (urun tbl cfg (fst r1) es) as [r2|] eqn:E2; cbn [obind] in H; [|discriminate].
    injection H as <-. cbn [fst].
    rewrite real_time_cons, N.add_assoc.
    eapply IH; [|exact E2]. eapply dl_inv_step; eassumption.
Qed.

(* whenever a unit is being, or has been, terminated for a timeout, terminate-after is set and at
   least terminate-after periods of real time have passed since it started *)
Theorem never_terminated_early tbl cfg es r :
  cfg_valid cfg -> urun tbl cfg (uinit cfg) es = Ok r -> past_timeout (fst r) ->
  exists ta, terminate_after cfg = Some ta /\ ta * period cfg <= real_time es.
Proof.
  intros Hv Hrun Hpt.
  pose proof (dl_inv_run tbl cfg Hv es (uinit cfg) 0 r (dl_inv_init cfg Hv) Hrun) as (_ & _ & H3 & H4).
  destruct (H3 Hpt) as [Hw Hpos]. rewrite Hw in H4. rewrite N.add_0_l in H4.
  unfold will_terminate in Hw. destruct (terminate_after cfg) as [ta|]; [|discriminate].
  exists ta; split; [reflexivity|]. apply N.leb_le in Hw.
  eapply N.le_trans; [|exact H4]. apply N.mul_le_mono_r. exact Hw.
Qed.

(* the slow mark: set exactly by interval expiries, each of which took a full period *)
Lemma slow_needs_a_period tbl cfg es r :
  cfg_valid cfg -> urun tbl cfg (uinit cfg) es = Ok r -> 0 < hits (fst r) ->
  period cfg <= real_time es.
Proof.
  intros Hv Hrun Hpos.
  pose proof (dl_inv_run tbl cfg Hv es (uinit cfg) 0 r (dl_inv_init cfg Hv) Hrun) as (_ & _ & _ & H4).
  rewrite N.add_0_l in H4.
  assert (period cfg <= hits (fst r) * period cfg) by nia.
  destruct (will_terminate cfg (hits (fst r))); lia.
Qed.
