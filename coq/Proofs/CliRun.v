(* Facts about Model/CliRun.v (the command-line options that reach the runner) at the level of the
   properties: C08 (--no-capture is serial whatever the message format), C10 (max-fail precedence),
   C07 (--retries), C01 (both entry points leave with the run's exit status). *)
From Coq Require Import List NArith ZArith Bool Lia.
From NextestModel Require Import Base.Tac Model.Backoff Model.Result Model.CliRun Model.RetryResolve
     Model.FutureQueue Proofs.FutureQueue.
Import ListNotations.
Open Scope N_scope.

(* ---- C08 *)
Lemma no_capture_threads_any_format :
  forall f cli prof ncpus, effective_test_threads (capture_strategy_of true f) cli prof ncpus = 1.
Proof. intros f cli prof ncpus. destruct f; reflexivity. Qed.

Lemma capture_none_iff_no_capture :
  forall nc f, capture_strategy_of nc f = CapNone <-> nc = true.
Proof. intros nc f. destruct nc, f; cbn; split; intro H; try reflexivity; discriminate. Qed.

Lemma runner_no_capture :
  forall o f pt pm ncpus s,
    runner_of o true f pt pm ncpus = Some s -> rs_capture s = CapNone /\ rs_test_threads s = 1.
Proof.
  intros o f pt pm ncpus s. unfold runner_of. destruct (o_no_run o); [discriminate|].
  intro H. injection H as H. subst s. cbn. split.
  - destruct f; reflexivity.
  - destruct f; reflexivity.
Qed.

Lemma runner_no_capture_one_at_a_time :
  forall o f pt pm ncpus s grps items ops,
    runner_of o true f pt pm ncpus = Some s ->
    Forall (fun it => 1 <= it_w it) items ->
    (length (running (fst (fq_run (fq_new (rs_test_threads s) grps items) ops))) <= 1)%nat.
Proof.
  intros o f pt pm ncpus s grps items ops H Hw.
  destruct (runner_no_capture _ _ _ _ _ _ H) as [_ ->]. apply c08_no_capture_serial. exact Hw.
Qed.

Lemma cli_threads_beat_profile :
  forall nc f t prof ncpus,
    nc = false ->
    effective_test_threads (capture_strategy_of nc f) (Some t) prof ncpus = threads_compute ncpus t.
Proof. intros nc f t prof ncpus ->. destruct f; reflexivity. Qed.

Lemma profile_threads_by_default :
  forall f prof ncpus,
    effective_test_threads (capture_strategy_of false f) None prof ncpus = threads_compute ncpus prof.
Proof. intros f prof ncpus. destruct f; reflexivity. Qed.

Lemma num_test_threads_is_runner_count :
  forall tt ncpus, threads_required_weight RNumTestThreads tt ncpus = tt.
Proof. reflexivity. Qed.

(* ---- C10 *)
Lemma max_fail_flag_wins :
  forall m nff ff prof, max_fail_of (Some m) nff ff prof = m.
Proof. reflexivity. Qed.

Lemma no_fail_fast_beats_fail_fast :
  forall ff prof, max_fail_of None true ff prof = None.
Proof. reflexivity. Qed.

Lemma fail_fast_is_one :
  forall prof, max_fail_of None false true prof = Some 1.
Proof. reflexivity. Qed.

Lemma profile_max_fail_by_default :
  forall prof, max_fail_of None false false prof = prof.
Proof. reflexivity. Qed.

(* ---- C07 / C06 *)
Lemma forced_retries_is_resolve :
  forall cli env, force_retries cli env = forced_retries (clap_retries cli env).
Proof. intros cli env. unfold force_retries, forced_retries. destruct (clap_retries cli env); reflexivity. Qed.

Lemma forced_retries_plain :
  forall n, forced_retries (Some n) = Some (Fixed n 0 false).
Proof. reflexivity. Qed.

(* ---- C01 *)
Lemma entry_exit_is_exit_code :
  forall e f p, entry_exit e f p = exit_code f p.
Proof. reflexivity. Qed.
