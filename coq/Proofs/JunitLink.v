(* C17 <-> C01: the statistics, verdict and exit status of Model/Junit.v are those of
   Model/Result.v (the model C01's theorems are about), and the stream the dispatcher model
   (Model/Dispatcher.v) emits carries, on every event, the running fold of that stream. *)
From Coq Require Import List NArith ZArith Bool.
From NextestModel Require Import Base.Str Base.Tac.
From NextestModel Require Model.Result Model.Unit.
From NextestModel Require Import Model.Dispatcher Proofs.Dispatcher.
From NextestModel Require Import Model.Junit Proofs.Junit.
Import ListNotations.
Open Scope N_scope.

Module R := NextestModel.Model.Result.

(* ------------------------------------------------------------------ conversions *)

(* Model/Result.v keeps the signal number of an abort, Model/Junit.v only whether there was one *)
Definition of_result (r : R.result) : jresult :=
  match r with
  | R.Pass => JPass
  | R.Leak => JLeak
  | R.Fail sg l => JFail (match sg with Some _ => true | None => false end) l
  | R.ExecFail => JExecFail
  | R.Timeout => JTimeout
  end.

Definition of_attempt (a : R.attempt) : jattempt := mk_att (of_result (R.a_res a)) (R.a_slow a).

(* ExecutionStatuses: past attempts + last attempt  ->  first attempt + the remaining ones *)
Definition of_statuses (s : R.statuses) : jattempt * list jattempt :=
  match R.st_past s with
  | [] => (of_attempt (R.st_last s), [])
  | p :: ps => (of_attempt p, map of_attempt ps ++ [of_attempt (R.st_last s)])
  end.

Definition of_stats (s : R.stats) : stats :=
  mk_stats (R.initial_run_count s) (R.finished_count s) (R.ss_initial s) (R.ss_finished s)
           (R.ss_passed s) (R.ss_failed s) (R.ss_exec_failed s) (R.ss_timed_out s)
           (R.passed s) (R.passed_slow s) (R.flaky s) (R.failed s) (R.failed_slow s)
           (R.timed_out s) (R.leaky s) (R.exec_failed s) (R.skipped s).

Definition to_stats (s : stats) : R.stats :=
  R.mk_stats (initial_run_count s) (finished_count s) (ss_initial_count s) (ss_finished_count s)
             (ss_passed s) (ss_failed s) (ss_exec_failed s) (ss_timed_out s)
             (passed s) (passed_slow s) (flaky s) (failed s) (failed_slow s)
             (timed_out s) (leaky s) (exec_failed s) (skipped s).

Definition of_final (f : R.final) : final_stats :=
  match f with
  | R.Success => FSuccess
  | R.NoTestsRun => FNoTestsRun
  | R.Cancelled R.KScript => FCancelledScript
  | R.Failed R.KScript => FFailedScript
  | R.Cancelled (R.KTest i n) => FCancelledTest i n
  | R.Failed (R.KTest i n) => FFailedTest i n
  end.

Lemma of_to_stats s : of_stats (to_stats s) = s.
Proof. destruct s; reflexivity. Qed.

Lemma to_of_stats s : to_stats (of_stats s) = s.
Proof. destruct s; reflexivity. Qed.

(* ------------------------------------------------------------------ the update functions agree *)

Lemma of_result_success r : jis_success (of_result r) = R.is_success r.
Proof. destruct r; reflexivity. Qed.

Lemma of_statuses_last st :
  last_attempt (fst (of_statuses st)) (snd (of_statuses st)) = of_attempt (R.st_last st).
Proof.
  unfold of_statuses, last_attempt. destruct (R.st_past st) as [|p ps]; cbn [fst snd]; [reflexivity|].
  apply last_last.
Qed.

Lemma of_statuses_multi st :
  (1 <? R.st_len st) = match snd (of_statuses st) with [] => false | _ :: _ => true end.
Proof.
  unfold of_statuses, R.st_len. destruct (R.st_past st) as [|p ps]; cbn [fst snd length].
  - reflexivity.
  - destruct (map of_attempt ps ++ [of_attempt (R.st_last st)]) eqn:E;
      [destruct (map of_attempt ps); discriminate|].
    apply N.ltb_lt. lia.
Qed.

Lemma of_statuses_length st :
  N.of_nat (length (fst (of_statuses st) :: snd (of_statuses st))) = R.st_len st.
Proof.
  unfold of_statuses, R.st_len. destruct (R.st_past st) as [|p ps]; cbn [fst snd length]; [reflexivity|].
  rewrite app_length, map_length. cbn [length]. lia.
Qed.

(* RunStats::on_test_finished *)
Lemma link_on_test_finished s st :
  of_stats (R.on_test_finished s st)
  = on_test_finished (of_stats s) (fst (of_statuses st)) (snd (of_statuses st)).
Proof.
  unfold on_test_finished, test_finished_delta, R.on_test_finished.
  rewrite of_statuses_last, of_statuses_multi.
  destruct (snd (of_statuses st)) as [|x xs]; destruct s;
    unfold of_attempt; cbn [ja_res ja_slow];
    destruct (R.a_res (R.st_last st)) as [| |sg lk| |]; destruct (R.a_slow (R.st_last st));
    unfold of_stats, stats_add, test_delta, b2n; cbn; rewrite ?N.add_0_r; reflexivity.
Qed.

(* RunStats::on_setup_script_finished *)
Lemma link_on_script_finished s r :
  of_stats (R.on_script_finished s r) = on_script_finished (of_stats s) (of_result r).
Proof.
  unfold on_script_finished, script_finished_delta, of_stats, stats_add. destruct s, r; cbn; rewrite ?N.add_0_r; reflexivity.
Qed.

Lemma link_skipped s :
  of_stats (R.bump R.FSkipped s) = stats_add (of_stats s) skipped_delta.
Proof. unfold of_stats, stats_add, skipped_delta. destruct s; cbn; rewrite ?N.add_0_r; reflexivity. Qed.

Lemma link_initial n : of_stats (R.stats0 n) = initial_stats n.
Proof. reflexivity. Qed.

Lemma link_failed_count s : failed_count (of_stats s) = R.failed_count s.
Proof. destruct s; reflexivity. Qed.

Lemma link_failed_script_count s : failed_script_count (of_stats s) = R.failed_setup_script_count s.
Proof. destruct s; reflexivity. Qed.

(* RunStats::summarize_final *)
Lemma link_summarize_final s : summarize_final (of_stats s) = of_final (R.summarize_final s).
Proof.
  unfold summarize_final, R.summarize_final.
  rewrite link_failed_count, link_failed_script_count.
  unfold of_stats; cbn [ss_finished_count ss_initial_count initial_run_count finished_count].
  repeat match goal with |- context [if ?c then _ else _] => destruct c end; reflexivity.
Qed.

(* the exit status (no --no-tests option: the default policy) *)
Lemma link_exit_code f : Z.of_N (exit_code (of_final f)) = R.exit_code f None.
Proof. destruct f as [| |[|]|[|]]; reflexivity. Qed.

(* C17_stats_are_C01_stats: for ALL statistics, the verdict and the exit status Model/Junit.v
   computes are the ones Model/Result.v computes *)
Lemma stats_are_result_stats (s : stats) :
  summarize_final s = of_final (R.summarize_final (to_stats s))
  /\ Z.of_N (exit_code (summarize_final s)) = R.exit_code (R.summarize_final (to_stats s)) None
  /\ failed_count s = R.failed_count (to_stats s)
  /\ failed_script_count s = R.failed_setup_script_count (to_stats s).
Proof.
  pose proof (link_summarize_final (to_stats s)) as H1. rewrite of_to_stats in H1.
  pose proof (link_failed_count (to_stats s)) as H2. rewrite of_to_stats in H2.
  pose proof (link_failed_script_count (to_stats s)) as H3. rewrite of_to_stats in H3.
  repeat split; try assumption.
  rewrite H1. apply link_exit_code.
Qed.

Lemma update_functions_agree :
  (forall n, of_stats (R.stats0 n) = initial_stats n)
  /\ (forall s st, of_stats (R.on_test_finished s st)
                   = on_test_finished (of_stats s) (fst (of_statuses st)) (snd (of_statuses st)))
  /\ (forall s r, of_stats (R.on_script_finished s r) = on_script_finished (of_stats s) (of_result r))
  /\ (forall s, of_stats (R.bump R.FSkipped s) = stats_add (of_stats s) skipped_delta)
  /\ (forall s, to_stats (of_stats s) = s) /\ (forall s, of_stats (to_stats s) = s).
Proof.
  repeat split; [apply link_on_test_finished|apply link_on_script_finished|apply link_skipped
                 |apply to_of_stats|apply of_to_stats].
Qed.

(* ------------------------------------------------------------------ the dispatcher's stream *)

Lemma attached_app s l1 l2 :
  attached s (l1 ++ l2) = attached s l1 && attached (stats_fold s (map fst l1)) l2.
Proof.
  revert s. induction l1 as [|[e sn] l1 IH]; intros s; cbn [app attached map fst stats_fold fold_left].
  - reflexivity.
  - change (fold_left stats_step ?x ?y) with (stats_fold y x).
    destruct sn; rewrite IH; [rewrite andb_assoc|]; reflexivity.
Qed.

Section Stream.
  (* how the reporter sees a test instance / a setup script: binary id and name, and the JUnit
     store flags the event carries; arbitrary *)
  Variables (tname : tid -> str * str) (tflags : tid -> bool * bool)
            (sname : Dispatcher.sid -> str) (sflags : Dispatcher.sid -> bool * bool).

  (* an event emitted by the dispatcher model, as the consumers of C17 see it *)
  Definition tr_event (e : revent) : sevent :=
    match e with
    | ESetupScriptFinished s r =>
        (JScriptFinished (sname s) (of_result r) (fst (sflags s)) (snd (sflags s)), None)
    | ETestStarted _ st _ _ => (JOther, Some (of_stats st))
    | ETestFinished t sts st _ _ =>
        (JTestFinished (fst (tname t)) (snd (tname t)) (fst (of_statuses sts)) (snd (of_statuses sts))
                       (fst (tflags t)) (snd (tflags t)), Some (of_stats st))
    | ETestSkipped _ => (JTestSkipped, None)
    | EInputEnter st _ _ => (JOther, Some (of_stats st))
    | _ => (JOther, None)
    end.

  Definition tr_stream (l : list revent) : list sevent := map tr_event l.

  (* one step of a live dispatcher: the events it emits carry the running fold, and its
     statistics afterwards are the fold over what it emitted *)
  Definition step_ok (s0 : stats) (evs : list revent) (s1 : stats) : Prop :=
    attached s0 (tr_stream evs) = true /\ stats_fold s0 (map fst (tr_stream evs)) = s1.

  Lemma step_ok_nil s : step_ok s [] s.
  Proof. split; reflexivity. Qed.

  Lemma step_ok_other s e : fst (tr_event e) = JOther -> snd (tr_event e) = None -> step_ok s [e] s.
  Proof.
    intros H1 H2. unfold step_ok, tr_stream. cbn [map attached fst stats_fold fold_left].
    destruct (tr_event e) as [je sn]. cbn [fst snd] in *. subst. split; reflexivity.
  Qed.

  Lemma step_ok_app s0 s1 s2 l1 l2 : step_ok s0 l1 s1 -> step_ok s1 l2 s2 -> step_ok s0 (l1 ++ l2) s2.
  Proof.
    unfold step_ok, tr_stream. intros [A1 F1] [A2 F2]. rewrite map_app, attached_app, map_app.
    rewrite stats_fold_app. split; [rewrite F1, A1, A2; reflexivity|subst s1 s2; reflexivity].
  Qed.

  Lemma begin_cancel_ok d r ev d' evs rsp :
    begin_cancel d r ev = (d', evs, rsp) ->
    d_stats d' = d_stats d /\ step_ok (of_stats (d_stats d)) evs (of_stats (d_stats d)).
  Proof.
    intros H. apply begin_cancel_cases in H.
    destruct H as [(_ & -> & -> & _)|[(_ & _ & -> & -> & _)|(_ & _ & -> & -> & _)]].
    - split; [reflexivity|]. apply step_ok_other; reflexivity.
    - split; [reflexivity|]. apply step_ok_other; reflexivity.
    - split; [reflexivity|]. apply step_ok_nil.
  Qed.

  Lemma finish_with_cancel_ok s0 d pre c reason ev d' evs rsp :
    finish_with_cancel d pre c reason ev = (Live d', evs, rsp) ->
    step_ok s0 pre (of_stats (d_stats d)) ->
    step_ok s0 evs (of_stats (d_stats d')).
  Proof.
    intros H Hpre. apply finish_with_cancel_cases in H.
    destruct H as [(_ & Hs & -> & _)|(_ & d2 & evs2 & r2 & Hbc & Hs & -> & _)].
    - injection Hs as <-. exact Hpre.
    - injection Hs as <-. destruct (begin_cancel_ok _ _ _ _ _ _ Hbc) as [E Hok].
      rewrite E. eapply step_ok_app; [exact Hpre|exact Hok].
  Qed.

  Lemma step_attached d e d' evs rsp :
    dstep_live d e = (Live d', evs, rsp) ->
    step_ok (of_stats (d_stats d)) evs (of_stats (d_stats d')).
  Proof.
    intros H. destruct e; unfold dstep_live in H.
    - (* ScriptStarted *)
      destruct (is_some (d_cancel d)); [injection H as <- <- _; apply step_ok_nil|].
      destruct (is_some (d_script d) && d_dbg d); [discriminate|].
      injection H as <- <- _. apply step_ok_other; reflexivity.
    - injection H as <- <- _. apply step_ok_other; reflexivity.
    - (* ScriptFinished *)
      destruct (negb (is_some (d_script d)) && d_dbg d); [discriminate|].
      eapply finish_with_cancel_ok; [exact H|].
      cbn [d_stats set_stats set_script]. rewrite link_on_script_finished.
      unfold step_ok, tr_stream. cbn [map tr_event attached fst stats_fold fold_left stats_step].
      split; reflexivity.
    - (* Started *)
      destruct (is_some (d_cancel d)); [injection H as <- <- _; apply step_ok_nil|].
      destruct (lookup t (d_running d)); [discriminate|].
      injection H as <- <- _. cbn [d_stats set_running].
      unfold step_ok, tr_stream. cbn [map tr_event attached fst stats_fold fold_left stats_step].
      rewrite stats_eqb_refl. split; reflexivity.
    - injection H as <- <- _. apply step_ok_other; reflexivity.
    - (* AttemptFailedWillRetry *)
      destruct (lookup t (d_running d)); [|discriminate].
      injection H as <- <- _. cbn [d_stats set_running]. apply step_ok_other; reflexivity.
    - (* RetryStarted *)
      destruct (is_some (d_cancel d)); injection H as <- <- _;
        [apply step_ok_nil|apply step_ok_other; reflexivity].
    - (* Finished *)
      destruct (lookup t (d_running d)) as [past|]; [|discriminate].
      eapply finish_with_cancel_ok; [exact H|].
      cbn [d_stats set_stats set_running].
      unfold step_ok, tr_stream. cbn [map tr_event attached fst stats_fold fold_left stats_step].
      rewrite !link_on_test_finished, stats_eqb_refl. split; reflexivity.
    - (* Skipped *)
      injection H as <- <- _. cbn [d_stats set_stats]. rewrite link_skipped.
      unfold step_ok, tr_stream. cbn [map tr_event attached fst stats_fold fold_left stats_step].
      split; reflexivity.
    - (* SigShutdown *)
      destruct (d_sig d) as [[|]|]; try discriminate;
        match type of H with
        | context [begin_cancel ?a ?b ?c] => destruct (begin_cancel a b c) as [[d2 evs2] r2] eqn:Hbc
        end;
        injection H as <- <- _; destruct (begin_cancel_ok _ _ _ _ _ _ Hbc) as [E Hok];
        rewrite E; exact Hok.
    - (* SigStop *)
      destruct (d_paused d); injection H as <- <- _;
        [apply step_ok_nil|apply step_ok_other; reflexivity].
    - (* SigCont *)
      destruct (d_paused d); injection H as <- <- _;
        [apply step_ok_other; reflexivity|apply step_ok_nil].
    - injection H as <- <- _. apply step_ok_nil.
    - injection H as <- <- _. apply step_ok_nil.
    - (* InputEnter *)
      injection H as <- <- _.
      unfold step_ok, tr_stream. cbn [map tr_event attached fst stats_fold fold_left stats_step].
      rewrite stats_eqb_refl. split; reflexivity.
    - (* ReportCancel *)
      destruct (begin_cancel d ReportError CeReport) as [[d2 evs2] r2] eqn:Hbc.
      injection H as <- <- _. destruct (begin_cancel_ok _ _ _ _ _ _ Hbc) as [E Hok].
      rewrite E. exact Hok.
  Qed.

  (* for EVERY history of the dispatcher model that does not panic *)
  Lemma run_attached h : forall d d',
    final_state (Live d) h = Live d' ->
    step_ok (of_stats (d_stats d)) (out (Live d) h) (of_stats (d_stats d')).
  Proof.
    induction h as [|e h IH]; intros d d' H.
    - cbn in H. injection H as <-. rewrite out_nil. apply step_ok_nil.
    - rewrite final_state_cons in H.
      destruct (final_state_live_prefix _ _ _ H) as [d1 E1]. rewrite E1 in H.
      rewrite out_cons, E1. unfold next_state in E1. cbn [dstep] in *.
      destruct (dstep_live d e) as [[s1 evs] rsp] eqn:E. cbn [fst snd] in *. subst s1.
      eapply step_ok_app; [exact (step_attached _ _ _ _ _ E)|exact (IH _ _ H)].
  Qed.

  (* the stream the reporter receives from a run: what the dispatcher emitted, then RunFinished
     carrying the dispatcher's statistics (DispatcherContext::run_finished) *)
  Definition emitted (n : N) (mf : option N) (dbg : bool) (h : list devent) (final : R.stats)
    : list sevent :=
    tr_stream (out (Live (init n mf dbg)) h) ++ [(JOther, Some (of_stats final))].

  Lemma dispatcher_stream_attached n mf dbg h d :
    final_state (Live (init n mf dbg)) h = Live d ->
    attached (initial_stats n) (emitted n mf dbg h (d_stats d)) = true
    /\ of_stats (d_stats d) = run_stats n (map fst (tr_stream (out (Live (init n mf dbg)) h))).
  Proof.
    intros H. destruct (run_attached _ _ _ H) as [A F].
    cbn [init d_stats] in A, F. rewrite link_initial in A, F.
    unfold emitted. rewrite attached_app, A, F. cbn [attached stats_step andb].
    rewrite stats_eqb_refl. split; [reflexivity|]. unfold run_stats. symmetry. exact F.
  Qed.

  (* C17_exit_status_is_C01s: for every history of the dispatcher model (the one C01's theorems
     are about) that yields an exit status, that status -- C01's [run_exit], computed from the
     dispatcher's RunStats -- is the exit status Model/Junit.v computes from the statistics folded
     over the stream the dispatcher emitted, and those statistics are the tallies of the
     per-test final results in that stream; the stream carries the running fold on every event. *)
  Lemma exit_status_is_result_exit c mf dbg h code :
    Unit.run_exit c mf dbg h None = Some code ->
    let n := N.of_nat (length (Unit.c_sel c)) in
    exists d,
      final_state (Live (init n mf dbg)) h = Live d
      /\ let evs := map fst (tr_stream (out (Live (init n mf dbg)) h)) in
         of_stats (d_stats d) = run_stats n evs
         /\ run_stats n evs = tally_stats n evs
         /\ code = Z.of_N (exit_code (summarize_final (run_stats n evs)))
         /\ attached (initial_stats n) (emitted n mf dbg h (d_stats d)) = true.
  Proof.
    intros H. cbv zeta. unfold Unit.run_exit, Unit.init_for in H.
    set (n := N.of_nat (length (Unit.c_sel c))) in *.
    destruct (final_state (Live (init n mf dbg)) h) as [d|] eqn:E; [|discriminate].
    injection H as <-. exists d. split; [reflexivity|].
    destruct (dispatcher_stream_attached n mf dbg h d E) as [A F].
    split; [exact F|]. split; [apply run_stats_is_tally|]. split; [|exact A].
    rewrite <- F, link_summarize_final, link_exit_code. reflexivity.
  Qed.
End Stream.
