(* Lemmas about per-test settings resolution (C06). *)
From NextestModel Require Import Base.Str Model.Overrides.
From NextestModel Require Import Base.Tac.
Open Scope N_scope.

(* ---------------------------------------------------------------- strings, association lists *)

Lemma str_eqb_refl a : str_eqb a a = true.
Proof. induction a as [|x a IH]; cbn [str_eqb]; [reflexivity|]. rewrite N.eqb_refl, IH. reflexivity. Qed.

Lemma str_eqb_eq a b : str_eqb a b = true <-> a = b.
Proof.
  split.
  - revert b; induction a as [|x a IH]; intros [|y b] H; cbn [str_eqb] in H;
      try discriminate; [reflexivity|].
    apply andb_true_iff in H as [H1 H2]. apply N.eqb_eq in H1. apply IH in H2. congruence.
  - intros ->. apply str_eqb_refl.
Qed.

Lemma str_eqb_sym a b : str_eqb a b = str_eqb b a.
Proof.
  destruct (str_eqb a b) eqn:E.
  - apply str_eqb_eq in E. subst. symmetry. apply str_eqb_refl.
  - destruct (str_eqb b a) eqn:E'; [|reflexivity].
    apply str_eqb_eq in E'. subst. rewrite str_eqb_refl in E. discriminate.
Qed.

Lemma str_eqb_neq a b : str_eqb a b = false <-> a <> b.
Proof.
  split.
  - intros H ->. rewrite str_eqb_refl in H. discriminate.
  - intros H. destruct (str_eqb a b) eqn:E; [|reflexivity]. apply str_eqb_eq in E. contradiction.
Qed.

Section Assoc.
  Context {A : Type}.

  Lemma lookup_upsert_same k (v : A) m : lookup k (upsert k v m) = Some v.
  Proof.
    induction m as [|[k' v'] r IH]; cbn [upsert lookup].
    - rewrite str_eqb_refl. reflexivity.
    - destruct (str_eqb k k') eqn:E; cbn [lookup]; rewrite ?str_eqb_refl, ?E; auto.
  Qed.

  Lemma lookup_upsert_other k k' (v : A) m :
    str_eqb k k' = false -> lookup k (upsert k' v m) = lookup k m.
  Proof.
    intros Hne. induction m as [|[k2 v2] r IH]; cbn [upsert lookup].
    - rewrite Hne. reflexivity.
    - destruct (str_eqb k' k2) eqn:E; cbn [lookup].
      + apply str_eqb_eq in E. subst k2. rewrite Hne. reflexivity.
      + destruct (str_eqb k k2); auto.
  Qed.

  Lemma lookup_app k (a b : list (key * A)) :
    lookup k (a ++ b) = or_else (lookup k a) (lookup k b).
  Proof.
    induction a as [|[k' v] r IH]; cbn [app lookup or_else]; [reflexivity|].
    destruct (str_eqb k k'); auto.
  Qed.

  Lemma lookup_map_snd {B : Type} (g : A -> B) k (m : list (key * A)) :
    lookup k (map (fun p => (fst p, g (snd p))) m) =
    match lookup k m with Some v => Some (g v) | None => None end.
  Proof.
    induction m as [|[k' v] r IH]; cbn [map lookup fst snd]; [reflexivity|].
    destruct (str_eqb k k'); auto.
  Qed.

  Lemma nodup_keys_map_snd {B : Type} (g : A -> B) (m : list (key * A)) :
    nodup_keys (map (fun p => (fst p, g (snd p))) m) = nodup_keys m.
  Proof.
    induction m as [|[k v] r IH]; cbn [map nodup_keys fst snd]; [reflexivity|].
    rewrite IH, lookup_map_snd. destruct (lookup k r); reflexivity.
  Qed.

  Lemma lookup_filter_keys (P : key -> bool) k (m : list (key * A)) :
    lookup k (filter (fun kv => P (fst kv)) m) = if P k then lookup k m else None.
  Proof.
    induction m as [|[k' v] r IH]; cbn [filter lookup fst].
    - destruct (P k); reflexivity.
    - destruct (P k') eqn:Ek'; cbn [lookup].
      + destruct (str_eqb k k') eqn:E; [|exact IH].
        apply str_eqb_eq in E. subst k'. rewrite Ek'. reflexivity.
      + rewrite IH. destruct (str_eqb k k') eqn:E; [|reflexivity].
        apply str_eqb_eq in E. subst k'. rewrite Ek'. reflexivity.
  Qed.

  Lemma nodup_keys_filter (P : key -> bool) (m : list (key * A)) :
    nodup_keys m = true -> nodup_keys (filter (fun kv => P (fst kv)) m) = true.
  Proof.
    induction m as [|[k v] r IH]; cbn [filter nodup_keys fst]; [reflexivity|].
    intros H. apply andb_true_iff in H as [H1 H2].
    destruct (P k) eqn:Ek; cbn [nodup_keys]; [|auto].
    rewrite IH by assumption. rewrite lookup_filter_keys, Ek.
    rewrite H1. reflexivity.
  Qed.
End Assoc.

(* ---------------------------------------------------------------- override order *)

Definition olist (c : compiled) (n : key) : list override :=
  match lookup n (c_other c) with Some l => l | None => [] end.

Lemma profile_overrides_olist c n : profile_overrides c n = olist c n ++ c_default c.
Proof. unfold profile_overrides, olist, chain. destruct (lookup n (c_other c)); reflexivity. Qed.

Lemma olist_finalize c n : olist (finalize c) n = rev (olist c n).
Proof.
  unfold olist, finalize; cbn [c_other]. rewrite (lookup_map_snd (@rev override)).
  destruct (lookup n (c_other c)); reflexivity.
Qed.

(* one file's entries folded into the map *)
Lemma fold_add_other n es : forall c,
  nodup_keys es = true ->
  lookup n (fold_left add_other es c) =
  match lookup n es with
  | None => lookup n c
  | Some ovs => Some (match lookup n c with Some old => old | None => [] end ++ rev ovs)
  end.
Proof.
  induction es as [|[k o] r IH]; intros c Hnd; cbn [fold_left lookup]; [reflexivity|].
  cbn [nodup_keys] in Hnd. apply andb_true_iff in Hnd as [Hk Hr].
  rewrite IH by assumption.
  destruct (str_eqb n k) eqn:E.
  - apply str_eqb_eq in E. subst k.
    destruct (lookup n r); [discriminate|].
    unfold add_other; cbn [fst snd].
    destruct (lookup n c) as [old|] eqn:Ec.
    + rewrite lookup_upsert_same. reflexivity.
    + rewrite lookup_app, Ec. cbn [or_else lookup]. rewrite str_eqb_refl. reflexivity.
  - assert (Hc : lookup n (add_other c (k, o)) = lookup n c).
    { unfold add_other; cbn [fst snd]. destruct (lookup k c) as [old|] eqn:Ec.
      - apply lookup_upsert_other. exact E.
      - rewrite lookup_app. cbn [lookup]. rewrite E. destruct (lookup n c); reflexivity. }
    rewrite Hc. reflexivity.
Qed.

Lemma lookup_file_others n f :
  lookup n (file_others f) =
  if is_default n then None
  else match lookup n (f_profiles f) with Some pc => Some (pc_overrides pc) | None => None end.
Proof.
  unfold file_others. rewrite (lookup_map_snd pc_overrides).
  rewrite (lookup_filter_keys (fun k => negb (is_default k))).
  destruct (is_default n); reflexivity.
Qed.

Lemma nodup_file_others f : nodup_keys (f_profiles f) = true -> nodup_keys (file_others f) = true.
Proof.
  intros H. unfold file_others. rewrite (nodup_keys_map_snd pc_overrides).
  apply (nodup_keys_filter (fun k => negb (is_default k))). exact H.
Qed.

Lemma olist_process_file c f n :
  nodup_keys (f_profiles f) = true ->
  olist (process_file c f) n = olist c n ++ (if is_default n then [] else rev (ovs_of n f)).
Proof.
  intros Hnd. unfold olist, process_file; cbn [c_other].
  rewrite fold_add_other by (apply nodup_file_others; exact Hnd).
  rewrite lookup_file_others. unfold ovs_of.
  destruct (is_default n).
  - rewrite app_nil_r. reflexivity.
  - destruct (lookup n (f_profiles f)) as [pc|]; [reflexivity|].
    cbn [rev]. rewrite app_nil_r. reflexivity.
Qed.

Definition files_nodup (fs : list file) : Prop :=
  forall f, In f fs -> nodup_keys (f_profiles f) = true.

Lemma fold_process_default fs : forall c,
  c_default (fold_left process_file fs c) =
  c_default c ++ flat_map (fun f => rev (ovs_of default_name f)) fs.
Proof.
  induction fs as [|f r IH]; intros c; cbn [fold_left flat_map].
  - rewrite app_nil_r. reflexivity.
  - rewrite IH. unfold process_file at 1; cbn [c_default]. unfold extend_reverse.
    rewrite app_assoc. reflexivity.
Qed.

Lemma fold_process_olist n fs : forall c,
  files_nodup fs ->
  olist (fold_left process_file fs c) n =
  olist c n ++ (if is_default n then [] else flat_map (fun f => rev (ovs_of n f)) fs).
Proof.
  induction fs as [|f r IH]; intros c Hnd; cbn [fold_left flat_map].
  - destruct (is_default n); rewrite app_nil_r; reflexivity.
  - rewrite IH by (intros g Hg; apply Hnd; right; exact Hg).
    rewrite olist_process_file by (apply Hnd; left; reflexivity).
    destruct (is_default n); rewrite <- ?app_assoc; reflexivity.
Qed.

Lemma rev_flat_map_rev {A B : Type} (g : A -> list B) (l : list A) :
  rev (flat_map (fun x => rev (g x)) l) = flat_map g (rev l).
Proof.
  induction l as [|x r IH]; cbn [flat_map rev]; [reflexivity|].
  rewrite rev_app_distr, rev_involutive, IH.
  rewrite flat_map_app. cbn [flat_map]. rewrite app_nil_r. reflexivity.
Qed.

Lemma files_nodup_of_wf repo tools :
  wf_file repo = true -> forallb wf_file tools = true -> files_nodup (rev tools ++ [repo]).
Proof.
  intros Hr Ht f Hin. apply in_app_or in Hin as [Hin|[<-|[]]].
  - apply in_rev in Hin. rewrite forallb_forall in Ht. specialize (Ht f Hin).
    unfold wf_file in Ht. apply andb_true_iff in Ht as [H _]. exact H.
  - unfold wf_file in Hr. apply andb_true_iff in Hr as [H _]. exact H.
Qed.

Theorem override_order repo tools sel :
  wf_file repo = true -> forallb wf_file tools = true ->
  profile_overrides (read_compiled repo tools) sel = ordered_overrides repo tools sel.
Proof.
  intros Hr Ht. rewrite profile_overrides_olist. unfold read_compiled.
  rewrite olist_finalize. unfold finalize at 1; cbn [c_default].
  rewrite fold_process_default, fold_process_olist by (apply files_nodup_of_wf; assumption).
  unfold compiled_init, olist; cbn [c_default c_other lookup app].
  unfold ordered_overrides, by_priority.
  assert (Hrev : rev (rev tools ++ [repo]) = repo :: tools).
  { rewrite rev_app_distr, rev_involutive. reflexivity. }
  rewrite (rev_flat_map_rev (ovs_of default_name)), Hrev.
  destruct (is_default sel).
  - reflexivity.
  - rewrite (rev_flat_map_rev (ovs_of sel)), Hrev. reflexivity.
Qed.

(* ---------------------------------------------------------------- the single pass *)

Definition hits (e : env) (bp : bplat) (t : test) (s : setting) (o : override) : bool :=
  applies e bp t o && is_some (data_get s (ov_data o)).

Lemma skips_applies e bp t o : skips e t (apply_bp e bp o, o) = negb (applies e bp t o).
Proof.
  unfold skips, applies, platform_ok.
  destruct (st_host (apply_bp e bp o)), (t_host t), (st_host_test (apply_bp e bp o)),
    (st_target (apply_bp e bp o)), (filter_of o) as [f|]; cbn; try reflexivity;
    destruct (e_filter e f (t_id t)); reflexivity.
Qed.

Lemma fold_step e bp t s ovl : forall acc,
  fold_left (step e t) (map (fun o => (apply_bp e bp o, o)) ovl) acc s =
  match acc s with
  | Some v => Some v
  | None => match find (hits e bp t s) ovl with
            | Some o => data_get s (ov_data o)
            | None => None
            end
  end.
Proof.
  induction ovl as [|o r IH]; intros acc; cbn [map fold_left find].
  - destruct (acc s); reflexivity.
  - rewrite IH. unfold step at 1. rewrite skips_applies. unfold hits at 2.
    destruct (applies e bp t o); cbn [negb andb snd].
    + destruct (acc s); [reflexivity|].
      destruct (data_get s (ov_data o)) eqn:E; cbn [is_some]; [rewrite E|]; reflexivity.
    + reflexivity.
Qed.

Theorem pass_first_match e bp t s ovl :
  pass e t (map (fun o => (apply_bp e bp o, o)) ovl) s =
  match find (hits e bp t s) ovl with
  | Some o => data_get s (ov_data o)
  | None => None
  end.
Proof. unfold pass. rewrite fold_step. reflexivity. Qed.

Theorem first_match_wins e bp builtin repo tools sel t s :
  wf_file repo = true -> forallb wf_file tools = true ->
  settings_for e bp builtin repo tools sel t s =
  match find (hits e bp t s) (ordered_overrides repo tools sel) with
  | Some o => data_get s (ov_data o)
  | None => profile_value (custom_profile builtin repo tools sel)
                          (default_profile builtin repo tools) s
  end.
Proof.
  intros Hr Ht. unfold settings_for, compiled_for.
  rewrite override_order by assumption. rewrite pass_first_match.
  destruct (find (hits e bp t s) (ordered_overrides repo tools sel)) as [o|] eqn:E.
  - apply find_some in E as [_ E]. unfold hits in E. apply andb_true_iff in E as [_ E].
    destruct (data_get s (ov_data o)); [reflexivity|discriminate].
  - reflexivity.
Qed.
