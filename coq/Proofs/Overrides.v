(* Lemmas about per-test settings resolution (C06). *)
From NextestModel Require Import Base.Str Model.Overrides.
From NextestModel Require Import Base.Tac.
Open Scope N_scope.

(* ---------------------------------------------------------------- strings, association lists *)

Lemma str_eqb_refl a : str_eqb a a = true.
Proof. induction a as [|x a IH]; cbn [str_eqb]; [reflexivity|]. rewrite N.eqb_refl, IH. reflexivity. Qed.

Lemma str_eqb_eq a b : str_eqb a b = true <-> a = b.
Proof.
  split.
  - revert b; induction a as [|x a IH]; intros [|y b] H; cbn [str_eqb] in H;
      try discriminate; [reflexivity|].
    apply andb_true_iff in H as [H1 H2]. apply N.eqb_eq in H1. apply IH in H2. congruence.
  - intros ->. apply str_eqb_refl.
Qed.

Lemma str_eqb_sym a b : str_eqb a b = str_eqb b a.
Proof.
  destruct (str_eqb a b) eqn:E.
  - apply str_eqb_eq in E. subst. symmetry. apply str_eqb_refl.
  - destruct (str_eqb b a) eqn:E'; [|reflexivity].
    apply str_eqb_eq in E'. subst. rewrite str_eqb_refl in E. discriminate.
Qed.

Lemma str_eqb_neq a b : str_eqb a b = false <-> a <> b.
Proof.
  split.
  - intros H ->. rewrite str_eqb_refl in H. discriminate.
  - intros H. destruct (str_eqb a b) eqn:E; [|reflexivity]. apply str_eqb_eq in E. contradiction.
Qed.

Section Assoc.
  Context {A : Type}.

  Lemma lookup_upsert_same k (v : A) m : lookup k (upsert k v m) = Some v.
  Proof.
    induction m as [|[k' v'] r IH]; cbn [upsert lookup].
    - rewrite str_eqb_refl. reflexivity.
    - destruct (str_eqb k k') eqn:E; cbn [lookup]; rewrite ?str_eqb_refl, ?E; auto.
  Qed.

  Lemma lookup_upsert_other k k' (v : A) m :
    str_eqb k k' = false -> lookup k (upsert k' v m) = lookup k m.
  Proof.
    intros Hne. induction m as [|[k2 v2] r IH]; cbn [upsert lookup].
    - rewrite Hne. reflexivity.
    - destruct (str_eqb k' k2) eqn:E; cbn [lookup].
      + apply str_eqb_eq in E. subst k2. rewrite Hne. reflexivity.
      + destruct (str_eqb k k2); auto.
  Qed.

  Lemma lookup_app k (a b : list (key * A)) :
    lookup k (a ++ b) = or_else (lookup k a) (lookup k b).
  Proof.
    induction a as [|[k' v] r IH]; cbn [app lookup or_else]; [reflexivity|].
    destruct (str_eqb k k'); auto.
  Qed.

  Lemma lookup_map_snd {B : Type} (g : A -> B) k (m : list (key * A)) :
    lookup k (map (fun p => (fst p, g (snd p))) m) =
    match lookup k m with Some v => Some (g v) | None => None end.
  Proof.
    induction m as [|[k' v] r IH]; cbn [map lookup fst snd]; [reflexivity|].
    destruct (str_eqb k k'); auto.
  Qed.

  Lemma nodup_keys_map_snd {B : Type} (g : A -> B) (m : list (key * A)) :
    nodup_keys (map (fun p => (fst p, g (snd p))) m) = nodup_keys m.
  Proof.
    induction m as [|[k v] r IH]; cbn [map nodup_keys fst snd]; [reflexivity|].
    rewrite IH, lookup_map_snd. destruct (lookup k r); reflexivity.
  Qed.

  Lemma lookup_filter_keys (P : key -> bool) k (m : list (key * A)) :
    lookup k (filter (fun kv => P (fst kv)) m) = if P k then lookup k m else None.
  Proof.
    induction m as [|[k' v] r IH]; cbn [filter lookup fst].
    - destruct (P k); reflexivity.
    - destruct (P k') eqn:Ek'; cbn [lookup].
      + destruct (str_eqb k k') eqn:E; [|exact IH].
        apply str_eqb_eq in E. subst k'. rewrite Ek'. reflexivity.
      + rewrite IH. destruct (str_eqb k k') eqn:E; [|reflexivity].
        apply str_eqb_eq in E. subst k'. rewrite Ek'. reflexivity.
  Qed.

  Lemma nodup_keys_filter (P : key -> bool) (m : list (key * A)) :
    nodup_keys m = true -> nodup_keys (filter (fun kv => P (fst kv)) m) = true.
  Proof.
    induction m as [|[k v] r IH]; cbn [filter nodup_keys fst]; [reflexivity|].
    intros H. apply andb_true_iff in H as [H1 H2].
    destruct (P k) eqn:Ek; cbn [nodup_keys]; [|auto].
    rewrite IH by assumption. rewrite lookup_filter_keys, Ek.
    rewrite H1. reflexivity.
  Qed.
End Assoc.

(* ---------------------------------------------------------------- override order *)

Definition olist (c : compiled) (n : key) : list override :=
  match lookup n (c_other c) with Some l => l | None => [] end.

Lemma profile_overrides_olist c n : profile_overrides c n = olist c n ++ c_default c.
Proof. unfold profile_overrides, olist, chain. destruct (lookup n (c_other c)); reflexivity. Qed.

Lemma olist_finalize c n : olist (finalize c) n = rev (olist c n).
Proof.
  unfold olist, finalize; cbn [c_other]. rewrite (lookup_map_snd (@rev override)).
  destruct (lookup n (c_other c)); reflexivity.
Qed.

(* one file's entries folded into the map *)
Lemma fold_add_other n es : forall c,
  nodup_keys es = true ->
  lookup n (fold_left add_other es c) =
  match lookup n es with
  | None => lookup n c
  | Some ovs => Some (match lookup n c with Some old => old | None => [] end ++ rev ovs)
  end.
Proof.
  induction es as [|[k o] r IH]; intros c Hnd; cbn [fold_left lookup]; [reflexivity|].
  cbn [nodup_keys] in Hnd. apply andb_true_iff in Hnd as [Hk Hr].
  rewrite IH by assumption.
  destruct (str_eqb n k) eqn:E.
  - apply str_eqb_eq in E. subst k.
    destruct (lookup n r); [discriminate|].
    unfold add_other; cbn [fst snd].
    destruct (lookup n c) as [old|] eqn:Ec.
    + rewrite lookup_upsert_same. reflexivity.
    + rewrite lookup_app, Ec. cbn [or_else lookup]. rewrite str_eqb_refl. reflexivity.
  - assert (Hc : lookup n (add_other c (k, o)) = lookup n c).
    { unfold add_other; cbn [fst snd]. destruct (lookup k c) as [old|] eqn:Ec.
      - apply lookup_upsert_other. exact E.
      - rewrite lookup_app. cbn [lookup]. rewrite E. destruct (lookup n c); reflexivity. }
    rewrite Hc. reflexivity.
Qed.

Lemma lookup_file_others n f :
  lookup n (file_others f) =
  if is_default n then None
  else match lookup n (f_profiles f) with Some pc => Some (pc_overrides pc) | None => None end.
Proof.
  unfold file_others. rewrite (lookup_map_snd pc_overrides).
  rewrite (lookup_filter_keys (fun k => negb (is_default k))).
  destruct (is_default n); reflexivity.
Qed.

Lemma nodup_file_others f : nodup_keys (f_profiles f) = true -> nodup_keys (file_others f) = true.
Proof.
  intros H. unfold file_others. rewrite (nodup_keys_map_snd pc_overrides).
  apply (nodup_keys_filter (fun k => negb (is_default k))). exact H.
Qed.

Lemma olist_process_file c f n :
  nodup_keys (f_profiles f) = true ->
  olist (process_file c f) n = olist c n ++ (if is_default n then [] else rev (ovs_of n f)).
Proof.
  intros Hnd. unfold olist, process_file; cbn [c_other].
  rewrite fold_add_other by (apply nodup_file_others; exact Hnd).
  rewrite lookup_file_others. unfold ovs_of.
  destruct (is_default n).
  - rewrite app_nil_r. reflexivity.
  - destruct (lookup n (f_profiles f)) as [pc|]; [reflexivity|].
    cbn [rev]. rewrite app_nil_r. reflexivity.
Qed.

Definition files_nodup (fs : list file) : Prop :=
  forall f, In f fs -> nodup_keys (f_profiles f) = true.

Lemma fold_process_default fs : forall c,
  c_default (fold_left process_file fs c) =
  c_default c ++ flat_map (fun f => rev (ovs_of default_name f)) fs.
Proof.
  induction fs as [|f r IH]; intros c; cbn [fold_left flat_map].
  - rewrite app_nil_r. reflexivity.
  - rewrite IH. unfold process_file at 1; cbn [c_default]. unfold extend_reverse.
    rewrite app_assoc. reflexivity.
Qed.

Lemma fold_process_olist n fs : forall c,
  files_nodup fs ->
  olist (fold_left process_file fs c) n =
  olist c n ++ (if is_default n then [] else flat_map (fun f => rev (ovs_of n f)) fs).
Proof.
  induction fs as [|f r IH]; intros c Hnd; cbn [fold_left flat_map].
  - destruct (is_default n); rewrite app_nil_r; reflexivity.
  - rewrite IH by (intros g Hg; apply Hnd; right; exact Hg).
    rewrite olist_process_file by (apply Hnd; left; reflexivity).
    destruct (is_default n); rewrite <- ?app_assoc; reflexivity.
Qed.

Lemma rev_flat_map_rev {A B : Type} (g : A -> list B) (l : list A) :
  rev (flat_map (fun x => rev (g x)) l) = flat_map g (rev l).
Proof.
  induction l as [|x r IH]; cbn [flat_map rev]; [reflexivity|].
  rewrite rev_app_distr, rev_involutive, IH.
  rewrite flat_map_app. cbn [flat_map]. rewrite app_nil_r. reflexivity.
Qed.

Lemma files_nodup_of_wf repo tools :
  wf_file repo = true -> forallb wf_file tools = true -> files_nodup (rev tools ++ [repo]).
Proof.
  intros Hr Ht f Hin. apply in_app_or in Hin as [Hin|[<-|[]]].
  - apply in_rev in Hin. rewrite forallb_forall in Ht. specialize (Ht f Hin).
    unfold wf_file in Ht. apply andb_true_iff in Ht as [H _]. exact H.
  - unfold wf_file in Hr. apply andb_true_iff in Hr as [H _]. exact H.
Qed.

Theorem override_order repo tools sel :
  wf_file repo = true -> forallb wf_file tools = true ->
  profile_overrides (read_compiled repo tools) sel = ordered_overrides repo tools sel.
Proof.
  intros Hr Ht. rewrite profile_overrides_olist. unfold read_compiled.
  rewrite olist_finalize. unfold finalize at 1; cbn [c_default].
  rewrite fold_process_default, fold_process_olist by (apply files_nodup_of_wf; assumption).
  unfold compiled_init, olist; cbn [c_default c_other lookup app].
  unfold ordered_overrides, by_priority.
  assert (Hrev : rev (rev tools ++ [repo]) = repo :: tools).
  { rewrite rev_app_distr, rev_involutive. reflexivity. }
  rewrite (rev_flat_map_rev (ovs_of default_name)), Hrev.
  destruct (is_default sel).
  - reflexivity.
  - rewrite (rev_flat_map_rev (ovs_of sel)), Hrev. reflexivity.
Qed.

(* ---------------------------------------------------------------- the single pass *)

Definition hits (e : env) (bp : bplat) (t : test) (s : setting) (o : override) : bool :=
  applies e bp t o && is_some (data_get s (ov_data o)).

Lemma skips_applies e bp t o : skips e t (apply_bp e bp o, o) = negb (applies e bp t o).
Proof.
  unfold skips, applies, platform_ok.
  destruct (st_host (apply_bp e bp o)), (t_host t), (st_host_test (apply_bp e bp o)),
    (st_target (apply_bp e bp o)), (filter_of o) as [f|]; cbn; try reflexivity;
    destruct (e_filter e f (t_id t)); reflexivity.
Qed.

Lemma fold_step e bp t s ovl : forall acc,
  fold_left (step e t) (map (fun o => (apply_bp e bp o, o)) ovl) acc s =
  match acc s with
  | Some v => Some v
  | None => match find (hits e bp t s) ovl with
            | Some o => data_get s (ov_data o)
            | None => None
            end
  end.
Proof.
  induction ovl as [|o r IH]; intros acc; cbn [map fold_left find].
  - destruct (acc s); reflexivity.
  - rewrite IH. unfold step at 1. rewrite skips_applies. unfold hits at 2.
    destruct (applies e bp t o); cbn [negb andb snd].
    + destruct (acc s); [reflexivity|].
      destruct (data_get s (ov_data o)) eqn:E; cbn [is_some]; [rewrite E|]; reflexivity.
    + reflexivity.
Qed.

Theorem pass_first_match e bp t s ovl :
  pass e t (map (fun o => (apply_bp e bp o, o)) ovl) s =
  match find (hits e bp t s) ovl with
  | Some o => data_get s (ov_data o)
  | None => None
  end.
Proof. unfold pass. rewrite fold_step. reflexivity. Qed.

Theorem first_match_wins e bp builtin repo tools sel t s :
  wf_file repo = true -> forallb wf_file tools = true ->
  settings_for e bp builtin repo tools sel t s =
  match find (hits e bp t s) (ordered_overrides repo tools sel) with
  | Some o => data_get s (ov_data o)
  | None => profile_value (custom_profile builtin repo tools sel)
                          (default_profile builtin repo tools) s
  end.
Proof.
  intros Hr Ht. unfold settings_for, compiled_for.
  rewrite override_order by assumption. rewrite pass_first_match.
  destruct (find (hits e bp t s) (ordered_overrides repo tools sel)) as [o|] eqn:E.
  - apply find_some in E as [_ E]. unfold hits in E. apply andb_true_iff in E as [_ E].
    destruct (data_get s (ov_data o)); [reflexivity|discriminate].
  - reflexivity.
Qed.

(* ---------------------------------------------------------------- profile-level layering *)

Definition olookup {A : Type} (k : key) (m : option (list (key * A))) : option A :=
  match m with Some x => lookup k x | None => None end.

(* what file f says about key k of profile n *)
Definition binding (n k : key) (f : file) : option sval := olookup k (layer_settings n f).

Definition slot_step (a b : option sval) : option sval :=
  match b with Some v => Some (merge_sval a v) | None => a end.

Definition slot_from (a : option sval) (bs : list (option sval)) : option sval :=
  fold_left slot_step bs a.

Definition slot (bs : list (option sval)) : option sval := slot_from None bs.

(* processing order of the composite builder *)
Definition layers (builtin repo : file) (tools : list file) : list file :=
  builtin :: rev tools ++ [repo].

Lemma layers_rev builtin repo tools :
  rev (layers builtin repo tools) = by_priority repo tools ++ [builtin].
Proof.
  unfold layers, by_priority. cbn [rev]. rewrite rev_app_distr, rev_involutive. reflexivity.
Qed.

Lemma lookup_In {A : Type} k (m : list (key * A)) v : lookup k m = Some v -> In (k, v) m.
Proof.
  induction m as [|[k' v'] r IH]; cbn [lookup]; [discriminate|].
  destruct (str_eqb k k') eqn:E.
  - apply str_eqb_eq in E. subst k'. intros [= ->]. left; reflexivity.
  - intros H. right. auto.
Qed.

Lemma lookup_fold_merge k new : forall old,
  nodup_keys new = true ->
  lookup k (fold_left (fun acc kv => upsert (fst kv) (merge_sval (lookup (fst kv) acc) (snd kv)) acc)
                      new old) =
  match lookup k new with
  | Some v => Some (merge_sval (lookup k old) v)
  | None => lookup k old
  end.
Proof.
  induction new as [|[k' v] r IH]; intros old Hnd; cbn [fold_left lookup fst snd]; [reflexivity|].
  cbn [nodup_keys] in Hnd. apply andb_true_iff in Hnd as [Hk Hr].
  rewrite IH by assumption.
  destruct (str_eqb k k') eqn:E.
  - apply str_eqb_eq in E. subst k'. destruct (lookup k r); [discriminate|].
    rewrite lookup_upsert_same. reflexivity.
  - rewrite lookup_upsert_other by exact E. reflexivity.
Qed.

Lemma lookup_fold_upsert {A : Type} sk (m : list (key * A)) : forall base,
  nodup_keys m = true ->
  lookup sk (fold_left (fun acc kv => upsert (fst kv) (snd kv) acc) m base) =
  or_else (lookup sk m) (lookup sk base).
Proof.
  induction m as [|[k' v] r IH]; intros base Hnd; cbn [fold_left lookup fst snd or_else];
    [reflexivity|].
  cbn [nodup_keys] in Hnd. apply andb_true_iff in Hnd as [Hk Hr].
  rewrite IH by assumption.
  destruct (str_eqb sk k') eqn:E.
  - apply str_eqb_eq in E. subst k'. destruct (lookup sk r); [discriminate|].
    rewrite lookup_upsert_same. reflexivity.
  - rewrite lookup_upsert_other by exact E. reflexivity.
Qed.

Lemma wf_pcfg_of f n pc :
  wf_file f = true -> lookup n (f_profiles f) = Some pc -> wf_pcfg pc = true.
Proof.
  intros Hwf Hl. unfold wf_file in Hwf. apply andb_true_iff in Hwf as [_ Hall].
  rewrite forallb_forall in Hall. apply lookup_In in Hl. exact (Hall _ Hl).
Qed.

Lemma wf_binding f n k m :
  wf_file f = true -> binding n k f = Some (VTable m) -> nodup_keys m = true.
Proof.
  intros Hwf Hb. unfold binding, layer_settings, olookup in Hb.
  destruct (lookup n (f_profiles f)) as [pc|] eqn:El; [|discriminate].
  pose proof (wf_pcfg_of _ _ _ Hwf El) as Hpc. unfold wf_pcfg in Hpc.
  apply andb_true_iff in Hpc as [_ Hall]. rewrite forallb_forall in Hall.
  apply lookup_In in Hb. exact (Hall _ Hb).
Qed.

Lemma olookup_merge_layer n k acc f :
  wf_file f = true ->
  olookup k (merge_layer n acc f) = slot_step (olookup k acc) (binding n k f).
Proof.
  intros Hwf. unfold merge_layer, binding, layer_settings.
  destruct (lookup n (f_profiles f)) as [pc|] eqn:El; cbn [olookup slot_step]; [|reflexivity].
  pose proof (wf_pcfg_of _ _ _ Hwf El) as Hpc. unfold wf_pcfg in Hpc.
  apply andb_true_iff in Hpc as [Hnd _].
  unfold merge_settings. rewrite lookup_fold_merge by exact Hnd.
  destruct (lookup k (pc_settings pc)); destruct acc; reflexivity.
Qed.

Lemma olookup_fold_layers n k fs : forall acc,
  (forall f, In f fs -> wf_file f = true) ->
  olookup k (fold_left (merge_layer n) fs acc) =
  slot_from (olookup k acc) (map (binding n k) fs).
Proof.
  induction fs as [|f r IH]; intros acc Hwf; cbn [fold_left map]; [reflexivity|].
  rewrite IH by (intros g Hg; apply Hwf; right; exact Hg).
  rewrite olookup_merge_layer by (apply Hwf; left; reflexivity). reflexivity.
Qed.

Lemma layers_wf builtin repo tools :
  wf_file builtin = true -> wf_file repo = true -> forallb wf_file tools = true ->
  forall f, In f (layers builtin repo tools) -> wf_file f = true.
Proof.
  intros Hb Hr Ht f [<-|Hin]; [exact Hb|].
  apply in_app_or in Hin as [Hin|[<-|[]]]; [|exact Hr].
  apply in_rev in Hin. rewrite forallb_forall in Ht. exact (Ht _ Hin).
Qed.

(* each key's slot of the built configuration evolves on its own: it is the fold of the files'
   bindings of that key, lowest priority first *)
Theorem merged_key_slot builtin repo tools n k :
  wf_file builtin = true -> wf_file repo = true -> forallb wf_file tools = true ->
  olookup k (merged_profile builtin repo tools n) =
  slot (map (binding n k) (layers builtin repo tools)).
Proof.
  intros Hb Hr Ht. unfold merged_profile.
  change (builtin :: rev tools ++ [repo]) with (layers builtin repo tools).
  rewrite olookup_fold_layers by (apply layers_wf; assumption). reflexivity.
Qed.

Lemma slot_from_snoc a bs b : slot_from a (bs ++ [b]) = slot_step (slot_from a bs) b.
Proof. unfold slot_from. rewrite fold_left_app. reflexivity. Qed.

Lemma first_some_app {A : Type} (l1 l2 : list (option A)) :
  first_some (l1 ++ l2) = or_else (first_some l1) (first_some l2).
Proof.
  induction l1 as [|x r IH]; cbn [app first_some fold_right or_else]; [reflexivity|].
  fold (first_some (r ++ l2)). fold (first_some r). rewrite IH. destruct x; reflexivity.
Qed.

Lemma first_some_rev_snoc {A : Type} (bs : list (option A)) b :
  first_some (rev (bs ++ [b])) = or_else b (first_some (rev bs)).
Proof. rewrite rev_app_distr. cbn [rev app]. reflexivity. Qed.

Lemma first_some_In {A : Type} (l : list (option A)) v : first_some l = Some v -> In (Some v) l.
Proof.
  induction l as [|x r IH]; cbn [first_some fold_right]; [discriminate|].
  fold (first_some r). destruct x as [a|]; cbn [or_else].
  - intros [= ->]. left; reflexivity.
  - intros H. right. auto.
Qed.

Lemma mem_str_In x l : mem_str x l = true <-> In x l.
Proof.
  induction l as [|y r IH]; cbn [mem_str In]; [split; [discriminate|tauto]|].
  rewrite orb_true_iff, IH, str_eqb_eq. split; intros [H|H]; auto.
Qed.

Lemma lookup_some_mem {A : Type} k (m : list (key * A)) v :
  lookup k m = Some v -> In k (map fst m).
Proof. intros H. apply lookup_In in H. apply (in_map fst) in H. exact H. Qed.

Lemma lookup_none_not_mem {A : Type} k (m : list (key * A)) :
  lookup k m = None -> ~ In k (map fst m).
Proof.
  induction m as [|[k' v] r IH]; cbn [lookup map fst In]; [tauto|].
  destruct (str_eqb k k') eqn:E; [discriminate|].
  intros H [Heq|Hin]; [|exact (IH H Hin)].
  subst k'. rewrite str_eqb_refl in E. discriminate.
Qed.

Lemma same_keys_incl a b : same_keys a b = true -> forall x, In x a -> In x b.
Proof.
  unfold same_keys. intros H x Hx. apply andb_true_iff in H as [H _].
  rewrite forallb_forall in H. apply mem_str_In. exact (H x Hx).
Qed.

Lemma same_keys_refl a : same_keys a a = true.
Proof.
  unfold same_keys. assert (H : forallb (fun x => mem_str x a) a = true).
  { apply forallb_forall. intros x Hx. apply mem_str_In. exact Hx. }
  rewrite H. reflexivity.
Qed.

Lemma same_keys_sym a b : same_keys a b = same_keys b a.
Proof. unfold same_keys. apply andb_comm. Qed.

Lemma all_same_keys_pairwise l :
  all_same_keys l = true -> forall a b, In a l -> In b l -> same_keys a b = true.
Proof.
  induction l as [|x r IH]; cbn [all_same_keys]; intros H a b Ha Hb; [destruct Ha|].
  apply andb_true_iff in H as [Hx Hr]. rewrite forallb_forall in Hx.
  destruct Ha as [<-|Ha], Hb as [<-|Hb].
  - apply same_keys_refl.
  - exact (Hx _ Hb).
  - rewrite same_keys_sym. exact (Hx _ Ha).
  - exact (IH Hr _ _ Ha Hb).
Qed.

Definition tables_wf (bs : list (option sval)) : Prop :=
  forall m, In (Some (VTable m)) bs -> nodup_keys m = true.

Definition tables_agree (bs : list (option sval)) : Prop :=
  forall m1 m2, In (Some (VTable m1)) bs -> In (Some (VTable m2)) bs ->
                same_keys (map fst m1) (map fst m2) = true.

Definition base_of (v : option sval) : list (key * atom) :=
  match v with Some (VTable b) => b | _ => [] end.

Lemma lookup_base_of v sk : lookup sk (base_of v) = sub v sk.
Proof. destruct v as [[a|b]|]; reflexivity. Qed.

Lemma slot_step_table a m sk :
  nodup_keys m = true ->
  sub (slot_step a (Some (VTable m))) sk = or_else (lookup sk m) (sub a sk).
Proof.
  intros Hnd. cbn [slot_step merge_sval sub].
  change (match a with Some (VTable b) => b | _ => [] end) with (base_of a).
  rewrite lookup_fold_upsert by exact Hnd. rewrite lookup_base_of. reflexivity.
Qed.

(* whole-value precedence holds when all tables given for the key have the same sub-keys *)
Lemma slot_whole bs :
  tables_wf bs -> tables_agree bs -> osval_ext (slot bs) (first_some (rev bs)).
Proof.
  induction bs as [|b bs IH] using rev_ind; intros Hwf Hag; [exact I|].
  assert (Hwf' : tables_wf bs) by (intros m Hm; apply Hwf, in_or_app; left; exact Hm).
  assert (Hag' : tables_agree bs)
    by (intros m1 m2 H1 H2; apply Hag; apply in_or_app; left; assumption).
  specialize (IH Hwf' Hag').
  unfold slot in *. rewrite slot_from_snoc, first_some_rev_snoc.
  destruct b as [[a|m]|]; cbn [slot_step or_else merge_sval osval_ext sval_ext].
  - reflexivity.
  - intros sk.
    assert (Hnd : nodup_keys m = true) by (apply Hwf, in_or_app; right; left; reflexivity).
    change (match slot_from None bs with Some (VTable b) => b | _ => [] end)
      with (base_of (slot_from None bs)).
    rewrite lookup_fold_upsert by exact Hnd. rewrite lookup_base_of.
    destruct (lookup sk m) as [x|] eqn:Em; cbn [or_else]; [reflexivity|].
    destruct (slot_from None bs) as [[a|b0]|] eqn:Es; cbn [sub]; try reflexivity.
    destruct (first_some (rev bs)) as [[a|m0]|] eqn:Ew; cbn [osval_ext sval_ext] in IH;
      try contradiction.
    rewrite IH.
    destruct (lookup sk m0) as [y|] eqn:E0; [|reflexivity].
    exfalso. apply first_some_In in Ew. apply in_rev in Ew.
    assert (Hsame : same_keys (map fst m0) (map fst m) = true).
    { apply Hag; apply in_or_app; [left; exact Ew|right; left; reflexivity]. }
    apply lookup_some_mem in E0. apply (same_keys_incl _ _ Hsame) in E0.
    exact (lookup_none_not_mem _ _ Em E0).
  - exact IH.
Qed.

(* leaf-key precedence for a key that is only ever given as a table *)
Lemma slot_leaf_key bs sk :
  tables_wf bs -> (forall a, ~ In (Some (VLeaf a)) bs) ->
  sub (slot bs) sk = first_some (map (fun b => sub b sk) (rev bs)).
Proof.
  induction bs as [|b bs IH] using rev_ind; intros Hwf Hnl; [reflexivity|].
  assert (Hwf' : tables_wf bs) by (intros m Hm; apply Hwf, in_or_app; left; exact Hm).
  assert (Hnl' : forall a, ~ In (Some (VLeaf a)) bs)
    by (intros a Ha; apply (Hnl a), in_or_app; left; exact Ha).
  specialize (IH Hwf' Hnl').
  unfold slot in *. rewrite slot_from_snoc, rev_app_distr. cbn [rev app map first_some fold_right].
  fold (first_some (map (fun b0 => sub b0 sk) (rev bs))). rewrite <- IH.
  destruct b as [[a|m]|].
  - exfalso. apply (Hnl a), in_or_app. right; left; reflexivity.
  - rewrite slot_step_table by (apply Hwf, in_or_app; right; left; reflexivity). reflexivity.
  - reflexivity.
Qed.

(* a scalar given by the highest-priority file that gives the key wins as a whole *)
Lemma slot_scalar bs a : first_some (rev bs) = Some (VLeaf a) -> slot bs = Some (VLeaf a).
Proof.
  induction bs as [|b bs IH] using rev_ind; [discriminate|].
  unfold slot in *. rewrite slot_from_snoc, first_some_rev_snoc.
  destruct b as [[a'|m]|]; cbn [or_else slot_step merge_sval].
  - intros [= ->]. reflexivity.
  - discriminate.
  - exact IH.
Qed.

Lemma whole_value_bindings builtin repo tools n k :
  whole_value builtin repo tools n k =
  first_some (rev (map (binding n k) (layers builtin repo tools))).
Proof. rewrite <- map_rev, layers_rev. reflexivity. Qed.

Lemma leaf_value_bindings builtin repo tools n k sk :
  leaf_value builtin repo tools n k sk =
  first_some (map (fun b => sub b sk) (rev (map (binding n k) (layers builtin repo tools)))).
Proof.
  rewrite <- map_rev, layers_rev, map_map. unfold leaf_value. f_equal. apply map_ext.
  intros f. unfold binding, olookup. destruct (layer_settings n f); reflexivity.
Qed.

Lemma bindings_tables_wf builtin repo tools n k :
  wf_file builtin = true -> wf_file repo = true -> forallb wf_file tools = true ->
  tables_wf (map (binding n k) (layers builtin repo tools)).
Proof.
  intros Hb Hr Ht m Hm. apply in_map_iff in Hm as [f [Hf Hin]].
  exact (wf_binding _ _ _ _ (layers_wf _ _ _ Hb Hr Ht f Hin) Hf).
Qed.

Lemma bindings_tables_agree builtin repo tools n k :
  known_f8 builtin repo tools n k = false ->
  tables_agree (map (binding n k) (layers builtin repo tools)).
Proof.
  unfold known_f8. intros Hk. apply negb_false_iff in Hk.
  assert (Hin : forall m, In (Some (VTable m)) (map (binding n k) (layers builtin repo tools)) ->
                          In (map fst m) (tables_of builtin repo tools n k)).
  { intros m Hm. apply in_map_iff in Hm as [f [Hf Hinf]].
    unfold tables_of. apply in_flat_map. exists f. split.
    - rewrite <- layers_rev. apply -> in_rev. exact Hinf.
    - unfold binding, olookup in Hf. rewrite Hf. left; reflexivity. }
  intros m1 m2 H1 H2. exact (all_same_keys_pairwise _ Hk _ _ (Hin _ H1) (Hin _ H2)).
Qed.

Theorem whole_value_outside_known builtin repo tools n k :
  wf_file builtin = true -> wf_file repo = true -> forallb wf_file tools = true ->
  known_f8 builtin repo tools n k = false ->
  osval_ext (olookup k (merged_profile builtin repo tools n))
            (whole_value builtin repo tools n k).
Proof.
  intros Hb Hr Ht Hk. rewrite merged_key_slot by assumption. rewrite whole_value_bindings.
  apply slot_whole.
  - apply bindings_tables_wf; assumption.
  - apply bindings_tables_agree; assumption.
Qed.

Theorem leaf_key_precedence builtin repo tools n k sk :
  wf_file builtin = true -> wf_file repo = true -> forallb wf_file tools = true ->
  (forall f a, In f (by_priority repo tools ++ [builtin]) -> binding n k f <> Some (VLeaf a)) ->
  sub (olookup k (merged_profile builtin repo tools n)) sk =
  leaf_value builtin repo tools n k sk.
Proof.
  intros Hb Hr Ht Hnl. rewrite merged_key_slot by assumption. rewrite leaf_value_bindings.
  apply slot_leaf_key.
  - apply bindings_tables_wf; assumption.
  - intros a Ha. apply in_map_iff in Ha as [f [Hf Hin]].
    apply (Hnl f a); [|exact Hf]. rewrite <- layers_rev. apply -> in_rev. exact Hin.
Qed.

Theorem scalar_precedence builtin repo tools n k a :
  wf_file builtin = true -> wf_file repo = true -> forallb wf_file tools = true ->
  whole_value builtin repo tools n k = Some (VLeaf a) ->
  olookup k (merged_profile builtin repo tools n) = Some (VLeaf a).
Proof.
  intros Hb Hr Ht Hw. rewrite merged_key_slot by assumption.
  apply slot_scalar. rewrite <- whole_value_bindings. exact Hw.
Qed.
